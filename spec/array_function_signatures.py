"""Dimensional-analysis signatures of the NumPy functions unyt wraps.

For a NumPy function F that is homogeneous of degree d_i in array argument i,
the only unit that makes F(x) covariant under a change of units of the inputs is
prod_i U(arg_i)**d_i.  This table states that unit for every wrapped function
(written from the NumPy reference documentation, one line of reason each).

Expected-value language
    Q("U(a)*U(b)")   unyt array carrying that unit; U(p) = unit of parameter p
                     (1 when p carries none); exponents "^-1", "^2",
                     "^{a.shape[-1]}" (symbolic: normalised source text, RESULT =
                     the value returned by NumPy)
    BARE             plain ndarray / scalar / bool (no units)
    TEXT, NONE, ANY  str / None / not typed (callback results)
    T(e1, e2, ..)    tuple;   EACH(e)  one e per element of a sequence argument

An entry is either an expected value or a function of a truth assignment A to
the branch conditions named in ATOMS[name]; the checker enumerates all
assignments that are consistent with the conditions of a code path.

MERGED[name]: parameters whose values end up in one array / are compared
element-wise and therefore must be commensurable (C01-R4).
"""


def Q(m):
    return ("Q", m)


BARE = ("BARE",)
TEXT = ("TEXT",)
NONE = ("NONE",)
ANY = ("ANY",)


def T(*items):
    return ("T", items)


def EACH(e):
    return ("EACH", e)


def has(p):
    return f"hasattr({p}, 'units')"


def _hist_counts(A, sample_units):
    m = []
    if A("density"):
        m += [f"{u}^-1" for u in sample_units]
    if A("weights is not None") and A(has("weights")):
        m.append("U(weights)")
    return Q("*".join(m) if m else "1")


SIG = {
    # --- text ----------------------------------------------------------------
    "numpy.array2string": TEXT,
    "numpy.array_repr": TEXT,
    # --- bilinear products: degree 1 in each argument ---------------------------
    "numpy.dot": Q("U(a)*U(b)"),
    "numpy.vdot": Q("U(a)*U(b)"),
    "numpy.inner": Q("U(a)*U(b)"),
    "numpy.outer": Q("U(a)*U(b)"),
    "numpy.kron": Q("U(a)*U(b)"),
    "numpy.cross": Q("U(a)*U(b)"),
    "numpy.tensordot": Q("U(a)*U(b)"),
    "numpy.convolve": Q("U(a)*U(v)"),
    "numpy.correlate": Q("U(a)*U(v)"),
    "numpy.linalg.outer": Q("U(x1)*U(x2)"),
    # einsum multiplies one element of every operand: degree 1 in each operand
    "numpy.einsum": Q("U(operands)^{len(operands)}"),
    # --- inverses: degree -1 ----------------------------------------------------------
    "numpy.linalg.inv": Q("U(a)^-1"),
    "numpy.linalg.tensorinv": Q("U(a)^-1"),
    "numpy.linalg.pinv": Q("U(a)^-1"),
    # --- decompositions ----------------------------------------------------------------
    # a = u s vh with unitary u, vh: the singular values carry U(a)
    "numpy.linalg.svd": lambda A: T(BARE, Q("U(a)"), BARE) if A("compute_uv") else Q("U(a)"),
    # a v = w v: eigenvalues carry U(a), eigenvectors are normalised (bare)
    "numpy.linalg.eig": T(Q("U(a)"), BARE),
    "numpy.linalg.eigh": T(Q("U(a)"), BARE),
    "numpy.linalg.eigvals": Q("U(a)"),
    "numpy.linalg.eigvalsh": Q("U(a)"),
    # det of an n x n matrix is homogeneous of degree n = a.shape[-1] (stacked matrices allowed)
    "numpy.linalg.det": Q("U(a)^{a.shape[-1]}"),
    # a x = b: x in U(b)/U(a); residuals are sums of squares of (b - a x): U(b)^2;
    # rank is a count; singular values of a carry U(a)
    "numpy.linalg.lstsq": T(Q("U(b)*U(a)^-1"), Q("U(b)^2"), BARE, Q("U(a)")),
    "numpy.linalg.solve": Q("U(b)*U(a)^-1"),
    "numpy.linalg.tensorsolve": Q("U(b)*U(a)^-1"),
    "numpy.linalg.norm": Q("U(x)"),
    # --- histograms -----------------------------------------------------------------------
    # counts: number of samples (bare) or sum of weights (U(weights)); with density
    # divided by the bin volume (prod of sample units). Edges carry the sample's unit.
    "numpy.histogram": lambda A: T(_hist_counts(A, ["U(a)"]), Q("U(a)")),
    "numpy.histogram2d": lambda A: T(_hist_counts(A, ["U(x)", "U(y)"]), Q("U(x)"), Q("U(y)")),
    # (U(sample[i]) accumulated in a loop over the sample axes stands for the product over i)
    "numpy.histogramdd": lambda A: T(_hist_counts(A, ["U(sample[i])"]), EACH(Q("U(sample[i])"))),
    "numpy.histogram_bin_edges": Q("U(a)"),
    # --- joining: result is made of the inputs' own values --------------------------------
    "numpy.concatenate": Q("U(arrs)"),
    "numpy.vstack": Q("U(tup)"),
    "numpy.hstack": Q("U(tup)"),
    "numpy.dstack": Q("U(tup)"),
    "numpy.column_stack": Q("U(tup)"),
    "numpy.stack": Q("U(arrays)"),
    "numpy.block": Q("U(arrays)"),
    "numpy.choose": Q("U(choices)"),
    "numpy.select": Q("U(choicelist)"),
    "numpy.where": lambda A: BARE if A("len(args) == 0") else Q("U(args)"),
    "numpy.insert": Q("U(arr)"),
    "numpy.pad": Q("U(array)"),
    "numpy.clip": Q("U(a)"),
    "numpy.take": Q("U(a)"),
    # --- set operations: selected input values ----------------------------------------------
    # with return_indices the first element still holds the common *values*
    "numpy.intersect1d": lambda A: T(Q("U(ar1)"), BARE, BARE) if A("return_indices") else Q("U(ar1)"),
    "numpy.union1d": Q("U(ar1)"),
    "numpy.setdiff1d": Q("U(ar1)"),
    "numpy.isin": BARE,
    "numpy.in1d": BARE,
    "numpy.searchsorted": BARE,
    # --- element-wise / reshaping / rounding / location statistics: degree 1 --------------------
    "numpy.around": Q("U(a)"),
    "numpy.sort_complex": Q("U(a)"),
    "numpy.trace": Q("U(a)"),
    "numpy.percentile": Q("U(a)"),
    "numpy.quantile": Q("U(a)"),
    "numpy.nanpercentile": Q("U(a)"),
    "numpy.nanquantile": Q("U(a)"),
    "numpy.triu": Q("U(m)"),
    "numpy.tril": Q("U(m)"),
    "numpy.unwrap": Q("U(p)"),
    "numpy.asfarray": Q("U(a)"),
    # differences of values in one unit are in that unit (offset scales refuse)
    "numpy.diff": Q("U(a)"),
    "numpy.ediff1d": Q("U(ary)"),
    "numpy.ptp": Q("U(a)"),
    # --- FFTs are linear ---------------------------------------------------------------------------
    **{f"numpy.fft.{n}": Q("U(a)") for n in ("fft", "fft2", "fftn", "hfft", "rfft", "rfft2", "rfftn", "ifft", "ifft2", "ifftn", "ihfft", "irfft", "irfft2", "irfftn")},
    "numpy.fft.fftshift": Q("U(x)"),
    "numpy.fft.ifftshift": Q("U(x)"),
    # --- spread: variance is quadratic ----------------------------------------------------------------
    "numpy.var": Q("U(a)^2"),
    # product over `count` elements: degree count = a.size // result.size
    "numpy.prod": Q("U(a)^{a.size // RESULT.size}"),
    "numpy.cumprod": ("RAISES",),
    "numpy.cumulative_prod": ("RAISES",),
    # --- ranges ---------------------------------------------------------------------------------------------
    "numpy.linspace": lambda A: T(Q("U(start)"), Q("U(start)")) if A("retstep") else Q("U(start)"),
    "numpy.geomspace": Q("U(start)"),
    # base ** exponent with dimensionless exponents: unit of base (unyt's documented convention)
    "numpy.logspace": Q("U(base)"),
    # integral of y dx
    "numpy.trapezoid": lambda A: Q("U(y)*U(dx)") if A("x is None") else Q("U(y)*U(x)"),
    "numpy.trapz": lambda A: Q("U(y)*U(dx)") if A("x is None") else Q("U(y)*U(x)"),
    # piecewise-linear interpolant takes values of fp
    "numpy.interp": Q("U(fp)"),
    # --- predicates -------------------------------------------------------------------------------------------
    "numpy.isclose": BARE,
    "numpy.allclose": BARE,
    "numpy.array_equal": BARE,
    "numpy.array_equiv": BARE,
    "numpy.sinc": BARE,  # unyt documents sinc as unit-ignoring
    # --- in-place writers ----------------------------------------------------------------------------------------
    "numpy.copyto": NONE,
    "numpy.fill_diagonal": NONE,
    "numpy.place": NONE,
    "numpy.put": NONE,
    "numpy.put_along_axis": NONE,
    "numpy.putmask": NONE,
    "numpy.savetxt": ANY,
    "numpy.apply_over_axes": ANY,
}

ATOMS = {
    "numpy.linalg.svd": ["compute_uv"],
    "numpy.histogram": ["density", has("a"), "weights is not None", has("weights")],
    "numpy.histogram2d": ["density", has("x"), has("y"), "weights is not None", has("weights")],
    "numpy.histogramdd": ["density", has("s"), "weights is not None", has("weights")],
    "numpy.where": ["len(args) == 0"],
    "numpy.intersect1d": ["return_indices"],
    "numpy.linspace": ["retstep"],
    "numpy.trapezoid": ["x is None"],
    "numpy.trapz": ["x is None"],
}

# parameters whose absence of units is tested by hasattr in the code: on a path where
# the test is false, U(p) is 1 (maps the condition atom to the unit atoms that become 1)
ABSENT = {
    has("a"): ["U(a)"],
    has("x"): ["U(x)"],
    has("y"): ["U(y)"],
    has("s"): ["U(sample[i])", "U(sample)"],
    has("weights"): ["U(weights)"],
}

# C01-R4: merged parameters (must all be covered by a unit-consistency validation
# before NumPy sees the data)
MERGED = {
    "numpy.concatenate": ["arrs"],
    "numpy.vstack": ["tup"],
    "numpy.hstack": ["tup"],
    "numpy.dstack": ["tup"],
    "numpy.column_stack": ["tup"],
    "numpy.stack": ["arrays"],
    "numpy.block": ["arrays"],
    "numpy.where": ["x", "y"],
    "numpy.choose": ["choices"],
    "numpy.select": ["choicelist", "default"],
    "numpy.intersect1d": ["ar1", "ar2"],
    "numpy.union1d": ["ar1", "ar2"],
    "numpy.setdiff1d": ["ar1", "ar2"],
    "numpy.isin": ["element", "test_elements"],
    "numpy.in1d": ["ar1", "ar2"],
    "numpy.insert": ["arr", "values"],
    "numpy.fill_diagonal": ["a", "val"],
    "numpy.place": ["arr", "vals"],
    "numpy.put": ["a", "v"],
    "numpy.put_along_axis": ["arr", "values"],
    "numpy.putmask": ["a", "values"],
    "numpy.searchsorted": ["a", "v"],
    "numpy.clip": ["a", "a_min", "a_max"],
    "numpy.linspace": ["start", "stop"],
    "numpy.geomspace": ["start", "stop"],
    "numpy.interp": ["x", "xp"],
}
