"""Dimensional-analysis types of the NumPy ufuncs unyt registers a unit rule for.

name: (inputs, result)

inputs
    "same"   the operation only makes sense for commensurable operands
             (the C01 operations: sums, differences, orderings, min/max,
             hypot, remainders, arctan2)
    "free"   any combination of dimensions is meaningful
    "one"    single input
result (what dimensional analysis demands of the result's unit)
    "U1" / "U2"            unit of the first / second operand
    "U1*U2", "U1/U2"       product / quotient
    "U^p"  p rational      power of the single operand's unit ("U" = p 1)
    "U1^x2"                first unit to the power of the second operand's value
    "DIFF"                 difference of two readings in U1 (U1, or its delta unit for offset scales)
    "1"                    dimensionless quantity
    "none"                 bare result (booleans, functions documented to ignore units)
    "raises"               not defined for quantities
    "unspecified"          outside the C04 claim (rounding family, frexp/modf/spacing,
                           divmod, heaviside, nextafter, copysign's second operand): only
                           the C01 class is checked
"""

UFUNCS = {
    # additive / ordering family: commensurable inputs --------------------------
    "add": ("same", "U1"),
    "subtract": ("same", "DIFF"),
    "maximum": ("same", "U1"),
    "minimum": ("same", "U1"),
    "fmax": ("same", "U1"),
    "fmin": ("same", "U1"),
    "hypot": ("same", "U1"),
    "remainder": ("same", "U1"),
    "mod": ("same", "U1"),
    "fmod": ("same", "U1"),
    "arctan2": ("same", "1"),
    "greater": ("same", "none"),
    "greater_equal": ("same", "none"),
    "less": ("same", "none"),
    "less_equal": ("same", "none"),
    "equal": ("same", "none"),
    "not_equal": ("same", "none"),
    # multiplicative family ---------------------------------------------------------
    "multiply": ("free", "U1*U2"),
    "matmul": ("free", "U1*U2"),
    "vecdot": ("free", "U1*U2"),
    "divide": ("free", "U1/U2"),
    "true_divide": ("free", "U1/U2"),
    "floor_divide": ("free", "U1/U2"),  # scale covariance is outside the claim, the unit is not
    "power": ("free", "U1^x2"),
    "sqrt": ("one", "U^1/2"),
    "cbrt": ("one", "U^1/3"),
    "square": ("one", "U^2"),
    "reciprocal": ("one", "U^-1"),
    # linear in the single operand ---------------------------------------------------------
    "negative": ("one", "U"),
    "positive": ("one", "U"),
    "absolute": ("one", "U"),
    "fabs": ("one", "U"),
    "conj": ("one", "U"),
    "clip": ("same", "U"),
    "copysign": ("free", "U1"),
    # documented to ignore units ---------------------------------------------------------------
    **{n: ("one", "none") for n in (
        "exp", "exp2", "expm1", "log", "log2", "log10", "log1p",
        "sin", "cos", "tan", "arcsin", "arccos", "arctan",
        "sinh", "cosh", "tanh", "arcsinh", "arccosh", "arctanh",
        "deg2rad", "rad2deg", "sign",
        "isreal", "iscomplex", "isfinite", "isinf", "isnan", "signbit", "isnat", "logical_not",
    )},
    "logaddexp": ("free", "none"),
    "logaddexp2": ("free", "none"),
    "logical_and": ("free", "none"),
    "logical_or": ("free", "none"),
    "logical_xor": ("free", "none"),
    # not defined for quantities ------------------------------------------------------------------
    **{n: ("free", "raises") for n in ("bitwise_and", "bitwise_or", "bitwise_xor", "left_shift", "right_shift", "ldexp")},
    "invert": ("one", "raises"),
    # outside the C04 claim ---------------------------------------------------------------------------
    **{n: ("one", "unspecified") for n in ("rint", "floor", "ceil", "trunc", "modf", "frexp", "spacing")},
    "divmod": ("free", "unspecified"),
    "heaviside": ("free", "unspecified"),
    "nextafter": ("free", "unspecified"),
}

# ufuncs whose angle-valued input must be converted to radian first
ANGLE_AWARE = {"sin", "cos", "tan"}

# Binary ufuncs that are NOT positively homogeneous in their operands jointly: f(s*a, s*b) is fixed (or s*f) only
# when both operands are scaled together.  For commensurable operands written in different units they therefore have
# to be evaluated with both operands in ONE unit (np.floor_divide(1 km, 300 m) is 3, not floor(1/300)*1000).
# The statement of C04 excludes only floor-division of *different dimensions*.
NEEDS_COMMON_UNIT = {"remainder", "mod", "fmod", "floor_divide", "divmod"}
# dimensional type of divmod's two outputs (quotient, remainder)
DIVMOD_OUTPUTS = ("U1/U2", "U1")
