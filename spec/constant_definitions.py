"""Independent reference values of unyt's physical constants (CODATA 2018,
IAU 2015, exact SI values), in SI units, with the dimension each must have and
a relative tolerance that spans the CODATA 1986..2018 adjustments (unyt ships
2010/2014 values) -- see spec/unit_definitions.py for the classes."""

from math import pi, sqrt

from spec.unit_definitions import (
    AREA, CHARGE, CODATA, ENERGY, EXACT, L, M, NONE, T, TH, VEL, G, Msun, Rinf, amu, c, d, e, eps0, h, hbar, kB, me,
)

ACCEL = d(length=1, time=-2)
sigma = 2 * pi**5 * kB**4 / (15 * h**3 * c**2)

CONSTANTS = {
    # key: (dimension, SI value, tolerance, source)
    "me": (M, me, CODATA, "CODATA electron mass"),
    "Na": (NONE, 6.02214076e23 / 6.02214076e23, CODATA, "N_A per mole; unyt's mol is the number N_A, so N_A mol^-1 = 1"),
    "mp": (M, 1.67262192369e-27, CODATA, "CODATA proton mass"),
    "mh": (M, 1.00794 * amu, 2e-5, "standard atomic weight of hydrogen 1.00794(7) u"),
    "c": (VEL, c, EXACT, "SI defining constant"),
    "σ_T": (AREA, 6.6524587321e-29, CODATA, "CODATA Thomson cross section"),
    "qp": (CHARGE, e, CODATA, "elementary charge"),
    "qe": (CHARGE, -e, CODATA, "electron charge"),
    "kb": (d(mass=1, length=2, time=-2, temperature=-1), kB, CODATA, "Boltzmann constant"),
    "G": (d(length=3, mass=-1, time=-2), G, 2e-4, "Newtonian constant (CODATA 2010 6.67384, 2014 6.67408, 2018 6.67430)"),
    "h": (d(mass=1, length=2, time=-1), h, CODATA, "Planck constant"),
    "hbar": (d(mass=1, length=2, time=-1), hbar, CODATA, "h / 2 pi"),
    "σ": (d(mass=1, time=-3, temperature=-4), sigma, 5e-6, "Stefan-Boltzmann constant (k^4: four times the CODATA drift of k)"),
    "a": (d(mass=1, length=-1, time=-2, temperature=-4), 4 * sigma / c, 5e-6, "radiation density constant 4 sigma / c"),
    "Tcmb": (TH, 2.7255, 5e-4, "Fixsen 2009: 2.72548(57) K; older 2.726"),
    "Msun": (M, Msun, 1e-3, "IAU 2015 nominal"),
    "Mjup": (M, Msun / 1047.3486, 1e-3, "IAU mass ratio"),
    "mercury_mass": (M, Msun / 6023600.0, 1e-3, "IAU mass ratio"),
    "venus_mass": (M, Msun / 408523.71, 1e-3, "IAU mass ratio"),
    "Mearth": (M, Msun / 328900.56, 1e-3, "IAU mass ratio Sun/(Earth+Moon)"),
    "mars_mass": (M, Msun / 3098708.0, 1e-3, "IAU mass ratio"),
    "saturn_mass": (M, Msun / 3497.898, 1e-3, "IAU mass ratio"),
    "uranus_mass": (M, Msun / 22902.98, 1e-3, "IAU mass ratio"),
    "neptune_mass": (M, Msun / 19412.24, 1e-3, "IAU mass ratio"),
    "m_pl": (M, sqrt(hbar * c / G), 2e-4, "Planck mass"),
    "l_pl": (L, sqrt(hbar * G / c**3), 2e-4, "Planck length"),
    "t_pl": (T, sqrt(hbar * G / c**5), 2e-4, "Planck time"),
    "E_pl": (ENERGY, sqrt(hbar * c**5 / G), 2e-4, "Planck energy"),
    "q_pl": (CHARGE, sqrt(4 * pi * eps0 * hbar * c), CODATA, "Planck charge"),
    "T_pl": (TH, sqrt(hbar * c**5 / G) / kB, 2e-4, "Planck temperature"),
    "mu_0": (d(mass=1, length=1, time=-2, current_mks=-2), 4e-7 * pi, 1e-8, "vacuum permeability (4 pi 1e-7 until 2019; CODATA 2018 differs by 5.5e-10)"),
    "eps_0": (d(mass=-1, length=-3, time=4, current_mks=2), eps0, 1e-8, "vacuum permittivity"),
    "R_inf": (d(length=-1), Rinf, CODATA, "Rydberg constant"),
    "standard_gravity": (ACCEL, 9.80665, EXACT, "CGPM 1901"),
}

# defining relations among the module-level ratios of unyt/_physical_ratios.py:
# (name, lambda r: (lhs, rhs), tolerance, text)
RELATIONS = [
    ("hbar", lambda r: (r["hbar_mks"], r["planck_mks"] / (2 * pi)), 1e-15, "hbar = h / 2 pi"),
    ("eps0-mu0-c", lambda r: (r["eps_0"] * r["mu_0"] * r["speed_of_light_m_per_s"] ** 2, 1.0), 1e-14, "eps_0 mu_0 c^2 = 1"),
    ("mu0", lambda r: (r["mu_0"], 4e-7 * pi), 1e-8, "mu_0 = 4 pi 1e-7 N/A^2 (pre-2019 exact; 2018 value within 5.5e-10)"),
    ("stefan-boltzmann", lambda r: (r["stefan_boltzmann_W_per_sqm_per_K4"], 2 * pi**5 * r["boltzmann_constant_J_per_K"] ** 4 / (15 * r["speed_of_light_m_per_s"] ** 2 * r["planck_mks"] ** 3)), 1e-14, "sigma = 2 pi^5 k^4 / (15 c^2 h^3)"),
    ("radiation-constant", lambda r: (r["radiation_constant_J_per_m3_per_K4"], 4 * r["stefan_boltzmann_W_per_sqm_per_K4"] / r["speed_of_light_m_per_s"]), 1e-15, "a = 4 sigma / c"),
    ("rydberg-constant", lambda r: (r["rydberg_constant_mks"], r["mass_electron_kg"] * r["elementary_charge_C"] ** 4 / (8 * r["eps_0"] ** 2 * r["planck_mks"] ** 3 * r["speed_of_light_m_per_s"])), 1e-14, "R_inf = m_e e^4 / (8 eps_0^2 h^3 c)"),
    ("rydberg-unit", lambda r: (r["rydberg_unit_mks"], r["planck_mks"] * r["speed_of_light_m_per_s"] * r["rydberg_constant_mks"]), 1e-15, "Ry = h c R_inf"),
    ("planck-mass", lambda r: (r["planck_mass_kg"], sqrt(r["hbar_mks"] * r["speed_of_light_m_per_s"] / r["newton_mks"])), 1e-15, "m_P = sqrt(hbar c / G)"),
    ("planck-length", lambda r: (r["planck_length_m"], sqrt(r["hbar_mks"] * r["newton_mks"] / r["speed_of_light_m_per_s"] ** 3)), 1e-15, "l_P = sqrt(hbar G / c^3)"),
    ("planck-time", lambda r: (r["planck_time_s"], r["planck_length_m"] / r["speed_of_light_m_per_s"]), 1e-15, "t_P = l_P / c"),
    ("planck-energy", lambda r: (r["planck_energy_J"], r["planck_mass_kg"] * r["speed_of_light_m_per_s"] ** 2), 1e-15, "E_P = m_P c^2"),
    ("planck-temperature", lambda r: (r["planck_temperature_K"], r["planck_energy_J"] / r["boltzmann_constant_J_per_K"]), 1e-15, "T_P = E_P / k_B"),
    ("planck-charge", lambda r: (r["planck_charge_C"], sqrt(4 * pi * r["eps_0"] * r["hbar_mks"] * r["speed_of_light_m_per_s"])), 1e-15, "q_P = sqrt(4 pi eps_0 hbar c)"),
    ("eV-J-erg", lambda r: (r["J_per_eV"], r["erg_per_eV"] * 1e-7), 1e-15, "1 erg = 1e-7 J"),
    ("eV-charge", lambda r: (r["J_per_eV"], r["elementary_charge_C"]), 1e-6, "1 eV = e x 1 V"),
    ("amu-grams", lambda r: (r["amu_grams"], r["amu_kg"] * 1e3), 1e-15, "g = kg/1000"),
    ("avogadro-amu", lambda r: (r["avogadros_number"] * r["amu_grams"], 1.0), 1e-6, "N_A u = 1 g/mol (molar mass constant, exact until 2019)"),
    ("c-cgs", lambda r: (r["speed_of_light_cm_per_s"], r["speed_of_light_m_per_s"] * 100), 1e-15, "cm = m/100"),
    ("rankine", lambda r: (r["kelvin_per_rankine"], 5.0 / 9.0), 1e-15, "1 R = 5/9 K"),
    ("year", lambda r: (r["sec_per_year"], 365.25 * r["sec_per_day"]), 1e-15, "Julian year"),
]
