"""Reference formulas of the nine built-in equivalences (written from the
physics, not from the repository).

Dimensions are exponent dicts over unyt's base dimension names.  Formulas are
monomials ``coeff * prod(atom**exp)`` over the atoms

    x                      the input quantity
    kb c h mh G σ          physical constants (canonical keys of unyt's table)
    mu gamma               keyword parameters (dimensionless)

given as (coeff, {atom: exponent}).  ``None`` = not a monomial (Lorentz).
"""

from fractions import Fraction as F

DIM = {
    "dimensionless": {},
    "mass": {"mass": 1},
    "length": {"length": 1},
    "temperature": {"temperature": 1},
    "rate": {"time": -1},
    "spatial_frequency": {"length": -1},
    "velocity": {"length": 1, "time": -1},
    "energy": {"mass": 1, "length": 2, "time": -2},
    "density": {"mass": 1, "length": -3},
    "number_density": {"length": -3},
    "flux": {"mass": 1, "time": -3},  # power / area
}

# which constant names may be used for each atom (any guise of the constant:
# alias names and the _mks variants are resolved by the checker through the
# folded physical_constants table; the value is the canonical table key)
CONST_ATOMS = {"kb", "c", "h", "mh", "G", "σ"}
PARAMS = {
    "number_density": {"mu": 0.6},
    "sound_speed": {"mu": 0.6, "gamma": 5.0 / 3.0},
}

H = F(1, 2)
Q = F(1, 4)

EQUIVALENCES = {
    # rho = mu * m_H * n
    "number_density": {
        "dims": ["density", "number_density"],
        "formulas": {
            ("density", "number_density"): (1.0, {"x": 1, "mu": -1, "mh": -1}),
            ("number_density", "density"): (1.0, {"x": 1, "mu": 1, "mh": 1}),
        },
    },
    # E = k_B T
    "thermal": {
        "dims": ["temperature", "energy"],
        "formulas": {
            ("temperature", "energy"): (1.0, {"x": 1, "kb": 1}),
            ("energy", "temperature"): (1.0, {"x": 1, "kb": -1}),
        },
    },
    # E = m c^2
    "mass_energy": {
        "dims": ["mass", "energy"],
        "formulas": {
            ("mass", "energy"): (1.0, {"x": 1, "c": 2}),
            ("energy", "mass"): (1.0, {"x": 1, "c": -2}),
        },
    },
    # E = h nu = h c / lambda = h c nubar
    "spectral": {
        "dims": ["length", "rate", "energy", "spatial_frequency"],
        "formulas": {
            ("length", "energy"): (1.0, {"x": -1, "h": 1, "c": 1}),
            ("rate", "energy"): (1.0, {"x": 1, "h": 1}),
            ("spatial_frequency", "energy"): (1.0, {"x": 1, "h": 1, "c": 1}),
            ("rate", "length"): (1.0, {"x": -1, "c": 1}),
            ("energy", "length"): (1.0, {"x": -1, "h": 1, "c": 1}),
            ("spatial_frequency", "length"): (1.0, {"x": -1}),
            ("length", "rate"): (1.0, {"x": -1, "c": 1}),
            ("energy", "rate"): (1.0, {"x": 1, "h": -1}),
            ("spatial_frequency", "rate"): (1.0, {"x": 1, "c": 1}),
            ("length", "spatial_frequency"): (1.0, {"x": -1}),
            ("energy", "spatial_frequency"): (1.0, {"x": 1, "h": -1, "c": -1}),
            ("rate", "spatial_frequency"): (1.0, {"x": 1, "c": -1}),
        },
    },
    # c_s^2 = gamma k_B T / (mu m_H),  E = k_B T
    "sound_speed": {
        "dims": ["velocity", "temperature", "energy"],
        "formulas": {
            ("temperature", "velocity"): (1.0, {"x": H, "gamma": H, "kb": H, "mu": -H, "mh": -H}),
            ("energy", "velocity"): (1.0, {"x": H, "gamma": H, "mu": -H, "mh": -H}),
            ("velocity", "temperature"): (1.0, {"x": 2, "mu": 1, "mh": 1, "gamma": -1, "kb": -1}),
            ("energy", "temperature"): (1.0, {"x": 1, "kb": -1}),
            ("velocity", "energy"): (1.0, {"x": 2, "mu": 1, "mh": 1, "gamma": -1}),
            ("temperature", "energy"): (1.0, {"x": 1, "kb": 1}),
        },
    },
    # gamma = 1/sqrt(1 - v^2/c^2): not a monomial
    "lorentz": {
        "dims": ["dimensionless", "velocity"],
        "formulas": {
            ("dimensionless", "velocity"): None,
            ("velocity", "dimensionless"): None,
        },
    },
    # R = 2 G M / c^2
    "schwarzschild": {
        "dims": ["mass", "length"],
        "formulas": {
            ("mass", "length"): (2.0, {"x": 1, "G": 1, "c": -2}),
            ("length", "mass"): (0.5, {"x": 1, "G": -1, "c": 2}),
        },
    },
    # lambda = h / (m c)
    "compton": {
        "dims": ["mass", "length"],
        "formulas": {
            ("mass", "length"): (1.0, {"x": -1, "h": 1, "c": -1}),
            ("length", "mass"): (1.0, {"x": -1, "h": 1, "c": -1}),
        },
    },
    # F = sigma T^4
    "effective_temperature": {
        "dims": ["flux", "temperature"],
        "formulas": {
            ("temperature", "flux"): (1.0, {"x": 4, "σ": 1}),
            ("flux", "temperature"): (1.0, {"x": Q, "σ": -Q}),
        },
    },
}


# Formulas that are not monomials, written in the normal form of engine/algebra.py as nested tuples:
#   ("prod", coefficient, {atom: exponent}, [(sum, exponent), ...])   with   sum = [prod, prod, ...]
# Lorentz factor  gamma = 1/sqrt(1 - v^2/c^2)  and its inverse  v = c*sqrt(1 - 1/gamma^2)  (special relativity).
NON_MONOMIAL = {
    ("lorentz", "velocity", "dimensionless"): ("prod", 1.0, {}, [([("prod", 1.0, {}, []), ("prod", -1.0, {"x": 2, "c": -2}, [])], "-1/2")]),
    ("lorentz", "dimensionless", "velocity"): ("prod", 1.0, {"c": 1}, [([("prod", 1.0, {}, []), ("prod", -1.0, {"x": -2}, [])], "1/2")]),
}
