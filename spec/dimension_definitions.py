"""Reference definitions of the named dimensions of unyt.dimensions, written from the physical definitions (not copied
from the repository): exponent of each base dimension.  M mass, L length, T time, K temperature, A angle,
I current_mks, J luminous_intensity.  Halves are written as fractions."""
from fractions import Fraction as F

H = F(1, 2)
_B = {"M": "mass", "L": "length", "T": "time", "K": "temperature", "A": "angle", "I": "current_mks", "J": "luminous_intensity"}


def _v(**kw):
    return {_B[k]: F(v) for k, v in kw.items() if v != 0}


DIMENSIONS = {
    "rate": _v(T=-1),
    "frequency": _v(T=-1),
    "angular_frequency": _v(A=1, T=-1),
    "spatial_frequency": _v(L=-1),
    "solid_angle": _v(A=2),
    # kinematics: n-th time derivative of position
    "velocity": _v(L=1, T=-1),
    "acceleration": _v(L=1, T=-2),
    "jerk": _v(L=1, T=-3),
    "snap": _v(L=1, T=-4),
    "crackle": _v(L=1, T=-5),
    "pop": _v(L=1, T=-6),
    "area": _v(L=2),
    "volume": _v(L=3),
    "momentum": _v(M=1, L=1, T=-1),
    "force": _v(M=1, L=1, T=-2),
    "tension": _v(M=1, T=-2),  # force per length
    "pressure": _v(M=1, L=-1, T=-2),
    "energy": _v(M=1, L=2, T=-2),
    "power": _v(M=1, L=2, T=-3),
    "flux": _v(M=1, T=-3),  # power per area
    "specific_flux": _v(M=1, T=-2),  # flux per frequency
    "number_density": _v(L=-3),
    "density": _v(M=1, L=-3),
    "angular_momentum": _v(M=1, L=2, T=-1),
    "specific_angular_momentum": _v(L=2, T=-1),
    "specific_energy": _v(L=2, T=-2),
    "count_flux": _v(L=-2, T=-1),
    "count_intensity": _v(L=-2, T=-1, A=-2),
    "luminous_flux": _v(J=1, A=2),  # lumen = candela steradian
    "luminance": _v(J=1, L=-2),  # candela per square metre
    # Gaussian electromagnetism: charge**2 = energy * length
    "charge_cgs": _v(M=H, L=3 * H, T=-1),
    "current_cgs": _v(M=H, L=3 * H, T=-2),
    "electric_field_cgs": _v(M=H, L=-H, T=-1),
    "magnetic_field_cgs": _v(M=H, L=-H, T=-1),
    "electric_potential_cgs": _v(M=H, L=H, T=-1),
    "resistance_cgs": _v(L=-1, T=1),
    "magnetic_flux_cgs": _v(M=H, L=3 * H, T=-1),
    # SI electromagnetism
    "charge_mks": _v(I=1, T=1),
    "electric_field_mks": _v(M=1, L=1, T=-3, I=-1),
    "magnetic_field_mks": _v(M=1, T=-2, I=-1),
    "electric_potential_mks": _v(M=1, L=2, T=-3, I=-1),
    "resistance_mks": _v(M=1, L=2, T=-3, I=-2),
    "capacitance_mks": _v(M=-1, L=-2, T=4, I=2),
    "magnetic_flux_mks": _v(M=1, L=2, T=-2, I=-1),
    "inductance_mks": _v(M=1, L=2, T=-2, I=-2),
}
# plain names that are aliases of the SI forms
for _n in ("charge", "electric_field", "magnetic_field", "electric_potential", "resistance", "capacitance", "magnetic_flux", "inductance"):
    DIMENSIONS[_n] = DIMENSIONS[_n + "_mks"]
