"""Independent definitions of the units in unyt's default table.

Written from the SI brochure (9th ed.), NIST SP 811 / SP 1038, IAU 2012/2015
resolutions, CODATA 2018 and the legal definitions of the imperial / US
customary units -- not copied from the repository.  Each row:

    symbol: (dimension, SI scale, offset, tolerance, prefixable, source)

``dimension`` is an exponent dict over unyt's base dimensions; ``scale`` the
factor to SI (metre-kilogram-second-kelvin-radian-ampere-candela); ``offset``
in the unit's own scale (0 for ordinary units).  ``tolerance`` is relative:

    EXACT   1e-12  exactly defined (SI, legal, conventional) -- only float rounding allowed
    ROUNDED 1e-6   exact definition that the table may carry as an 8-9 digit reciprocal
    CODATA  2e-6   measured constant; tolerance spans CODATA 1986..2018 adjustments
    other          stated per row (values whose published estimates differ more)

A change of a table row larger than its tolerance is reported; smaller slips
are below the resolution of this oracle (stated in the evidence).
"""

from math import pi, sqrt, log

EXACT = 1e-12
ROUNDED = 1e-6
CODATA = 2e-6

# base dimension shorthands
L = {"length": 1}
M = {"mass": 1}
T = {"time": 1}
TH = {"temperature": 1}
ANG = {"angle": 1}
I = {"current_mks": 1}
J_ = {"luminous_intensity": 1}
LOG = {"logarithmic": 1}
NONE = {}


def d(**kw):
    return {k: v for k, v in kw.items() if v}


AREA = d(length=2)
VOL = d(length=3)
VEL = d(length=1, time=-1)
FORCE = d(mass=1, length=1, time=-2)
ENERGY = d(mass=1, length=2, time=-2)
POWER = d(mass=1, length=2, time=-3)
PRESSURE = d(mass=1, length=-1, time=-2)
TENSION = d(mass=1, time=-2)
RATE = d(time=-1)
SPEC_ENERGY = d(length=2, time=-2)
SPEC_FLUX = d(mass=1, time=-2)
CHARGE = d(current_mks=1, time=1)
POTENTIAL = d(mass=1, length=2, time=-3, current_mks=-1)
BFIELD = d(mass=1, time=-2, current_mks=-1)
CAPAC = d(mass=-1, length=-2, time=4, current_mks=2)
INDUCT = d(mass=1, length=2, time=-2, current_mks=-2)
RESIST = d(mass=1, length=2, time=-3, current_mks=-2)
MFLUX = d(mass=1, length=2, time=-2, current_mks=-1)
SOLID = d(angle=2)
LUMFLUX = d(luminous_intensity=1, angle=2)
ILLUM = d(luminous_intensity=1, angle=2, length=-2)
LUMINANCE = d(luminous_intensity=1, length=-2)
ANGFREQ = d(angle=1, time=-1)
# Gaussian (cgs-esu/emu) dimensions as unyt models them (half-integer powers)
from fractions import Fraction as F

H = F(1, 2)
CHARGE_CGS = {"mass": H, "length": F(3, 2), "time": -1}
CURRENT_CGS = {"mass": H, "length": F(3, 2), "time": -2}
BFIELD_CGS = {"mass": H, "length": -H, "time": -1}
POTENTIAL_CGS = {"mass": H, "length": H, "time": -1}
RESIST_CGS = {"length": -1, "time": 1}
MFLUX_CGS = {"mass": H, "length": F(3, 2), "time": -1}
COUNT_INTENSITY = d(length=-2, time=-1, angle=-2)

lb = 0.45359237  # international avoirdupois pound, exact (1959)
g0 = 9.80665  # standard gravity, exact (CGPM 1901)
inch = 0.0254  # exact (1959)
ft = 0.3048
mile = 1609.344
lbf = lb * g0
US_floz = 231 * inch**3 / 128  # US gallon = 231 cubic inches, exact
UK_gal = 4.54609e-3  # imperial gallon, exact (1985)
BTU = 1055.056  # ISO 31-4 / IT rounded; variants differ by < 1e-5 relative
day = 86400.0
julian_year = 365.25 * day
c = 299792458.0
h = 6.62607015e-34
hbar = h / (2 * pi)
kB = 1.380649e-23
e = 1.602176634e-19
G = 6.67430e-11
eps0 = 8.8541878128e-12
me = 9.1093837015e-31
amu = 1.66053906660e-27
Rinf = 10973731.568160
Msun = 1.98841e30  # IAU 2015 nominal GM_sun / CODATA 2018 G
AU = 149597870700.0  # IAU 2012 exact
pc = AU * 648000 / pi
ly = c * julian_year

UNITS = {
    # --- SI base and named units ------------------------------------------
    "m": (L, 1.0, 0.0, EXACT, True, "SI base"),
    "g": (M, 1e-3, 0.0, EXACT, True, "SI: kilogram/1000"),
    "s": (T, 1.0, 0.0, EXACT, True, "SI base"),
    "K": (TH, 1.0, 0.0, EXACT, True, "SI base"),
    "rad": (ANG, 1.0, 0.0, EXACT, True, "SI coherent angle unit"),
    "A": (I, 1.0, 0.0, EXACT, True, "SI base"),
    "cd": (J_, 1.0, 0.0, EXACT, True, "SI base"),
    "mol": (NONE, 6.02214076e23, 0.0, CODATA, True, "Avogadro number (unyt treats mol as a pure count)"),
    "J": (ENERGY, 1.0, 0.0, EXACT, True, "SI"),
    "W": (POWER, 1.0, 0.0, EXACT, True, "SI"),
    "Hz": (RATE, 1.0, 0.0, EXACT, True, "SI"),
    "N": (FORCE, 1.0, 0.0, EXACT, True, "SI"),
    "C": (CHARGE, 1.0, 0.0, EXACT, True, "SI"),
    "T": (BFIELD, 1.0, 0.0, EXACT, True, "SI"),
    "Pa": (PRESSURE, 1.0, 0.0, EXACT, True, "SI"),
    "bar": (PRESSURE, 1e5, 0.0, EXACT, True, "SI brochure table 8"),
    "V": (POTENTIAL, 1.0, 0.0, EXACT, True, "SI"),
    "F": (CAPAC, 1.0, 0.0, EXACT, True, "SI"),
    "H": (INDUCT, 1.0, 0.0, EXACT, True, "SI"),
    "Ω": (RESIST, 1.0, 0.0, EXACT, True, "SI"),
    "Wb": (MFLUX, 1.0, 0.0, EXACT, True, "SI"),
    "lm": (LUMFLUX, 1.0, 0.0, EXACT, True, "SI: cd sr"),
    "lx": (ILLUM, 1.0, 0.0, EXACT, True, "SI: lm/m^2"),
    "degC": (TH, 1.0, -273.15, EXACT, True, "SI: t/degC = T/K - 273.15"),
    "delta_degC": (TH, 1.0, 0.0, EXACT, True, "temperature difference of 1 degC = 1 K"),
    "L": (VOL, 1e-3, 0.0, EXACT, True, "SI brochure: dm^3"),
    "ha": (AREA, 1e4, 0.0, EXACT, False, "SI brochure: hm^2"),
    "t": (M, 1e3, 0.0, EXACT, False, "SI brochure: tonne"),
    "Sv": (SPEC_ENERGY, 1.0, 0.0, EXACT, True, "SI: J/kg"),
    # --- cgs / Gaussian -----------------------------------------------------
    "dyn": (FORCE, 1e-5, 0.0, EXACT, True, "g cm/s^2"),
    "erg": (ENERGY, 1e-7, 0.0, EXACT, True, "g cm^2/s^2"),
    "Ba": (PRESSURE, 0.1, 0.0, EXACT, True, "dyn/cm^2"),
    "G": (BFIELD_CGS, sqrt(0.1), 0.0, EXACT, True, "g^1/2 cm^-1/2 s^-1 in kg-m-s: sqrt(1e-3/1e-2)"),
    "statC": (CHARGE_CGS, 1e-3**1.5, 0.0, EXACT, True, "g^1/2 cm^3/2 s^-1: sqrt(1e-3)*(1e-2)^1.5"),
    "statA": (CURRENT_CGS, 1e-3**1.5, 0.0, EXACT, True, "statC/s"),
    "statV": (POTENTIAL_CGS, sqrt(1e-3) * 0.1, 0.0, EXACT, True, "erg/statC"),
    "statohm": (RESIST_CGS, 100.0, 0.0, EXACT, True, "statV/statA = s/cm"),
    "Mx": (MFLUX_CGS, 1e-3**1.5, 0.0, EXACT, True, "G cm^2"),
    # --- imperial / US customary --------------------------------------------
    "mil": (L, inch / 1000, 0.0, EXACT, False, "1/1000 inch"),
    "inch": (L, inch, 0.0, EXACT, False, "international inch 1959"),
    "ft": (L, ft, 0.0, EXACT, False, "international foot 1959"),
    "yd": (L, 0.9144, 0.0, EXACT, False, "international yard 1959"),
    "mile": (L, mile, 0.0, EXACT, False, "5280 ft"),
    "nmi": (L, 1852.0, 0.0, EXACT, False, "international nautical mile 1929, exactly 1852 m"),
    "mph": (VEL, mile / 3600, 0.0, EXACT, False, "mile per hour"),
    "kt": (VEL, 1852.0 / 3600, 0.0, EXACT, False, "nautical mile per hour"),
    "acre": (AREA, 4046.8564224, 0.0, EXACT, False, "43560 ft^2 (international)"),
    "furlong": (L, 660 * ft, 0.0, EXACT, False, "660 ft"),
    "degF": (TH, 5.0 / 9.0, -459.67, EXACT, False, "t/degF = T/R - 459.67"),
    "delta_degF": (TH, 5.0 / 9.0, 0.0, EXACT, False, "difference of 1 degF = 5/9 K"),
    "R": (TH, 5.0 / 9.0, 0.0, EXACT, False, "rankine = 5/9 K"),
    "lbf": (FORCE, lbf, 0.0, EXACT, False, "lb * g0"),
    "kip": (FORCE, 1000 * lbf, 0.0, EXACT, False, "1000 lbf"),
    "lb": (M, lb, 0.0, EXACT, False, "international pound 1959"),
    "atm": (PRESSURE, 101325.0, 0.0, EXACT, False, "standard atmosphere (CGPM 1954)"),
    "hp": (POWER, 550 * ft * lbf, 0.0, EXACT, False, "mechanical horsepower 550 ft lbf/s"),
    "oz": (M, lb / 16, 0.0, EXACT, False, "avoirdupois ounce"),
    "ton": (M, 2000 * lb, 0.0, EXACT, False, "US short ton"),
    "ton_UK": (M, 2240 * lb, 0.0, EXACT, False, "long ton"),
    "slug": (M, lbf / ft, 0.0, EXACT, False, "lbf s^2/ft"),
    "fl_oz_US": (VOL, US_floz, 0.0, EXACT, False, "US gallon (231 in^3)/128"),
    "fl_oz_UK": (VOL, UK_gal / 160, 0.0, EXACT, False, "imperial gallon/160"),
    "pt_US": (VOL, US_floz * 16, 0.0, EXACT, False, "US liquid pint"),
    "pt_UK": (VOL, UK_gal / 8, 0.0, EXACT, False, "imperial pint"),
    "qt_US": (VOL, US_floz * 32, 0.0, EXACT, False, "US liquid quart"),
    "qt_UK": (VOL, UK_gal / 4, 0.0, EXACT, False, "imperial quart"),
    "gal_US": (VOL, US_floz * 128, 0.0, EXACT, False, "US gallon"),
    "gal_UK": (VOL, UK_gal, 0.0, EXACT, False, "imperial gallon"),
    "cal": (ENERGY, 4.184, 0.0, EXACT, True, "thermochemical calorie"),
    "BTU": (ENERGY, BTU, 0.0, 1e-5, False, "ISO/IT British thermal unit (definitions differ < 1e-5)"),
    "MMBTU": (ENERGY, 1e6 * BTU, 0.0, 1e-5, False, "1e6 BTU"),
    "therm": (ENERGY, 1e5 * BTU, 0.0, 1e-3, False, "1e5 BTU (EC / US therm differ by 2.4e-4)"),
    "quad": (ENERGY, 1e15 * BTU, 0.0, 1e-5, False, "1e15 BTU"),
    "Wh": (ENERGY, 3600.0, 0.0, EXACT, True, "W * 3600 s"),
    "pli": (TENSION, lbf / inch, 0.0, EXACT, False, "lbf/in"),
    "plf": (TENSION, lbf / ft, 0.0, EXACT, False, "lbf/ft"),
    "psi": (PRESSURE, lbf / inch**2, 0.0, EXACT, False, "lbf/in^2"),
    "psf": (PRESSURE, lbf / ft**2, 0.0, EXACT, False, "lbf/ft^2"),
    "kli": (TENSION, 1000 * lbf / inch, 0.0, EXACT, False, "kip/in"),
    "klf": (TENSION, 1000 * lbf / ft, 0.0, EXACT, False, "kip/ft"),
    "ksi": (PRESSURE, 1000 * lbf / inch**2, 0.0, EXACT, False, "kip/in^2"),
    "ksf": (PRESSURE, 1000 * lbf / ft**2, 0.0, EXACT, False, "kip/ft^2"),
    "smoot": (L, 67 * inch, 0.0, EXACT, False, "5 ft 7 in"),
    # --- dimensionless / time -------------------------------------------------
    "dimensionless": (NONE, 1.0, 0.0, EXACT, False, "1"),
    "%": (NONE, 0.01, 0.0, EXACT, False, "percent"),
    "counts": (NONE, 1.0, 0.0, EXACT, False, "count"),
    "photons": (NONE, 1.0, 0.0, EXACT, False, "count"),
    "min": (T, 60.0, 0.0, EXACT, False, "SI brochure"),
    "hr": (T, 3600.0, 0.0, EXACT, False, "SI brochure"),
    "day": (T, day, 0.0, EXACT, False, "SI brochure"),
    "week": (T, 7 * day, 0.0, EXACT, False, "7 d"),
    "fortnight": (T, 14 * day, 0.0, EXACT, False, "14 d"),
    "yr": (T, julian_year, 0.0, EXACT, True, "Julian year (IAU)"),
    # --- astronomy --------------------------------------------------------------
    "c": (VEL, c, 0.0, EXACT, False, "SI defining constant"),
    "Msun": (M, Msun, 0.0, 1e-3, False, "IAU 2015 B3 nominal (GM)_sun / G"),
    "Rsun": (L, 6.957e8, 0.0, 1e-3, False, "IAU 2015 B3 nominal solar radius (older 6.955e8..6.9634e8)"),
    "Lsun": (POWER, 3.828e26, 0.0, 1e-3, False, "IAU 2015 B3 nominal solar luminosity"),
    "Tsun": (TH, 5772.0, 0.0, 2e-2, False, "IAU 2015 B3 nominal T_eff (published values 5772..5870 K)"),
    "Zsun": (NONE, 0.0134, 0.0, 5e-2, False, "solar metallicity, bulk Z (Asplund+2009 0.0134; Cloudy 0.01295)"),
    "Zsun_angr": (NONE, 0.0194, 0.0, 5e-2, False, "Anders & Grevesse 1989"),
    "Zsun_aspl": (NONE, 0.0134, 0.0, 5e-2, False, "Asplund et al. 2009"),
    "Zsun_feld": (NONE, 0.0191, 0.0, 5e-2, False, "Feldman 1992"),
    "Zsun_lodd": (NONE, 0.0133, 0.0, 5e-2, False, "Lodders 2003"),
    "Mjup": (M, Msun / 1047.3486, 0.0, 1e-3, False, "IAU: Sun/Jupiter-system mass ratio 1047.3486"),
    "Mearth": (M, Msun / 328900.56, 0.0, 1e-3, False, "IAU: Sun/(Earth+Moon) mass ratio 328900.56"),
    "Rjup": (L, 6.9911e7, 0.0, 1e-3, False, "mean volumetric radius (NASA fact sheet)"),
    "Rearth": (L, 6.371e6, 0.0, 1e-3, False, "mean volumetric radius"),
    "AU": (L, AU, 0.0, 1e-8, False, "IAU 2012 B2, exact"),
    "ly": (L, ly, 0.0, 1e-8, False, "c * Julian year"),
    "pc": (L, pc, 0.0, 1e-8, True, "648000/pi AU"),
    # --- angles -------------------------------------------------------------------
    "degree": (ANG, pi / 180, 0.0, EXACT, False, "pi/180 rad"),
    "arcmin": (ANG, pi / 10800, 0.0, EXACT, False, "degree/60"),
    "arcsec": (ANG, pi / 648000, 0.0, EXACT, False, "degree/3600"),
    "mas": (ANG, pi / 648000e3, 0.0, EXACT, False, "arcsec/1000"),
    "hourangle": (ANG, pi / 12, 0.0, EXACT, False, "15 degree"),
    "sr": (SOLID, 1.0, 0.0, EXACT, False, "rad^2"),
    "lat": (ANG, -pi / 180, 90.0, EXACT, False, "unyt convention: colatitude = (90 - lat) degree"),
    "lon": (ANG, pi / 180, -180.0, EXACT, False, "unyt convention: azimuth = (lon + 180) degree"),
    "rpm": (ANGFREQ, 2 * pi / 60, 0.0, EXACT, False, "revolution per minute"),
    "rev": (ANG, 2 * pi, 0.0, EXACT, False, "full turn"),
    "spat": (SOLID, 4 * pi, 0.0, EXACT, False, "full sphere"),
    "gradian": (ANG, pi / 200, 0.0, EXACT, False, "1/400 turn"),
    # --- atomic / misc --------------------------------------------------------------
    "eV": (ENERGY, e, 0.0, CODATA, True, "elementary charge * 1 V"),
    "foe": (ENERGY, 1e44, 0.0, EXACT, False, "1e51 erg"),
    "bethe": (ENERGY, 1e44, 0.0, EXACT, False, "1e51 erg"),
    "amu": (M, amu, 0.0, CODATA, False, "unified atomic mass unit"),
    "Å": (L, 1e-10, 0.0, EXACT, False, "angstrom"),
    "Jy": (SPEC_FLUX, 1e-26, 0.0, EXACT, True, "1e-26 W/m^2/Hz"),
    "me": (M, me, 0.0, CODATA, False, "electron mass"),
    "mp": (M, 1.67262192369e-27, 0.0, CODATA, False, "proton mass"),
    "Ry": (ENERGY, h * c * Rinf, 0.0, CODATA, False, "Rydberg energy h c R_inf"),
    "rayleigh": (COUNT_INTENSITY, 1e10 / (4 * pi), 0.0, EXACT, False, "1e10/(4 pi) photons m^-2 s^-1 sr^-1"),
    "lambert": (LUMINANCE, 1e4 / pi, 0.0, EXACT, False, "1/pi cd/cm^2"),
    "nt": (LUMINANCE, 1.0, 0.0, EXACT, False, "cd/m^2"),
    # --- Planck / geometrized ---------------------------------------------------------
    "m_pl": (M, sqrt(hbar * c / G), 0.0, 2e-4, False, "sqrt(hbar c/G); G known to ~1e-4"),
    "l_pl": (L, sqrt(hbar * G / c**3), 0.0, 2e-4, False, "sqrt(hbar G/c^3)"),
    "t_pl": (T, sqrt(hbar * G / c**5), 0.0, 2e-4, False, "l_pl/c"),
    "T_pl": (TH, sqrt(hbar * c**5 / G) / kB, 0.0, 2e-4, False, "E_pl/k_B"),
    "q_pl": (CHARGE, sqrt(4 * pi * eps0 * hbar * c), 0.0, CODATA, False, "sqrt(4 pi eps0 hbar c)"),
    "E_pl": (ENERGY, sqrt(hbar * c**5 / G), 0.0, 2e-4, False, "m_pl c^2"),
    "m_geom": (M, Msun, 0.0, 1e-3, False, "solar mass"),
    "l_geom": (L, 1.32712440018e20 / c**2, 0.0, 2e-4, False, "G Msun / c^2"),
    "t_geom": (T, 1.32712440018e20 / c**3, 0.0, 2e-4, False, "G Msun / c^3"),
    "B": (LOG, log(10) / 2, 0.0, EXACT, True, "bel = (ln 10)/2 Np (ISO 80000-3)"),
    "Np": (LOG, 1.0, 0.0, EXACT, True, "neper"),
}

# SI prefixes (BIPM), by symbol and by full name
SI_PREFIXES = {
    "Y": (1e24, "yotta"),
    "Z": (1e21, "zetta"),
    "E": (1e18, "exa"),
    "P": (1e15, "peta"),
    "T": (1e12, "tera"),
    "G": (1e9, "giga"),
    "M": (1e6, "mega"),
    "k": (1e3, "kilo"),
    "h": (1e2, "hecto"),
    "da": (1e1, "deca"),
    "d": (1e-1, "deci"),
    "c": (1e-2, "centi"),
    "m": (1e-3, "milli"),
    "µ": (1e-6, "micro"),  # U+00B5
    "μ": (1e-6, "micro"),  # U+03BC
    "u": (1e-6, "micro"),  # ASCII stand-in
    "n": (1e-9, "nano"),
    "p": (1e-12, "pico"),
    "f": (1e-15, "femto"),
    "a": (1e-18, "atto"),
    "z": (1e-21, "zepto"),
    "y": (1e-24, "yocto"),
}
# spelling kept by unyt for backward compatibility
LEGACY_PREFIX_WORDS = {"mili": 1e-3}
