"""C06 - NumPy functions compute the same numbers on quantities as on bare arrays."""

from __future__ import annotations

import ast
import re

from engine.core import AnalysisError, Repo, kwarg_of, norm, walk_no_nested
from engine.flow import enum_paths, fact_get, path_calls, path_facts
from engine.mutate import Mutant
from engine.report import Result
from engine.units import Qn, Raises, UnitInterp
from rules.common import bind_call
from rules.handlers import AF, Handler, inventory, local_value_defs, module_helpers, source_params

TECHNIQUE = "call-graph / dataflow rules over the handler inventory: forward-to-own-function, no dropped argument, slot-preserving argument flow, out= idiom agreement, method overrides and dispatch shape"
LEVEL_TEXT = """Static, exhaustive over the 107 @implements definitions and the ndarray-method overrides: (R1) the only NumPy
routine a handler can reach (through helpers with function parameters) is the function it is registered for; (R2) every
accepted parameter is used and catch-all *args/**kwargs reach the NumPy call on every path; (R3) the data that reaches
the k-th slot of the NumPy call is the handler's own k-th argument, only stripped of units (np.asarray, views,
comprehensions of those) - never transformed or permuted; (R4) out= targets are passed as views of the caller's buffer
and the result is built from what NumPy returned; (R5) argsort/take/dot/__getitem__ forward their arguments in order;
(R6) __array_function__ forwards untouched arguments to the handler or to NumPy's own implementation. These are the
necessary structural conditions for 'attaching units never changes which computation is carried out'.
(R3, extended) _array_comp_helper returns (a's data, b's data) on every path; (R7) array_equal / array_equiv answer without NumPy only when two unit-carrying operands differ, a bare operand counting as the null unit; (R8) literal defaults of handlers and ndarray-method overrides equal NumPy's own defaults (spec/numpy_defaults.json, table of documented method signatures); (R9) path-sensitive form of R2: on every path that runs a NumPy implementation (version arms that cannot be taken with the NumPy the signatures were read from are skipped) each named parameter NumPy's function also takes flows into that call or decides a branch before it."""
LEVEL_NOTE = """Undecided: the numbers themselves and every NumPy function unyt leaves to NumPy's default implementation.
Trusted: handler parameter order mirrors NumPy's (the repository's signature-compatibility tests check names and kinds).
Named exceptions (each with a reason in rules/c06.py): in1d->isin, interp (public np.interp on stripped data),
apply_over_axes (re-implements the loop), isclose/allclose (second operand converted to the first's unit by contract),
histogram range (converted to the sample unit), select (np.select has no further parameters)."""
EXPLANATION = LEVEL_TEXT
ASSUMPTIONS = ["handler parameter order mirrors NumPy's signature (tested by the repository's own suite)"]

ARR = "unyt/array.py"

# ---- named exceptions, one reason each -----------------------------------------
R1_EXCEPTIONS = {
    "numpy.in1d": ({"numpy.isin"}, "NumPy defines in1d through isin; the handler reuses isin's implementation"),
    "numpy.interp": ({"public:numpy.interp"}, "calls public np.interp on already stripped arrays (interp has no _implementation in all versions)"),
    "numpy.apply_over_axes": ({"public:numpy.apply_over_axes"}, "re-implements NumPy's loop by calling func, recursing through the public function"),
}
R2_EXCEPTIONS = {
    ("select", "args"): "np.select(condlist, choicelist, default) has no further parameters; nothing can be dropped",
    ("select", "kwargs"): "np.select(condlist, choicelist, default) has no further parameters; nothing can be dropped",
}
# helper calls that legitimately transform an argument before it reaches NumPy
PASS_THROUGH = {
    "_sanitize_range": (0, "histogram range limits are converted into the unit of the samples (numbers NumPy sees are in the data's unit)"),
    "_array_comp_helper": (None, "isclose/allclose: operands are brought to a common unit by contract (C19-R1)"),
}
# parameters for which NumPy distinguishes an ndarray from a sequence of arrays: np.histogramdd(sample) reads an
# (N, D) *array* as N points (one per row) but a *sequence* as D coordinate arrays.  Re-packaging such a parameter
# by iterating it ([np.asarray(x) for x in sample]) turns the array form into a sequence of its rows, i.e. another
# computation, unless the handler first tells the two forms apart.
ARRAY_OR_SEQUENCE = {"numpy.histogramdd": "sample"}

R3_EXCEPT_HANDLERS = {
    "numpy.apply_over_axes": "applies func itself; no NumPy data slot to preserve",
}


def check(repo: Repo) -> Result:
    res = Result("C06")
    inv = inventory(repo)
    forward_rule(repo, res, inv)
    dropped_rule(repo, res, inv)
    named_param_rule(repo, res, inv)
    kwargs_lookup_rule(repo, res, inv)
    slot_rule(repo, res, inv)
    out_rule(repo, res, inv)
    methods_rule(repo, res)
    dispatch_rule(repo, res)
    from rules import c19
    from rules.common import share

    defaults_rule(repo, res, inv)
    r7 = res.rule("C06-R7", "array_equal / array_equiv answer without consulting NumPy only when two unit-carrying operands differ in units: a bare operand counts as dimensionless (the null unit), as NumPy would treat the bare data", floor=2)
    share(res, r7, "C19", lambda t: c19.comparison_handlers(repo, t), ["C19-R3"], want=lambda k: k.endswith(":units-first"), min_keys=2)
    return res


# ---------------------------------------------------------------------------


def _sites(repo, fn, bindings=None, depth=0, handled=None):
    """computation-routing call sites reachable from fn:
    (fn, call, targets, kind) with kind in impl/public/helper"""
    mod = fn.mod
    helpers = module_helpers(repo)
    bindings = bindings or {}
    out = []
    for c in walk_no_nested(fn.node):
        if not isinstance(c, ast.Call):
            continue
        f = c.func
        if isinstance(f, ast.Attribute) and f.attr == "_implementation":
            base = f.value
            if isinstance(base, ast.Name) and base.id in bindings:
                tg = bindings[base.id]
            else:
                tg = frozenset(mod.qual_all(base))
            out.append((fn, c, tg, "impl"))
        elif isinstance(f, ast.Name) and f.id in helpers and f.id not in fn.params and f.id not in ("implements", "get_units", "_validate_units_consistency", "_validate_units_consistency_v2") and depth < 3:
            out.append((fn, c, frozenset(), "helper"))
            for h in helpers[f.id]:
                if h.gate and fn.gate and (h.gate == f"not ({fn.gate})" or fn.gate == f"not ({h.gate})"):
                    continue
                b = bind_call(c, h, skip_self=False)
                nb = {}
                for p, a in b.items():
                    if isinstance(a, ast.AST):
                        if isinstance(a, ast.Name) and a.id in bindings:
                            nb[p] = bindings[a.id]
                        elif isinstance(a, (ast.Name, ast.Attribute)):
                            q = mod.qual_all(a)
                            if q and all(x.startswith("numpy") for x in q):
                                nb[p] = frozenset(q)
                out.extend(_sites(repo, h, nb, depth + 1, handled))
        elif isinstance(f, (ast.Attribute,)):
            q = mod.qual(f)
            if q and handled and q in handled:
                a0 = c.args[0] if c.args else None
                if isinstance(a0, ast.Call) and norm(a0.func) == "get_units":
                    continue  # np.prod(get_units(..)): unit algebra, not data
                out.append((fn, c, frozenset({"public:" + q}), "public"))
    return out


def forward_rule(repo, res, inv):
    r1 = res.rule("C06-R1", "a handler reaches only the NumPy routine it is registered for (through helpers)", floor=105)
    handled = set()
    for h in inv:
        handled |= set(h.targets)
    for h in inv:
        res.fn(h.fn)
        sites = _sites(repo, h.fn, handled=handled)
        tg = set()
        unresolved = []
        for fn, c, t, kind in sites:
            if kind == "helper":
                continue
            if not t:
                unresolved.append(norm(c.func))
            tg |= set(t)
        if unresolved:
            raise AnalysisError(f"{h.fn.where()}: cannot resolve NumPy callee {unresolved[0]}")
        want = set(h.targets)
        if tg == want:
            res.ok(h.key, r1)
            continue
        exc = [R1_EXCEPTIONS[t] for t in h.targets if t in R1_EXCEPTIONS]
        if exc and tg == exc[0][0]:
            res.ok(h.key, r1)
            res.note(f"R1 exception {h.key}: {exc[0][1]}")
            continue
        if not tg:
            # acceptable only when the handler refuses on every path
            paths = enum_paths(h.fn.body)
            allraise = all(p[-1][0] == "raise" for p in paths)
            via_helper = [c for fn, c, t, k in sites if k == "helper"]
            if allraise or (via_helper and all(_all_raise(repo, c) for c in via_helper)):
                res.ok(h.key, r1)
                continue
        res.bad(h.key, h.fn.where(), f"handler for {sorted(want)} forwards to {sorted(tg) or 'nothing'}: a different computation is carried out when units are attached", sorted(want), sorted(tg), rid=r1)


def _all_raise(repo, call):
    helpers = module_helpers(repo)
    for h in helpers.get(call.func.id, []):
        if not all(p[-1][0] == "raise" for p in enum_paths(h.body)):
            return False
    return True


def dropped_rule(repo, res, inv):
    r2 = res.rule("C06-R2", "every parameter is used; catch-all *args/**kwargs reach the NumPy call (or helper) on every path that computes", floor=200)
    helpers = module_helpers(repo)
    seen = set()
    todo = [h.fn for h in inv]
    # helpers that receive forwarded arguments are checked with their own parameters
    for name in ("product_helper", "_histogram", "_histogram2d", "_histogramdd", "_linspace", "clip_impl", "diff_helper"):
        if name in helpers:
            todo += helpers[name]
    for fn in todo:
        ident = (fn.qualname, fn.gate)
        if ident in seen:
            continue
        seen.add(ident)
        paths = enum_paths(fn.body)
        if all(p[-1][0] == "raise" for p in paths):
            res.ok(f"{fn.name}:always-raises", r2)
            continue
        loads = {n.id for n in walk_no_nested(fn.node) if isinstance(n, ast.Name) and isinstance(n.ctx, ast.Load)}
        for p in fn.params:
            key = f"{fn.name}{'@' + _g(fn.gate) if fn.gate else ''}:{p}"
            res.check(p in loads, key, fn.where(), f"parameter {p!r} of {fn.name} is accepted but never used: the call silently ignores it", rid=r2)
        for star, pname in (("*", fn.vararg), ("**", fn.kwarg)):
            if not pname:
                continue
            key = f"{fn.name}{'@' + _g(fn.gate) if fn.gate else ''}:{star}{pname}"
            if (fn.name, pname) in R2_EXCEPTIONS:
                res.ok(key, r2)
                res.note(f"R2 exception {fn.name}:{pname}: {R2_EXCEPTIONS[(fn.name, pname)]}")
                continue
            bad = None
            n_compute = 0
            for path in paths:
                if path[-1][0] == "raise":
                    continue
                from engine.sem import canon_facts

                cf = canon_facts(path, fn)
                if star == "*" and ((f"len({pname}) == 0", True) in cf or (pname, False) in cf):
                    continue  # nothing was passed through the catch-all on this path
                sites = [c for c in path_calls(path) if _is_compute_call(c, fn, helpers)]
                for c in sites:
                    n_compute += 1
                    if star == "*":
                        ok = any(isinstance(a, ast.Starred) and pname in _names(a.value) for a in c.args)
                        # a vararg that is unpacked into locals and re-assembled
                        ok = ok or _unpacked_and_forwarded(fn, pname, c)
                        # ... or forwarded element by element under another name: xs = [f(x) for x in args]; g(*xs)
                        ok = ok or any(isinstance(a, ast.Starred) and _elementwise_copy_of(fn, a.value, pname) for a in c.args)
                    else:
                        ok = any(k.arg is None and pname in _names(k.value) for k in c.keywords)
                    if not ok:
                        bad = c
            if bad is not None:
                res.bad(key, fn.where(bad), f"{fn.name}: catch-all {star}{pname} is accepted but not forwarded to {norm(bad.func)}: arguments the caller passes are silently dropped", f"{star}{pname} in the call", norm(bad)[:100], rid=r2)
            else:
                res.ok(key, r2)


def _elementwise_copy_of(fn, expr, pname, depth=0):
    """is expr (a name, or a comprehension) one value per element of the catch-all `pname`, none filtered out?"""
    if depth > 3:
        return False
    if isinstance(expr, ast.Call) and norm(expr.func) in ("list", "tuple") and len(expr.args) == 1 and not expr.keywords:
        return _elementwise_copy_of(fn, expr.args[0], pname, depth + 1)
    if isinstance(expr, ast.Name):
        if expr.id == pname:
            return True
        defs = [n.value for n in walk_no_nested(fn.node) if isinstance(n, ast.Assign) and len(n.targets) == 1 and isinstance(n.targets[0], ast.Name) and n.targets[0].id == expr.id]
        return len(defs) == 1 and _elementwise_copy_of(fn, defs[0], pname, depth + 1)
    if isinstance(expr, (ast.ListComp, ast.GeneratorExp)) and len(expr.generators) == 1 and not expr.generators[0].ifs:
        g = expr.generators[0]
        return _elementwise_copy_of(fn, g.iter, pname, depth + 1) and isinstance(g.target, ast.Name) and g.target.id in _names(expr.elt)
    return False


def _g(gate):
    import hashlib

    return hashlib.sha1(gate.encode()).hexdigest()[:6]


def _names(n):
    return {x.id for x in ast.walk(n) if isinstance(x, ast.Name)}


def _is_compute_call(c, fn, helpers):
    f = c.func
    if isinstance(f, ast.Attribute) and f.attr == "_implementation":
        return True
    if isinstance(f, ast.Name) and f.id in helpers and f.id not in fn.params and f.id not in ("implements", "get_units", "_validate_units_consistency", "_validate_units_consistency_v2", "_sanitize_range", "_array_comp_helper"):
        # only a helper that (transitively) runs a NumPy implementation computes anything; a helper that merely
        # inspects units (a predicate extracted from a handler) is not a place arguments could be forwarded to
        return _reaches_numpy(f.id, helpers)
    if isinstance(f, ast.Attribute) and norm(f) in ("np.interp",):
        return True
    return False


def _reaches_numpy(name, helpers, depth=3, seen=None):
    seen = seen or set()
    if name in seen or depth < 0:
        return False
    seen.add(name)
    for h in helpers.get(name, []):
        for c in ast.walk(h.node):
            if isinstance(c, ast.Call):
                if isinstance(c.func, ast.Attribute) and (c.func.attr == "_implementation" or norm(c.func).startswith(("np.", "numpy."))):
                    return True
                if isinstance(c.func, ast.Name) and c.func.id in helpers and c.func.id != name and _reaches_numpy(c.func.id, helpers, depth - 1, seen):
                    return True
                if isinstance(c.func, ast.Name) and c.func.id in h.params:
                    return True  # calls a function it was handed (product_helper(a, b, out, func))
    return False


def _unpacked_and_forwarded(fn, pname, call):
    """`a, b, *rest = vararg` followed by a call that passes a, b and *rest"""
    for n in walk_no_nested(fn.node):
        if isinstance(n, ast.Assign) and isinstance(n.targets[0], ast.Tuple) and norm(n.value) == pname:
            names = []
            for el in n.targets[0].elts:
                names.append(el.value.id if isinstance(el, ast.Starred) else el.id)
            used = set()
            for a in call.args:
                used |= _names(a)
            return set(names) <= used
    return False



def kwargs_lookup_rule(repo, res, inv):
    """C06-R10: a handler that lets positional arguments through (*args) cannot learn the value of one of NumPy's
    positional-or-keyword parameters by looking its name up in **kwargs: the caller may pass it positionally
    (np.linalg.svd(a, False, False)), NumPy then computes one thing and the handler post-processes another."""
    import json
    import os

    r10 = res.rule("C06-R10", "handlers with *args never read a positional-capable NumPy parameter out of **kwargs alone (the positional form args[k] must be consulted too)", floor=30)
    with open(os.path.join(os.path.dirname(os.path.dirname(os.path.abspath(__file__))), "spec", "numpy_defaults.json"), encoding="utf-8") as f:
        positional = json.load(f)["positional"]
    for h in inv:
        fn = h.fn
        if not (fn.vararg and fn.kwarg):
            continue
        names = set()
        for t in h.targets:
            names |= set(positional.get(t, ()))
        names -= set(fn.params)
        bad = []
        for n in walk_no_nested(fn.node):
            key = None
            if isinstance(n, ast.Call) and isinstance(n.func, ast.Attribute) and n.func.attr in ("get", "pop", "setdefault") and norm(n.func.value) == fn.kwarg and n.args and isinstance(n.args[0], ast.Constant):
                key = n.args[0].value
            elif isinstance(n, ast.Subscript) and norm(n.value) == fn.kwarg and isinstance(n.slice, ast.Constant) and isinstance(n.ctx, ast.Load):
                key = n.slice.value
            elif isinstance(n, ast.Compare) and len(n.ops) == 1 and isinstance(n.ops[0], (ast.In, ast.NotIn)) and norm(n.comparators[0]) == fn.kwarg and isinstance(n.left, ast.Constant):
                key = n.left.value
            if key in names:
                # fine when the handler looks at the positional form as well: args[k] with k the parameter's position in
                # NumPy's signature minus the handler's own leading named parameters
                handled = False
                for t in h.targets:
                    pos = positional.get(t, [])
                    if key in pos:
                        k = pos.index(key) - len([p for p in fn.params if p in pos[: pos.index(key)]])
                        for m in walk_no_nested(fn.node):
                            if isinstance(m, ast.Subscript) and norm(m.value) == fn.vararg and isinstance(m.slice, ast.Constant) and m.slice.value == k:
                                handled = True
                if not handled:
                    bad.append((n, key))
        g = f"@{_g(fn.gate)}" if fn.gate else ""
        res.check(not bad, f"{fn.name}{g}:kwargs-lookup", fn.where(bad[0][0]) if bad else fn.where(), f"{fn.name} reads NumPy's parameter {bad[0][1]!r} from **{fn.kwarg} although it also forwards *{fn.vararg}: passed positionally the value is invisible to the handler, which then treats NumPy's result as if the default had been used" if bad else "", "a named parameter in the handler's signature", [k for _, k in bad], rid=r10)


# ---------------------------------------------------------------------------
# C06-R9: path-sensitive forwarding of named parameters


def _version_key(text):
    parts = re.findall(r"\d+|dev|rc|a|b", text)
    nums = [int(x) for x in parts if x.isdigit()][:3]
    while len(nums) < 3:
        nums.append(0)
    pre = 0 if any(x in ("dev", "rc", "a", "b") for x in parts) else 1
    return tuple(nums) + (pre,)


def _gate_truth(test, numpy_version):
    """truth of `NUMPY_VERSION <op> Version("x.y")` for the NumPy the signatures in spec/ were read from; None if the
    test is something else"""
    if not (isinstance(test, ast.Compare) and len(test.ops) == 1 and norm(test.left) == "NUMPY_VERSION"):
        return None
    c = test.comparators[0]
    if not (isinstance(c, ast.Call) and norm(c.func) == "Version" and c.args and isinstance(c.args[0], ast.Constant)):
        return None
    a, b = _version_key(numpy_version), _version_key(str(c.args[0].value))
    op = type(test.ops[0])
    table = {ast.GtE: a >= b, ast.Gt: a > b, ast.LtE: a <= b, ast.Lt: a < b, ast.Eq: a == b, ast.NotEq: a != b}
    return table.get(op)


def _path_influence(path, params, stop_at=()):
    """for every parameter: does its value, on this path, flow into (a) an argument of a call, (b) a branch test,
    (c) the returned expression?  Flow is followed through local assignments in path order (a re-bound name stops
    carrying the parameter unless the new value was computed from it)."""
    carriers = {p: {p} for p in params}
    into_calls = {p: [] for p in params}  # call nodes whose arguments load a carrier of p
    decides = set()
    returned = set()

    def loads(node):
        return {n.id for n in ast.walk(node) if isinstance(n, ast.Name) and isinstance(n.ctx, ast.Load)}

    def note_calls(node):
        for c in ast.walk(node):
            if isinstance(c, ast.Call):
                used = set()
                for a in list(c.args) + [k.value for k in c.keywords]:
                    used |= loads(a)
                for p in params:
                    if used & carriers[p]:
                        into_calls[p].append(c)

    def assign(targets, value_loads):
        names, updated = set(), set()
        for t in targets:
            for n in ast.walk(t):
                if isinstance(n, ast.Name) and isinstance(n.ctx, ast.Store):
                    names.add(n.id)
            for el in (t.elts if isinstance(t, (ast.Tuple, ast.List)) else [t]):
                # kwargs["device"] = device / obj.attr = value: the container now carries the value as well
                base = el
                while isinstance(base, (ast.Subscript, ast.Attribute, ast.Starred)):
                    base = base.value
                if base is not el and isinstance(base, ast.Name):
                    updated.add(base.id)
        for p in params:
            if value_loads & carriers[p]:
                carriers[p] |= names | updated
            else:
                carriers[p] -= names

    computed = False  # a computing call has been passed: later tests only post-process its result
    for ev in path:
        kind = ev[0]
        if kind == "cond":
            ld = loads(ev[1])
            note_calls(ev[1])
            for p in params:
                if ld & carriers[p] and not computed:
                    decides.add(p)
        elif kind == "loop":
            node = ev[1]
            if isinstance(node, ast.For):
                note_calls(node.iter)
                assign([node.target], loads(node.iter))
            else:
                ld = loads(node.test)
                for p in params:
                    if ld & carriers[p]:
                        decides.add(p)
        elif kind in ("stmt", "partial", "return", "raise") and ev[1] is not None:
            st = ev[1]
            note_calls(st)
            if stop_at and any(id(c) in stop_at for c in ast.walk(st) if isinstance(c, ast.Call)):
                computed = True
            if isinstance(st, ast.Assign):
                assign(st.targets, loads(st.value))
            elif isinstance(st, ast.AugAssign):
                ld = loads(st.value) | loads(st.target)
                for p in params:
                    if ld & carriers[p]:
                        carriers[p] |= {n.id for n in ast.walk(st.target) if isinstance(n, ast.Name)}
            elif isinstance(st, ast.AnnAssign) and st.value is not None:
                assign([st.target], loads(st.value))
            elif isinstance(st, ast.With):
                for it in st.items:
                    if it.optional_vars is not None:
                        assign([it.optional_vars], loads(it.context_expr))
            elif isinstance(st, ast.Return) and st.value is not None:
                ld = loads(st.value)
                for p in params:
                    if ld & carriers[p]:
                        returned.add(p)
            # walrus targets
            for n in ast.walk(st):
                if isinstance(n, ast.NamedExpr):
                    assign([ast.Name(id=n.target.id, ctx=ast.Store())], loads(n.value))
    return into_calls, decides, returned


def named_param_rule(repo, res, inv):
    """C06-R9: on every path of a handler (or of a helper it forwards to) that runs a NumPy implementation, every
    parameter that NumPy's own function also takes has an effect on the computation: it flows into that implementation
    call (through local re-bindings and containers such as a kwargs dict), or it decides a branch taken before the call.  A named parameter that is accepted but, on some path, never looked at
    makes the call compute NumPy's default instead of what the caller asked for (C06-R2 only sees a parameter that is
    unused on *all* paths)."""
    import json
    import os

    r9 = res.rule("C06-R9", "on every computing path each parameter NumPy's function also takes reaches the implementation call or decides a branch before it", floor=230)
    with open(os.path.join(os.path.dirname(os.path.dirname(os.path.abspath(__file__))), "spec", "numpy_defaults.json"), encoding="utf-8") as f:
        table = json.load(f)
    np_params, np_version = table["params"], table["numpy_version"]
    helpers = module_helpers(repo)
    mod = repo.mod(AF)
    todo = [(h.fn, h.targets) for h in inv]
    done = set()
    # helpers that receive forwarded arguments: their own parameters are judged against the NumPy function(s) they run
    for fn0, _t in list(todo):
        for c in walk_no_nested(fn0.node):
            if isinstance(c, ast.Call) and isinstance(c.func, ast.Name) and c.func.id in helpers and c.func.id not in fn0.params and _is_compute_call(c, fn0, helpers):
                for h in helpers[c.func.id]:
                    todo.append((h, None))
    for fn, targets in todo:
        ident = (fn.qualname, fn.gate)
        if ident in done:
            continue
        done.add(ident)
        g = f"@{_g(fn.gate)}" if fn.gate else ""
        paths = enum_paths(fn.body)
        verdict = {}
        for path in paths:
            if path[-1][0] == "raise":
                continue
            live = True
            for ev in path:
                if ev[0] == "cond":
                    t = _gate_truth(ev[1], np_version)
                    if t is not None and t != ev[2]:
                        live = False
            if not live:
                continue
            sites = [c for c in path_calls(path) if _is_compute_call(c, fn, helpers)]
            if not sites:
                continue
            want = set()
            for c in sites:
                f = c.func
                if isinstance(f, ast.Attribute) and f.attr == "_implementation":
                    for t in mod.qual_all(f.value) or ():
                        want |= set(np_params.get(t, ()))
                elif isinstance(f, ast.Attribute):
                    for t in mod.qual_all(f) or ():
                        want |= set(np_params.get(t, ()))
                elif isinstance(f, ast.Name) and f.id in helpers:
                    for h in helpers[f.id]:
                        want |= set(h.params)
            if targets:
                tw = set()
                for t in targets:
                    tw |= set(np_params.get(t, ()))
                want &= tw or want
            mine = [p for p in fn.params if p in want]
            if not mine:
                continue
            site_ids = {id(c) for c in sites}
            into_calls, decides, returned = _path_influence(path, mine, site_ids)
            for p in mine:
                ok = p in decides or any(id(c) in site_ids for c in into_calls[p])
                if not ok:
                    verdict[p] = (False, sites[0])
                else:
                    verdict.setdefault(p, (True, None))
        for p, (ok, site) in sorted(verdict.items()):
            res.check(ok, f"{fn.name}{g}:{p}", fn.where(site) if site is not None else fn.where(), f"{fn.name}: on a path that runs {norm(site.func) if site is not None else 'NumPy'} the parameter {p!r} has no effect on the computation (it neither reaches the call nor decides a branch before it): NumPy computes with its own default instead of the caller's value", f"{p} reaches the computation on every path", "unused on one computing path", rid=r9)

# ---------------------------------------------------------------------------


def _roots(expr, fn, defs, pmap):
    """root-handler parameters the data of `expr` derives from"""
    # pass-through helpers
    if isinstance(expr, ast.Call) and isinstance(expr.func, ast.Name) and expr.func.id in PASS_THROUGH:
        idx = PASS_THROUGH[expr.func.id][0]
        if idx is not None and len(expr.args) > idx:
            return _roots(expr.args[idx], fn, defs, pmap)
    # a unit conversion re-expresses the same data in the unit the computation is carried out in (the destination's
    # unit for a masked copy, the first operand's for comparisons): the numbers NumPy sees are the caller's data in that unit
    if isinstance(expr, ast.Call) and isinstance(expr.func, ast.Attribute) and expr.func.attr in ("to", "in_units", "to_value") and len(expr.args) == 1 and norm(expr.args[0]).endswith(".units"):
        return _roots(expr.func.value, fn, defs, pmap)
    src = source_params(expr, fn, defs)
    out = set()
    for s in src:
        if s == "?":
            out.add("?")
            continue
        root = s.split("[")[0]
        suffix = s[len(root):]
        if root in pmap:
            for r in pmap[root]:
                out.add(r + suffix if r != "?" else "?")
        else:
            out.add("?")
    return out


def _comp_helper_keeps_order(repo, res, r3):
    """isclose / allclose hand NumPy the two results of _array_comp_helper(a, b) in order (visit() below relies on
    it): on every path of the helper the first result carries a's data and the second b's - reads of `.units` do not
    count as data - because np.isclose(a, b) is not symmetric (the tolerance is rtol * |b|)."""
    from engine.sem import summarise

    fn = repo.mod(AF).func("_array_comp_helper")
    res.fn(fn)
    pa, pb = fn.params

    def data_names(node):
        out = set()

        def go(n):
            if isinstance(n, ast.Attribute) and n.attr in ("units",):
                return
            if isinstance(n, ast.Call) and norm(n.func) == "getattr" and len(n.args) >= 2 and isinstance(n.args[1], ast.Constant) and n.args[1].value == "units":
                return
            if isinstance(n, ast.Name):
                out.add(n.id)
            for c in ast.iter_child_nodes(n):
                go(c)

        go(node)
        return out & {pa, pb}

    bad = []
    n = 0
    for x in summarise(fn):
        if x.kind != "return":
            continue
        if "__rebound" in x.value:
            raise AnalysisError(f"{fn.where()}: a parameter of _array_comp_helper is re-bound in a way the path summariser does not follow: {x.value[:80]}")
        v = ast.parse(x.value, mode="eval").body
        if not (isinstance(v, ast.Tuple) and len(v.elts) == 2):
            raise AnalysisError(f"{fn.where()}: _array_comp_helper returns something that is not a pair: {x.value[:60]}")
        n += 1
        if data_names(v.elts[0]) != {pa} or data_names(v.elts[1]) != {pb}:
            bad.append(x.value[:100])
    if n == 0:
        raise AnalysisError(f"{fn.where()}: no returning path in _array_comp_helper")
    res.check(not bad, "_array_comp_helper:order", fn.where(), "the comparison helper returns (a's data, b's data) on every path: np.isclose(a, b) uses rtol * |b|, so handing NumPy the operands the other way round changes the numbers", f"({pa}..., {pb}...)", bad[:3], rid=r3)


def _array_or_sequence(repo, res, r3, inv, helpers):
    for h in inv:
        for t in h.targets:
            p_ = ARRAY_OR_SEQUENCE.get(t)
            if p_ is None or p_ not in h.fn.params:
                continue
            # follow the parameter into the helper that does the work (same-named parameter)
            fns = [h.fn]
            for c in walk_no_nested(h.fn.node):
                if isinstance(c, ast.Call) and isinstance(c.func, ast.Name) and c.func.id in helpers and any(isinstance(a, ast.Name) and a.id == p_ for a in c.args):
                    fns += [g for g in helpers[c.func.id] if p_ in g.params]
            bad = []
            for f in fns:
                res.fn(f)
                iterated = [n for n in ast.walk(f.node) if isinstance(n, ast.comprehension) and isinstance(n.iter, ast.Name) and n.iter.id == p_]
                iterated += [n for n in ast.walk(f.node) if isinstance(n, ast.For) and isinstance(n.iter, ast.Name) and n.iter.id == p_]
                if not iterated:
                    continue
                # told apart first: a test of the parameter's array-ness that re-binds it or branches
                # a test that separates EVERY ndarray (bare or unit-carrying) from a sequence: isinstance(p, np.ndarray),
                # np.ndim(p) / np.shape(p), or not isinstance(p, (list, tuple)); a test for unyt_array only lets a bare
                # (N, D) array through to the iteration
                def _covers_all_arrays(n):
                    if not isinstance(n, ast.Call):
                        return False
                    f_ = norm(n.func)
                    if f_ == "isinstance" and len(n.args) == 2 and norm(n.args[0]) == p_:
                        cls = n.args[1]
                        names = [norm(e) for e in cls.elts] if isinstance(cls, ast.Tuple) else [norm(cls)]
                        return any(c in ("np.ndarray", "numpy.ndarray", "ndarray") for c in names) or set(names) <= {"list", "tuple"}
                    return f_ in ("np.ndim", "np.shape") and n.args and norm(n.args[0]) == p_

                told = any(_covers_all_arrays(n) for n in ast.walk(f.node))
                if not told:
                    bad.append(f"{f.name}: iterates {p_} without telling an (N, D) array from a sequence of D arrays")
                    continue
                # ... and the array form is turned into what NumPy makes of it: its D columns (the transpose), a 1-d array
                # into the one-element sequence [array].  Path-wise: on every path on which the parameter is known to be
                # an array, its last re-binding before the iteration is `[p]` under `p.ndim == 1` and a transpose otherwise
                n_arr = 0
                for pth in enum_paths(f.body):
                    is_arr, one_d, last = None, None, None
                    for ev in pth:
                        if ev[0] == "cond":
                            for t_, tr_, node_ in path_facts([ev]):
                                pass
                            facts_ = path_facts([ev])
                            for t_, tr_, _n in facts_:
                                if t_.startswith("isinstance(") and f"({p_}," in t_ and "ndarray" in t_:
                                    is_arr = tr_
                                if t_ in (f"{p_}.ndim == 1", f"np.ndim({p_}) == 1"):
                                    one_d = tr_
                        elif ev[0] == "stmt" and isinstance(ev[1], ast.Assign) and any(isinstance(t, ast.Name) and t.id == p_ for t in ev[1].targets):
                            last = ev[1].value
                        elif ev[0] in ("stmt", "return", "loop") and ev[1] is not None:
                            node_ = ev[1].iter if ev[0] == "loop" and isinstance(ev[1], ast.For) else ev[1]
                            if any(isinstance(c, ast.comprehension) and isinstance(c.iter, ast.Name) and c.iter.id == p_ for c in ast.walk(node_)) or (ev[0] == "loop" and isinstance(ev[1], ast.For) and isinstance(ev[1].iter, ast.Name) and ev[1].iter.id == p_):
                                break
                    if is_arr is not True:
                        continue
                    n_arr += 1
                    txt = norm(last) if last is not None else None
                    if one_d is True:
                        good = txt == f"[{p_}]"
                    else:
                        good = txt is not None and (f"{p_}.T" in txt or f"np.transpose({p_})" in txt or f"{p_}.transpose()" in txt)
                    if not good:
                        bad.append(f"{f.name}: for an ndarray {p_} ({'1-d' if one_d else 'N x D'}) the sequence handed on is {txt}, not {'[' + p_ + ']' if one_d else 'its columns (' + p_ + '.T)'}")
                if n_arr == 0:
                    bad.append(f"{f.name}: no path on which {p_} is known to be an ndarray")
            res.check(not bad, f"{h.key}:{p_}:array-or-sequence", h.fn.where(), f"{t} reads an (N, D) array as N points but a sequence as D coordinate arrays; the handler re-packages `{p_}` by iterating it, which turns an (N, D) unyt_array into the list of its N rows - NumPy then bins a different sample (other counts, other number of axes) than for the bare array", f"the two forms of {p_} told apart before it is iterated", bad, rid=r3)


def slot_rule(repo, res, inv):
    r3 = res.rule("C06-R3", "the data reaching slot k of the NumPy call is the handler's own k-th argument, only stripped (not transformed, not permuted)", floor=100)
    helpers = module_helpers(repo)
    _comp_helper_keeps_order(repo, res, r3)
    _array_or_sequence(repo, res, r3, inv, helpers)
    from rules import c07

    c07.range_call_sites(repo, res, r3)
    for h in inv:
        if any(t in R3_EXCEPT_HANDLERS for t in h.targets):
            res.ok(h.key + ":exception", r3)
            continue
        problems = []
        nsites = [0]

        def visit(fn, pmap, depth):
            defs = local_value_defs(fn)
            # _array_comp_helper(a, b) returns its operands in order
            for name, vals in list(defs.items()):
                for i, (ln, v) in enumerate(vals):
                    if isinstance(v, ast.Subscript) and isinstance(v.value, ast.Call) and isinstance(v.value.func, ast.Name) and v.value.func.id == "_array_comp_helper" and isinstance(v.slice, ast.Constant):
                        vals[i] = (ln, v.value.args[v.slice.value])
                    # _comp_tolerances(unit, args, kwargs) returns (args, kwargs) with an absolute tolerance that carries units
                    # re-expressed in the compared unit (C19-R1): result k is argument k + 1
                    if isinstance(v, ast.Subscript) and isinstance(v.value, ast.Call) and isinstance(v.value.func, ast.Name) and v.value.func.id == "_comp_tolerances" and isinstance(v.slice, ast.Constant) and len(v.value.args) == 3:
                        vals[i] = (ln, v.value.args[v.slice.value + 1])
            for c in walk_no_nested(fn.node):
                if not isinstance(c, ast.Call):
                    continue
                f = c.func
                is_impl = isinstance(f, ast.Attribute) and f.attr == "_implementation"
                is_pub = isinstance(f, ast.Attribute) and norm(f) == "np.interp"
                if is_impl or is_pub:
                    nsites[0] += 1
                    root = h.fn
                    named = [a.arg for a in root.node.args.posonlyargs + root.node.args.args]
                    pos = 0
                    for a in c.args:
                        if isinstance(a, ast.Starred):
                            rs = _roots(a.value, fn, defs, pmap)
                            rs = {r.split("[")[0] for r in rs}
                            if rs != {root.vararg}:
                                problems.append((c, f"starred positional {norm(a)} does not come from *{root.vararg} ({sorted(rs)})"))
                            pos = None
                            continue
                        rs = _roots(a, fn, defs, pmap)
                        if pos is None:
                            problems.append((c, "positional argument after a starred one"))
                            continue
                        if pos < len(named):
                            want = {named[pos]}
                        elif root.vararg:
                            want = {f"{root.vararg}[{pos - len(named)}]"}
                        else:
                            want = set()
                        if (rs or want) and rs != want and not (not rs and not pos < len(named)):
                            problems.append((c, f"slot {pos} receives {sorted(rs) or 'a constant'} instead of {sorted(want)}"))
                        pos += 1
                    for k in c.keywords:
                        if k.arg is None:
                            continue
                        rs = _roots(k.value, fn, defs, pmap)
                        rs = {r.split("[")[0] for r in rs}
                        if rs and rs != {k.arg}:
                            problems.append((c, f"keyword {k.arg}= receives {sorted(rs)}"))
                        elif not rs and k.arg in root.params:
                            problems.append((c, f"keyword {k.arg}= receives a constant although the handler has a parameter {k.arg!r}"))
                elif isinstance(f, ast.Name) and f.id in helpers and f.id not in fn.params and depth < 3 and f.id not in ("implements", "get_units", "_validate_units_consistency", "_validate_units_consistency_v2", "_sanitize_range", "_array_comp_helper"):
                    for hf in helpers[f.id]:
                        if hf.gate and fn.gate and (hf.gate == f"not ({fn.gate})" or fn.gate == f"not ({hf.gate})"):
                            continue
                        b = bind_call(c, hf, skip_self=False)
                        nm = {}
                        for p in hf.params:
                            a = b.get(p)
                            if a is None:
                                nm[p] = set()
                            elif isinstance(a, ast.AST):
                                nm[p] = _roots(a, fn, defs, pmap)
                        if hf.vararg:
                            st_ = b.get("*")
                            nm[hf.vararg] = _roots(st_, fn, defs, pmap) if st_ is not None else set()
                        if hf.kwarg:
                            nm[hf.kwarg] = {root_kw} if (root_kw := h.fn.kwarg) else set()
                        visit(hf, nm, depth + 1)

        root = h.fn
        pmap = {p: {p} for p in root.params}
        if root.vararg:
            pmap[root.vararg] = {root.vararg}
        if root.kwarg:
            pmap[root.kwarg] = {root.kwarg}
        visit(root, pmap, 0)
        if problems:
            c, msg = problems[0]
            res.bad(h.key, h.fn.where(c), f"{h.np_name}: {msg}: NumPy computes on different / reordered data than the caller passed", found=norm(c)[:120], rid=r3)
        else:
            res.ok(h.key, r3)


# ---------------------------------------------------------------------------


def out_rule(repo, res, inv):
    r4 = res.rule("C06-R4", "out= idiom: NumPy writes into a view of the caller's buffer, units are stored on it, and the result is built from NumPy's return value (sibling agreement)", floor=8)
    mod = repo.mod(AF)
    helpers = module_helpers(repo)
    ui = UnitInterp(repo, mod, helpers)
    cands = []
    for q, fns in helpers.items():
        for fn in fns:
            if "out" in fn.params and any(isinstance(c.func, ast.Attribute) and c.func.attr == "_implementation" for c in walk_no_nested(fn.node) if isinstance(c, ast.Call)):
                cands.append(fn)
    for fn in cands:
        key = f"{fn.name}{'@' + _g(fn.gate) if fn.gate else ''}"
        defs = local_value_defs(fn)
        probs = []
        impl = [c for c in walk_no_nested(fn.node) if isinstance(c, ast.Call) and isinstance(c.func, ast.Attribute) and c.func.attr == "_implementation"]
        with_out = []
        for c in impl:
            a = kwarg_of(c, "out")
            if a is None:
                # positional out (concatenate passes it third)
                for x in c.args:
                    if "out" in source_params(x, fn, defs) and not isinstance(x, ast.Starred):
                        a = x
            if a is not None:
                with_out.append((c, a))
        if not with_out:
            probs.append("no NumPy call receives the out argument")
        for c, a in with_out:
            src = source_params(a, fn, defs)
            if src - {"out"}:
                probs.append(f"out= receives {norm(a)} which is not (a view of) the caller's buffer")
        outs = ui.run(fn)
        saw_effect = False
        for o in outs:
            fm = o.factmap()
            given = fact_get(fm, "out is None") is False
            if not given or isinstance(o.value, Raises):
                continue
            hasunits = fact_get(fm, "getattr(out, 'units', None) is not None")
            eff = [e for e in o.effects if e[0] == "setattr" and e[1] == "out.units"]
            if hasunits is True:
                saw_effect = saw_effect or bool(eff)
                if not eff:
                    probs.append("units are not stored on a unit-carrying out target")
            if not (isinstance(o.value, Qn) and o.value.data == "impl"):
                probs.append(f"returned value is not built from NumPy's result ({o.value!r})")
        if not saw_effect:
            probs.append("no path stores units on out")
        res.check(not probs, key, fn.where(), f"{fn.name}: out= handling deviates from the idiom of its siblings: {sorted(set(probs))[:2]}", rid=r4)


# documented signatures of the ndarray methods unyt_array overrides (NumPy reference): parameter -> accepted defaults
NDARRAY_METHOD_DEFAULTS = {
    "take": {"axis": (None,), "out": (None,), "mode": ("raise",)},
    "argsort": {"axis": (-1,), "kind": (None, "quicksort"), "order": (None,)},  # kind=None means quicksort
    "dot": {"out": (None,)},
    "copy": {"order": ("C",)},
}


def defaults_rule(repo, res, inv):
    """C06-R8: a call that leaves an optional argument out must compute what NumPy computes for its own default: every
    literal default in a handler's / method override's signature equals NumPy's default for that parameter
    (spec/numpy_defaults.json, read from the environment's NumPy by tools/gen_numpy_defaults.py; ndarray methods from
    the table above)."""
    import json
    import os

    r8 = res.rule("C06-R8", "optional parameters of handlers and ndarray-method overrides default to NumPy's own defaults", floor=60)
    with open(os.path.join(os.path.dirname(os.path.dirname(os.path.abspath(__file__))), "spec", "numpy_defaults.json"), encoding="utf-8") as f:
        table = json.load(f)["defaults"]

    def literal_defaults(fn):
        a = fn.node.args
        names = [x.arg for x in a.posonlyargs + a.args]
        d = dict(zip(names[::-1], a.defaults[::-1]))
        for x, dv in zip(a.kwonlyargs, a.kw_defaults):
            if dv is not None:
                d[x.arg] = dv
        out = {}
        for k, v in d.items():
            if isinstance(v, ast.Constant):
                out[k] = v.value
            elif isinstance(v, ast.UnaryOp) and isinstance(v.op, ast.USub) and isinstance(v.operand, ast.Constant):
                out[k] = -v.operand.value
        return out

    for h in inv:
        mine = literal_defaults(h.fn)
        for t in h.targets:
            ref = table.get(t)
            if ref is None:
                continue
            for p_, v in sorted(mine.items()):
                if p_ not in ref:
                    continue
                same = (v == ref[p_]) and (isinstance(v, bool) == isinstance(ref[p_], bool)) and ((v is None) == (ref[p_] is None))
                res.check(same, f"{h.key}:{t}:{p_}", h.fn.where(), f"{h.fn.name}({p_}={v!r}) but {t}'s own default is {ref[p_]!r}: a call that omits {p_} runs a different computation on quantities than on bare arrays", repr(ref[p_]), repr(v), rid=r8)
    arr = repo.mod(ARR)
    for m, ref in NDARRAY_METHOD_DEFAULTS.items():
        if not arr.has_func(f"unyt_array.{m}"):
            continue
        fn = arr.func(f"unyt_array.{m}")
        res.fn(fn)
        mine = literal_defaults(fn)
        for p_, allowed in ref.items():
            if p_ in fn.params:
                res.check(p_ in mine and mine[p_] in allowed and ((mine[p_] is None) == (None in allowed) or mine[p_] in allowed), f"method:{m}:{p_}", fn.where(), f"unyt_array.{m}: default of {p_} is {mine.get(p_, '<not a literal>')!r}, ndarray.{m} documents {allowed[0]!r}: q.{m}(...) without {p_} computes something else than the bare array's method", repr(allowed[0]), repr(mine.get(p_)), rid=r8)


def methods_rule(repo, res):
    r5 = res.rule("C06-R5", "ndarray-method overrides forward their arguments unchanged and in order", floor=5)
    arr = repo.mod(ARR)
    # __pow__: the zero-exponent shortcut answers with an array of self's shape, which is NumPy's answer only for an
    # exponent of no dimensions (broadcasting against a (1, 1) exponent gives another shape)
    from engine.sem import summarise

    pw = arr.func("unyt_array.__pow__")
    res.fn(pw)
    pp = pw.params[1]
    scalar_tests = (f"np.isscalar({pp})", f"np.ndim({pp}) == 0", f"np.shape({pp}) == ()", f"isinstance({pp}, numeric_type)", f"isinstance({pp}, (int, float))")
    short = [x for x in summarise(pw) if x.kind == "return" and "super().__pow__" not in (x.value or "")]
    loose = [sorted(f"{t}={tr}" for t, tr in x.facts) for x in short if not any(tr and t in scalar_tests for t, tr in x.facts)]
    res.check(not loose, "__pow__:shortcut-scalar-only", pw.where(), "the exponent-zero shortcut of __pow__ (an array of ones in self's shape) is taken for an exponent that is not known to be 0-dimensional: q ** np.zeros((1, 1)) then has another shape than NumPy's broadcast result", f"np.isscalar({pp}) among the conditions", loose[:2], rid=r5)
    fn = arr.func("unyt_array.argsort")
    res.fn(fn)
    rets = [n for n in ast.walk(fn.node) if isinstance(n, ast.Return)]
    p = fn.params[1:]
    ok = len(rets) == 1 and isinstance(rets[0].value, ast.Call) and norm(rets[0].value.func) == "self.view(np.ndarray).argsort" and [norm(a) for a in rets[0].value.args] + [f"{k.arg}={norm(k.value)}" for k in rets[0].value.keywords] in ([*p], [f"{x}={x}" for x in p])
    res.check(ok, "argsort", fn.where(), "argsort must pass (axis, kind, order) in order to the ndarray view", found=norm(rets[0].value) if rets else None, rid=r5)

    fn = arr.func("unyt_array.take")
    res.fn(fn)
    rets = [n for n in ast.walk(fn.node) if isinstance(n, ast.Return)]
    ok = False
    if len(rets) == 1 and isinstance(rets[0].value, ast.Call):
        c = rets[0].value
        loc = arr.local_imports(fn)
        q = arr.qual(c.func, loc)
        handler = repo.mod(AF).func("take")
        b = bind_call(c, handler, skip_self=False)
        want = {"a": "self", "indices": "indices", "axis": "axis", "out": "out", "mode": "mode"}
        ok = q == "unyt._array_functions.take" and {k: norm(v) for k, v in b.items()} == want
    res.check(ok, "take", fn.where(), "take must forward all five parameters to the np.take handler", rid=r5)

    fn = arr.func("unyt_array.dot")
    res.fn(fn)
    bp, op = fn.params[1], fn.params[2]
    calls = [c for c in ast.walk(fn.node) if isinstance(c, ast.Call) and isinstance(c.func, ast.Attribute) and c.func.attr == "dot"]
    STRIPPED_SELF = ("self.view(np.ndarray)", "np.asarray(self)", "self.d", "self.ndview")
    # ndarray.dot(b, out=None): the second operand is the first positional argument, out the second or a keyword
    ok = len(calls) == 1 and norm(calls[0].func.value) in STRIPPED_SELF and 1 <= len(calls[0].args) <= 2 and norm(calls[0].args[0]) in (f"np.asarray({bp})", f"np.asanyarray({bp}).view(np.ndarray)") and all(k.arg == "out" for k in calls[0].keywords) and not (len(calls[0].args) == 2 and calls[0].keywords)
    res.check(ok, "dot", fn.where(), "dot must run ndarray.dot on the bare view of self with the stripped second operand, in that order", f"self.view(np.ndarray).dot(np.asarray({bp}), out=...)", [norm(c) for c in calls], rid=r5)
    # the out= buffer NumPy writes into (and returns) is a *plain view* of the caller's out: handing over a unyt
    # out makes NumPy return that object - with whatever unit it had - as the product, which is then multiplied by
    # the result unit once more
    okv = False
    found = None
    if len(calls) == 1:
        o = kwarg_of(calls[0], "out")
        if o is None and len(calls[0].args) > 1:
            o = calls[0].args[1]
        found = norm(o) if o is not None else None
        if isinstance(o, ast.Name) and o.id != op:
            ds = [n.value for n in walk_no_nested(fn.node) if isinstance(n, ast.Assign) and norm(n.targets[0]) == o.id]
            o = ds[0] if len(ds) == 1 else None
            found = f"{found} = {norm(o) if o is not None else '?'}"
        plain = (f"{op}.view(np.ndarray)", f"np.asarray({op})", f"{op}.d", f"{op}.ndview")
        if o is not None:
            t = norm(o)
            okv = t in plain or (isinstance(o, ast.IfExp) and norm(o.test) in (f"{op} is None", f"{op} is not None") and {norm(o.body), norm(o.orelse)} & set(plain) and {norm(o.body), norm(o.orelse)} - set(plain) <= {"None"})
    res.check(okv, "dot:out-plain-view", fn.where(), "ndarray.dot must be given a plain ndarray view of out (NumPy returns its out argument: a unyt out would carry its previous unit into the product)", f"{op}.view(np.ndarray) (or None)", found, rid=r5)
    sets = [n for n in ast.walk(fn.node) if isinstance(n, ast.Assign) and norm(n.targets[0]) == f"{op}.units"]
    res.check(len(sets) == 1 and norm(sets[0].value) == "res_units", "dot:out-units", fn.where(), "dot stores the product unit on out", rid=r5)

    fn = arr.func("unyt_array.__getitem__")
    res.fn(fn)
    first = fn.body[0]
    ok = isinstance(first, ast.Assign) and norm(first.value) == f"super().__getitem__({fn.params[1]})"
    res.check(ok, "__getitem__", fn.where(), "__getitem__ must index with the untouched item", rid=r5)

    fn = arr.func("unyt_array.copy")
    res.fn(fn)
    calls = [c for c in ast.walk(fn.node) if isinstance(c, ast.Call) and norm(c.func) == "np.copy"]
    ok = bool(calls) and all([norm(a) for a in c.args] == ["np.asarray(self)"] for c in calls)
    res.check(ok, "copy", fn.where(), "copy must copy the array's own data", rid=r5)
    res.note("unyt_array.copy(order) ignores `order`; this affects memory layout only, not numbers (recorded, not a rule instance)")


def dispatch_rule(repo, res):
    r6 = res.rule("C06-R6", "__array_function__: unsupported -> NotImplemented; unhandled -> func._implementation(*args, **kwargs); handled -> handler(*args, **kwargs)", floor=4)
    fn = repo.mod(ARR).func("unyt_array.__array_function__")
    res.fn(fn)
    func, types, args, kwargs = fn.params[1:5]
    paths = enum_paths(fn.body)
    for i, p in enumerate(paths):
        facts = dict((t, tr) for t, tr, _ in path_facts(p))
        end = p[-1]
        val = norm(end[1].value) if end[0] == "return" and end[1].value is not None else end[0]
        if facts.get(f"{func} in _UNSUPPORTED_FUNCTIONS") is True:
            res.check(val == "NotImplemented", f"path#{i}:unsupported", fn.where(), "unsupported functions must return NotImplemented", "NotImplemented", val, rid=r6)
        elif fact_get(facts, f"{func} not in _HANDLED_FUNCTIONS") is True:
            res.check(val == f"{func}._implementation(*{args}, **{kwargs})", f"path#{i}:default", fn.where(), "unhandled functions must fall through to NumPy's implementation with untouched arguments", f"{func}._implementation(*{args}, **{kwargs})", val, rid=r6)
        elif val == "NotImplemented":
            res.ok(f"path#{i}:foreign-types", r6)
        else:
            res.check(val == f"_HANDLED_FUNCTIONS[{func}](*{args}, **{kwargs})", f"path#{i}:handled", fn.where(), "handled functions must be called with the untouched arguments", f"_HANDLED_FUNCTIONS[{func}](*{args}, **{kwargs})", val, rid=r6)
    # implements() registers the function under exactly the decorated key
    imp = repo.mod(AF).func("implements")
    stores = [n for n in ast.walk(imp.node) if isinstance(n, ast.Assign) and isinstance(n.targets[0], ast.Subscript) and norm(n.targets[0].value) == "_HANDLED_FUNCTIONS"]
    ok = len(stores) == 1 and norm(stores[0].targets[0].slice) == imp.params[0] and norm(stores[0].value) == "func"
    res.check(ok, "implements", imp.where(), "implements(f) must register the decorated function under f", rid=r6)


MUTANTS = [
    Mutant("dstack-to-vstack", AF, "dstack", "np.dstack._implementation", "np.vstack._implementation", ("C06-R1",)),
    Mutant("helper-func-swap", AF, "outer", "product_helper(a, b, out, np.outer)", "product_helper(a, b, out, np.dot)", ("C06-R1",)),
    Mutant("ptp-uses-diff", AF, "ptp", "diff_helper(np.ptp, a", "diff_helper(np.diff, a", ("C06-R1",)),
    Mutant("drop-kwargs", AF, "cross", "np.cross._implementation(np.asarray(a), np.asarray(b), *args, **kwargs)", "np.cross._implementation(np.asarray(a), np.asarray(b), *args)", ("C06-R2",)),
    Mutant("drop-args-in-helper", AF, "diff_helper", "func._implementation(np.asarray(arr), *args, **kwargs)", "func._implementation(np.asarray(arr), **kwargs)", ("C06-R2",)),
    Mutant("ignore-param", AF, "around", "decimals=decimals) * ret_units", "decimals=0) * ret_units", ("C06-R3", "C06-R2")),
    Mutant("swap-operands", AF, "cross", "np.asarray(a), np.asarray(b), *args", "np.asarray(b), np.asarray(a), *args", ("C06-R3",)),
    Mutant("swap-in-helper", AF, "product_helper", "return func._implementation(np.asarray(a), np.asarray(b)) * prod_units", "return func._implementation(np.asarray(b), np.asarray(a)) * prod_units", ("C06-R3",)),
    Mutant("transform-data", AF, "trace", "np.trace._implementation(np.asarray(a),", "np.trace._implementation(np.abs(np.asarray(a)),", ("C06-R3",)),
    Mutant("kw-crossed", AF, "take", "axis=axis, out=out_view, mode=mode", "axis=mode, out=out_view, mode=axis", ("C06-R3",)),
    Mutant("where-xy-swapped", AF, "where", "condition, np.asarray(x), np.asarray(y), *args", "condition, np.asarray(y), np.asarray(x), *args", ("C06-R3",)),
    Mutant("out-copy", AF, "around", "out=np.asarray(out)", "out=np.array(out, copy=True)", ("C06-R4",)),
    Mutant("out-no-units", AF, "concatenate", '    if getattr(out, "units", None) is not None:\n        out.units = ret_units\n', "", ("C06-R4",)),
    Mutant("argsort-order", ARR, "unyt_array.argsort", "argsort(axis, kind, order)", "argsort(axis, order, kind)", ("C06-R5",)),
    Mutant("dot-asarray", ARR, "unyt_array.dot", "np.asarray(b), out=out_view", "np.asarray(self), out=out_view", ("C06-R5",)),
    Mutant("dot-out-unyt", ARR, "unyt_array.dot", "np.asarray(b), out=out_view", "np.asarray(b), out=out", ("C06-R5",)),
    Mutant("dispatch-drops-kwargs", ARR, "unyt_array.__array_function__", "return func._implementation(*args, **kwargs)", "return func._implementation(*args)", ("C06-R6",)),
    Mutant("twin-local-alias", AF, "cross", "np.cross._implementation(np.asarray(a), np.asarray(b), *args, **kwargs)", "np.cross._implementation(np.asanyarray(a), np.asarray(b), *args, **kwargs)", (), benign=True),
    Mutant("twin-kw-form", AF, "around", "np.around._implementation(np.asarray(a), decimals=decimals) * ret_units", "np.around._implementation(np.asarray(a), decimals) * ret_units", (), benign=True),
    Mutant("comp-helper-swaps-operands", AF, "_array_comp_helper", "    if bu != au and au != NULL_UNIT and bu != NULL_UNIT:", "    if au == NULL_UNIT and bu != NULL_UNIT:\n        a, au, b, bu = b, bu, a, au\n    if bu != au and au != NULL_UNIT and bu != NULL_UNIT:", ("C06-R3",)),
    Mutant("take-method-default-clip", ARR, "unyt_array.take", 'mode="raise"', 'mode="clip"', ("C06-R8",)),
    Mutant("handler-default-differs", AF, "around", "decimals=0", "decimals=1", ("C06-R8",)),
    Mutant("array-equal-none-sentinel", AF, "array_equal", 'getattr(a1, "units", NULL_UNIT)', 'getattr(a1, "units", None)', ("C06-R7",)),
    Mutant("histogram2d-range-units-of-x-twice", AF, "_histogram2d", 'units=[getattr(x, "units", None), getattr(y, "units", None)]', 'units=[getattr(x, "units", None), getattr(x, "units", None)]', ("C06-R3",)),
    Mutant("svd-reads-compute-uv-from-kwargs", AF, "linalg_svd", "def linalg_svd(a, full_matrices=True, compute_uv=True, *args, **kwargs):", "def linalg_svd(a, *args, **kwargs):\n    full_matrices, compute_uv = kwargs.pop('full_matrices', True), kwargs.get('compute_uv', True)", ("C06-R10",)),
    Mutant("around-out-arm-drops-decimals", AF, "around", "np.asarray(a), decimals=decimals, out=np.asarray(out)", "np.asarray(a), out=np.asarray(out)", ("C06-R9",)),
    Mutant("histogram-live-arm-drops-bins", AF, "_histogram", "            bins=bins,\n            range=range,\n            density=density,\n            weights=np.asarray(weights) if weights is not None else None,\n        )", "            range=range,\n            density=density,\n            weights=np.asarray(weights) if weights is not None else None,\n        )", ("C06-R9",)),
    Mutant("histogram2d-live-arm-drops-weights", AF, "_histogram2d", "            density=density,\n            weights=np.asarray(weights) if weights is not None else None,\n        )", "            density=density,\n        )", ("C06-R9",)),
    Mutant("twin-linspace-kwargs-literal", AF, "_linspace", '        "axis": axis,\n    }', '        "axis": axis,\n    }\n    kwargs = dict(kwargs)', (), benign=True),
    Mutant("histogramdd-array-not-transposed", AF, "_histogramdd", "sample = [sample] if sample.ndim == 1 else list(sample.T)", "sample = [sample] if sample.ndim == 1 else list(sample)", ("C06-R3",)),
    Mutant("histogramdd-1d-test-negated", AF, "_histogramdd", "sample = [sample] if sample.ndim == 1 else list(sample.T)", "sample = [sample] if sample.ndim != 1 else list(sample.T)", ("C06-R3",)),
    Mutant("histogramdd-rows-as-coordinates", AF, "_histogramdd", "    if isinstance(sample, np.ndarray):\n        # an (N, D) array holds one point per row, whereas NumPy reads a\n        # sequence as D coordinate arrays: split the array into its columns\n        sample = [sample] if sample.ndim == 1 else list(sample.T)\n", "", ("C06-R3",)),
]
