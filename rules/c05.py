"""C05 - unit objects form a consistent multiplicative algebra."""

from __future__ import annotations

import ast

from engine.core import sha, AnalysisError, Repo, kwarg_of, norm, walk_no_nested
from engine.mutate import Mutant
from engine.report import Result
from rules import c02
from rules.common import bind_call

TECHNIQUE = "homomorphism-shape rule on Unit arithmetic (shared with C02-R3), attribute-footprint rule for __eq__/__hash__, receiver-freshness (who-may-call) rule for the mutating simplify(), hand-over rule for _cancel_mul"
LEVEL_TEXT = """Static: (R1) scale and dimension are carried homomorphically - in Unit.__mul__/__truediv__/__pow__ the three
parallel representations expr/base_value/dimensions are built by the same operator on the same operands, __rmul__ and
__rtruediv__ reduce to them, as_coeff_unit divides the scale by exactly the coefficient it strips, and every result is
created in the left operand's registry; (R2) Unit.__eq__ reads exactly scale, offset and dimension of both operands (never
the expression, registry or LaTeX form) after an isinstance test, and __hash__ reads exactly the registry's unit_system_id
and the expression; (R3) the in-place simplify() is only ever called on temporaries inside the library, never on a unit a
caller or a cache can hold; (R4) the numeric factor that _cancel_mul removes from the expression is the scale of the
cancelled pair and is removed only when the pair is dimensionless.
(R1, extended) decision table of Unit * Unit and Unit / Unit over abstract units living in registries of their own, with the Unit(...) constructor modelled: scale of the result, commutativity of the surviving offset, left operand's registry; (R5) every base dimension is a sympy Symbol declared positive and spelled '(<name>)'."""
LEVEL_NOTE = """Undecided: commutativity, associativity and the power laws themselves - they depend on sympy's canonical
forms and float rounding of base_value; only the structure that makes the (scale, dimension) map a homomorphism is checked."""
EXPLANATION = LEVEL_TEXT
ASSUMPTIONS = ["sympy expressions compare and hash structurally"]

UO = "unyt/unit_object.py"
ARR = "unyt/array.py"


def power_offset_rule(repo, res):
    """C05-R8: Unit.__pow__ treats an offset the way its siblings __mul__ / __truediv__ do.  On every returning path the
    constructed unit either (a) belongs to a receiver whose offset is known to be zero on that path, or (b) is built
    under exponent 1 and carries the receiver's offset; any other power of an offset unit must not return (u**1 must
    equal u, and a unit that prints as an offset scale while converting as an absolute one is not the unit its text
    denotes)."""
    from engine.flow import enum_paths, fact_get, path_facts

    r8 = res.rule("C05-R8", "Unit.__pow__: u**1 keeps the offset of u, any other power of an offset unit is refused (sibling agreement with __mul__ / __truediv__)", floor=2)
    uo = repo.mod(UO)
    fn = uo.func("Unit.__pow__")
    new = uo.func("Unit.__new__")
    res.fn(fn)
    pname = fn.params[1]
    n = 0
    for path in enum_paths(fn.body):
        if path[-1][0] != "return":
            continue
        fm = {t: tr for t, tr, _ in path_facts(path)}
        env = {}
        for ev in path:
            if ev[0] in ("stmt",) and isinstance(ev[1], ast.Assign) and len(ev[1].targets) == 1 and isinstance(ev[1].targets[0], ast.Name):
                env[ev[1].targets[0].id] = ev[1].value
        ret = path[-1][1].value
        calls = [c for c in ast.walk(ret) if isinstance(c, ast.Call) and norm(c.func) in ("Unit", "cls", "type(self)")] if ret is not None else []
        if not calls:
            if ret is not None and norm(ret) == "self":
                is_one = fact_get(fm, f"{pname} == 1") is True or fact_get(fm, f"{pname} != 1") is False
                n += 1
                res.check(is_one, f"__pow__:returns-self:{sha(str(sorted(fm.items())))[:6]}", fn.where(path[-1][1]), "Unit.__pow__ returns the receiver itself only for exponent 1", rid=r8)
                continue
            raise AnalysisError(f"{fn.where()}: a returning path of Unit.__pow__ does not construct a Unit")
        b = bind_call(calls[0], new, skip_self=True)
        off = b.get("base_offset")
        while isinstance(off, ast.Name) and off.id in env:
            off = env[off.id]
        off_txt = norm(off) if off is not None else None
        has_offset = fact_get(fm, "self.base_offset")
        if has_offset is None:
            t = fact_get(fm, "self.base_offset != 0.0")
            has_offset = t if t is not None else fact_get(fm, "self.base_offset != 0")
        if has_offset is None:
            t = fact_get(fm, "self.base_offset == 0.0")
            has_offset = (not t) if t is not None else None
        is_one = fact_get(fm, f"{pname} == 1") is True or fact_get(fm, f"{pname} != 1") is False
        key = f"__pow__:{'offset' if has_offset else 'no-offset' if has_offset is False else 'any'}:{'p=1' if is_one else 'any-p'}"
        n += 1
        if has_offset is False:
            # zero offset: passing it on or leaving the default are the same unit
            res.check(off_txt in (None, "0.0", "0", "self.base_offset"), key, fn.where(calls[0]), "a unit without offset raised to a power has no offset", "0.0", off_txt, rid=r8)
        elif is_one:
            res.check(off_txt == "self.base_offset", key, fn.where(calls[0]), "u**1 is built without the offset of u: Unit('degC')**1 prints as degC but converts as an absolute scale (5 degC -> 5 K)", "base_offset=self.base_offset", off_txt, rid=r8)
        else:
            res.bad(key, fn.where(calls[0]), "Unit.__pow__ returns a power of a unit whose offset may be non-zero: the offset is dropped silently (Unit('degC')**1 != Unit('degC'); Unit('degC')**2 is a unit although degC*degC is refused)", "InvalidUnitOperation for p != 1, base_offset=self.base_offset for p == 1", f"base_offset={off_txt} on a path where neither `self.base_offset` is false nor `{pname} == 1`", rid=r8)
    if n < 2:
        raise AnalysisError(f"{fn.where()}: fewer than two returning paths distinguished by the receiver's offset")


def check(repo: Repo) -> Result:
    res = Result("C05")
    # R1: homomorphism (same analysis as C02-R3, reported under this property)
    tmp = Result("C02")
    c02.homomorphism(repo, tmp)
    r1 = res.rule("C05-R1", "homomorphism structure of Unit arithmetic; reflected operators; result registry", floor=18)
    st = tmp.rules["C02-R3"]
    bad_keys = {f.key.split("/", 1)[1]: f for f in tmp.findings}
    for k in st["keys"]:
        if k in bad_keys:
            f = bad_keys[k]
            res.bad(k, f.where, f.msg, f.expected, f.found, rid=r1)
        else:
            res.ok(k, r1)
    uo = repo.mod(UO)
    fn = uo.func("Unit.__rmul__")
    res.fn(fn)
    rets = [n for n in walk_no_nested(fn.node) if isinstance(n, ast.Return)]
    res.check(len(rets) == 1 and norm(rets[0].value) == f"self.__mul__({fn.params[1]})", "__rmul__", fn.where(), "u * x and x * u must be the same computation", rid=r1)
    fn = uo.func("Unit.__rtruediv__")
    res.fn(fn)
    rets = [n for n in walk_no_nested(fn.node) if isinstance(n, ast.Return)]
    res.check(len(rets) == 1 and norm(rets[0].value) in (f"{fn.params[1]} * self ** (-1)", f"{fn.params[1]} * self ** -1", f"self ** -1 * {fn.params[1]}"), "__rtruediv__", fn.where(), "x / u must be x * u**-1", found=norm(rets[0].value) if rets else None, rid=r1)
    new = uo.func("Unit.__new__")
    for m in ("__mul__", "__truediv__", "__pow__", "as_coeff_unit"):
        fn = uo.func(f"Unit.{m}")
        calls = [c for c in walk_no_nested(fn.node) if isinstance(c, ast.Call) and norm(c.func) == "Unit"]
        ok = bool(calls)
        for c in calls:
            b = bind_call(c, new)
            ok &= norm(b.get("registry")) == "self.registry" if b.get("registry") is not None else False
        res.check(ok, f"{m}:registry", fn.where(), f"the result of Unit.{m} must be created in the left operand's registry", "registry=self.registry", [norm(c)[:80] for c in calls], rid=r1)

    # decision table of Unit * Unit and Unit / Unit over abstract units (each in a registry of its own): the result
    # record is what the modelled Unit(...) call (or the operand that was copied) says
    from engine.dtable import Rec
    from rules import c08

    for dunder, sym in (("__mul__", "*"), ("__truediv__", "/")):
        fn = uo.func(f"Unit.{dunder}")
        rows = c08.unit_op_table(repo, dunder)
        wrong_reg, wrong_scale, asym = [], [], []
        n_ret = 0
        for (an, bn), (a_, b_, out) in rows.items():
            if out.kind != "return":
                continue
            if not isinstance(out.value, Rec):
                raise AnalysisError(f"{fn.where()}: Unit.{dunder}({an}, {bn}) returns something that is not a modelled unit: {out.value!r}")
            n_ret += 1
            r = out.value.attrs
            if r.get("registry") is not a_.attrs["registry"]:
                wrong_reg.append(f"{an} {sym} {bn} is created in {r.get('registry')}")
            want = a_.attrs["base_value"] * b_.attrs["base_value"] if sym == "*" else a_.attrs["base_value"] / b_.attrs["base_value"]
            got = r.get("base_value")
            if not isinstance(got, float) or abs(got - want) > 1e-12 * abs(want):
                wrong_scale.append(f"{an} {sym} {bn} has scale {got}, expected {want}")
            if sym == "*":
                o2 = rows[(bn, an)][2]
                off2 = o2.value.attrs.get("base_offset") if o2.kind == "return" and isinstance(o2.value, Rec) else o2.kind
                if off2 != r.get("base_offset"):
                    asym.append(f"{an} * {bn} has offset {r.get('base_offset')} but {bn} * {an} has {off2}")
        if n_ret < 20:
            raise AnalysisError(f"{fn.where()}: decision table of Unit.{dunder} has only {n_ret} returning rows")
        res.check(not wrong_reg, f"{dunder}:table-registry", fn.where(), f"Unit.{dunder} over {n_ret} returning operand pairs: the result lives in the left operand's registry" + (f" - {wrong_reg[0]}" if wrong_reg else ""), "left operand's registry", wrong_reg[:3], rid=r1)
        res.check(not wrong_scale, f"{dunder}:table-scale", fn.where(), f"Unit.{dunder}: the scale of the result is the product / quotient of the operands' scales" + (f" - {wrong_scale[0]}" if wrong_scale else ""), found=wrong_scale[:3], rid=r1)
        if sym == "*":
            res.check(not asym, f"{dunder}:table-commutes", fn.where(), "u * v and v * u are equal units (same offset; equality reads scale, offset, dimension)" + (f" - {asym[0]}" if asym else ""), found=asym[:3], rid=r1)

    # sibling agreement over every in-package construction of a Unit from explicit values: scale, offset, dimension and
    # registry travel together.  A site that passes the scale but leaves one of the others out gets the constructor's
    # default for it (offset 0.0, default registry) - the unit then no longer equals the one it was derived from.
    CTOR_EXCEPT = {}
    n_sites = 0
    for mod_ in repo.mods(only_anchor=False):
        for q_, fns_ in mod_.funcs.items():
            for f_ in fns_:
                for c_ in walk_no_nested(f_.node):
                    if not (isinstance(c_, ast.Call) and (norm(c_.func) == "Unit" or (norm(c_.func) == "cls" and mod_.rel == UO and q_.startswith("Unit.")))):
                        continue
                    b_ = bind_call(c_, new, skip_self=True)
                    if b_.get("base_value") is None:
                        continue
                    n_sites += 1
                    missing = [a_ for a_ in ("base_offset", "dimensions", "registry") if b_.get(a_) is None and a_ not in CTOR_EXCEPT.get(q_, {})]
                    res.check(not missing, f"ctor-complete:{mod_.rel.split('/')[-1]}:{q_}", f_.where(c_), f"{q_} builds a Unit from an explicit scale but leaves out {missing}: the constructor's default (offset 0.0 / dimensions looked up / default registry) replaces the value of the unit it was derived from - all sibling constructions pass scale, offset, dimensions and registry together", "base_value, base_offset, dimensions and registry", sorted(k for k in b_ if k in ("base_value", "base_offset", "dimensions", "registry")), rid=r1)
    if n_sites < 6:
        raise AnalysisError(f"only {n_sites} Unit constructions with an explicit scale found")

    power_offset_rule(repo, res)
    r9 = res.rule("C05-R9", "Unit.__pow__ rationalises the exponent no more coarsely than sympy's default bound (denominators up to 10**6 are kept): (u**p)**q == u**(p*q) needs p*q itself, not a nearby simpler fraction", floor=1)
    fnp = uo.func("Unit.__pow__")
    for c in walk_no_nested(fnp.node):
        if isinstance(c, ast.Call) and isinstance(c.func, ast.Attribute) and c.func.attr == "limit_denominator":
            bound = None
            arg = c.args[0] if c.args else kwarg_of(c, "max_denominator")
            if arg is None:
                ok = True
            else:
                try:
                    bound = eval(compile(ast.Expression(arg), "<bound>", "eval"), {"__builtins__": {}}, {})
                    ok = isinstance(bound, int) and bound >= 10**6
                except Exception:
                    raise AnalysisError(f"{fnp.where(c)}: bound of limit_denominator is not a literal")
            res.check(ok, "__pow__:exponent-bound", fnp.where(c), f"the exponent is snapped to a fraction with denominator <= {bound}: (m**(1/8))**(1/16) becomes m**(1/100) instead of m**(1/128), and Unit('m**0.005') != Unit('m')**0.005", "limit_denominator() with sympy's default bound (10**6) or wider", norm(c), rid=r9)

    # R5: the power laws are computed by sympy on the dimension expressions: (x**a)**b collapses to x**(a*b) for
    # fractional b only when x is known to be positive.  Every base dimension must therefore be a positive Symbol
    # (sibling agreement over the entries of base_dimensions), spelled "(<its name>)"
    r5 = res.rule("C05-R5", "every base dimension is a sympy Symbol declared positive (otherwise (u**p)**q and u**(p*q) have different dimension expressions)", floor=8)
    dm = repo.mod("unyt/dimensions.py")
    bd = dm.assign("base_dimensions")
    if not isinstance(bd, (ast.List, ast.Tuple)):
        raise AnalysisError("unyt/dimensions.py: base_dimensions is not a literal list")
    for e in bd.elts:
        nm = norm(e)
        d = dm.assigns.get(nm)
        if not d or len(d) != 1:
            raise AnalysisError(f"unyt/dimensions.py: definition of base dimension {nm} not found")
        d = d[0]
        if isinstance(d, ast.Call) and norm(d.func) in ("sympify", "S", "Integer") and len(d.args) == 1 and isinstance(d.args[0], ast.Constant) and d.args[0].value == 1:
            res.ok(f"dimension:{nm}:one", r5)
            continue
        is_sym = isinstance(d, ast.Call) and dm.qual(d.func) in ("sympy.Symbol", "sympy.core.symbol.Symbol") and d.args and isinstance(d.args[0], ast.Constant)
        pos = kwarg_of(d, "positive") if is_sym else None
        res.check(is_sym and isinstance(pos, ast.Constant) and pos.value is True, f"dimension:{nm}:positive", f"unyt/dimensions.py {nm}", f"base dimension {nm} must be Symbol(..., positive=True): without the assumption sympy keeps ((x)**2)**(1/2) unevaluated, so (cd**2)**0.5 is not cd", "Symbol('(" + nm + ")', positive=True)", norm(d), rid=r5)
        res.check(is_sym and d.args[0].value == f"({nm})", f"dimension:{nm}:spelling", f"unyt/dimensions.py {nm}", "a base dimension prints as its own name in parentheses (that text is what JSON stores and what unit text is re-read against)", f"({nm})", norm(d.args[0]) if is_sym else norm(d), rid=r5)

    # R2: footprint of == and hash
    r2 = res.rule("C05-R2", "Unit.__eq__ reads exactly base_value, base_offset, dimensions (after isinstance); __hash__ reads exactly registry.unit_system_id and expr", floor=3)
    fn = uo.func("Unit.__eq__")
    res.fn(fn)
    other = fn.params[1]
    attrs_self, attrs_other = set(), set()
    for n in ast.walk(fn.node):
        if isinstance(n, ast.Attribute) and isinstance(n.value, ast.Name):
            if n.value.id == "self":
                attrs_self.add(n.attr)
            elif n.value.id == other:
                attrs_other.add(n.attr)
    want = {"base_value", "base_offset", "dimensions"}
    res.check(attrs_self == want and attrs_other == want, "eq-footprint", fn.where(), "equality must be decided by scale, offset and dimension of both operands only", sorted(want), (sorted(attrs_self), sorted(attrs_other)), rid=r2)
    rets = [n for n in walk_no_nested(fn.node) if isinstance(n, ast.Return)]
    ok = False
    if len(rets) == 1 and isinstance(rets[0].value, ast.BoolOp) and isinstance(rets[0].value.op, ast.And):
        vals = rets[0].value.values
        ok = norm(vals[0]) == f"isinstance({other}, Unit)"
        txt = [norm(v) for v in vals[1:]]
        ok &= f"math.isclose(self.base_value, {other}.base_value)" in txt and f"math.isclose(self.base_offset, {other}.base_offset)" in txt
        dimtest = [v for v in vals[1:] if "dimensions" in norm(v)]
        ok &= len(dimtest) == 1 and f"self.dimensions == {other}.dimensions" in norm(dimtest[0])
        ok &= len(vals) == 4
    res.check(ok, "eq-shape", fn.where(), "equality is the conjunction isinstance and scale ~ scale and offset ~ offset and dimensions equal (== fallback present)", found=norm(rets[0].value) if rets else None, rid=r2)
    fn = uo.func("Unit.__hash__")
    res.fn(fn)
    reads = set()
    for n in ast.walk(fn.node):
        if isinstance(n, ast.Attribute):
            ch = norm(n)
            if ch.startswith("self."):
                reads.add(ch)
    reads = {r for r in reads if not any(o != r and o.startswith(r + ".") for o in reads)}
    res.check(reads == {"self.registry.unit_system_id", "self.expr"}, "hash-footprint", fn.where(), "hash must depend on the registry contents id and the expression only", ["self.expr", "self.registry.unit_system_id"], sorted(reads), rid=r2)

    # R3: simplify() receivers
    r3 = res.rule("C05-R3", "the mutating simplify() is only called on temporaries inside the library", floor=4)
    sfn = uo.func("Unit.simplify")
    stores = [n for n in walk_no_nested(sfn.node) if isinstance(n, ast.Assign) and norm(n.targets[0]) == "self.expr"]
    pure_simplify = not stores and not any(isinstance(n, (ast.AugAssign, ast.Delete)) for n in walk_no_nested(sfn.node))
    if pure_simplify:
        # a simplify() that no longer rewrites its receiver (it returns a new unit): the aliasing hazard is gone, and
        # what matters instead is that no call site relies on the old in-place effect (a bare `u.simplify()` statement)
        res.ok("simplify-mutates", r3)
    else:
        res.check(len(stores) == 1, "simplify-mutates", sfn.where(), "simplify rewrites self.expr in more than one place (the receiver analysis below assumes a single in-place rewrite)", rid=r3)
    n_sites = 0
    for mod in repo.mods(only_anchor=False):
        for q, fns in mod.funcs.items():
            for f in fns:
                for c in walk_no_nested(f.node):
                    if isinstance(c, ast.Call) and isinstance(c.func, ast.Attribute) and c.func.attr == "simplify" and not c.args:
                        recv = c.func.value
                        n_sites += 1
                        fresh = isinstance(recv, (ast.BinOp, ast.Call))
                        if pure_simplify:
                            stmt_only = any(isinstance(st_, ast.Expr) and st_.value is c for st_ in walk_no_nested(f.node))
                            res.check(not stmt_only, f"{mod.rel.split('/')[-1]}:{q}:{norm(recv)[:40]}", f.where(c), "simplify() returns a new unit and no longer rewrites its receiver, but this call discards the result: the unit is left unsimplified", "result of simplify() used", norm(c), rid=r3)
                            continue
                        res.check(fresh, f"{mod.rel.split('/')[-1]}:{q}:{norm(recv)[:40]}", f.where(c), "simplify() rewrites its receiver in place; calling it on a named / shared unit changes that unit's expression (and hash) for every holder", "receiver is a temporary (result of an operation)", norm(recv), rid=r3)

    # a receiver written as `a * b` is a temporary only if the operator builds a new object on every path: an
    # identity shortcut (`return self` for a dimensionless factor) would hand the caller's own unit to simplify()
    from rules.common import unit_operators_returning_operand

    for mf, shared in unit_operators_returning_operand(repo):
        res.fn(mf)
        res.check(not shared, f"operator-result-fresh:{mf.qualname}", mf.where(), f"{mf.qualname} returns one of its operands unchanged on some path; the library applies the in-place simplify() to operator results ((unit1 * unit2).simplify()), which would then rewrite the operand's own expression (and hash) although the call is documented to return a new object", "a newly built Unit on every path", shared, rid=r3)

    # R4: _cancel_mul hand-over
    r4 = res.rule("C05-R4", "_cancel_mul: the factor that replaces a cancelled pair is the pair's scale, only for a dimensionless pair", floor=3)
    fn = uo.func("_cancel_mul")
    res.fn(fn)
    from engine.sem import summarise

    loops = [n for n in fn.body if isinstance(n, ast.While)]
    if len(loops) != 1:
        raise AnalysisError(f"{fn.where()}: pair loop not found")
    ex, rg = fn.params[0], fn.params[1]
    sums = summarise(fn, body=loops[0].body, keep={rg, "pairs_to_consider", "uncancelable_pairs"})
    # the pair under consideration (a local bound from the work list)
    pv = None
    for x in sums:
        for e in x.effects:
            if e.endswith("= pairs_to_consider.pop()"):
                pv = e.split(" = ")[0]
    if pv is None:
        raise AnalysisError(f"{fn.where()}: the pair taken from the work list was not found")
    P = f"(_create_unit_from_factor({pv}[0], {rg}) * _create_unit_from_factor({pv}[1], {rg}))"
    DIM = [f"{P}.dimensions == 1", f"{P}.dimensions == sympy_one", f"{P}.dimensions is sympy_one"]
    ok_dim = ok_both = ok_scale = ok_prod = True
    n_c = n_u = 0
    found = []
    for x in sums:
        writes = [e for e in x.effects if e.startswith(f"{ex} =") or e.startswith(f"{ex} *=") or e.startswith(f"{ex} /=")]
        dimless = any(x.has(d, True) for d in DIM)
        notdim = any(x.has(d, False) for d in DIM)
        if writes:
            found.append(writes)
            n_c += 1
            ok_dim &= dimless
            removal = (f"{ex}={ex}/{pv}[0]/{pv}[1]", f"{ex}={ex}/({pv}[0]*{pv}[1])", f"{ex}={ex}/{pv}[1]/{pv}[0]")
            flat = [w.replace(" ", "") for w in writes]
            ok_both &= any(any(w.startswith(r_) for r_ in removal) for w in flat)
            unit_scale = x.has(f"{P}.base_value == 1", True)
            scale_forms = [f"{P}.base_value".replace(" ", ""), f"int({P}.base_value)".replace(" ", "")]
            # the scale is multiplied back either by a separate `expr *= scale` or within the same re-binding
            scaled = [w for w in flat if any(w == f"{ex}*={sf}" or any(w == r_ + "*" + sf for r_ in removal) for sf in scale_forms)]
            ok_scale &= bool(scaled) != unit_scale and (unit_scale or len(scaled) == 1)
        elif notdim:
            n_u += 1
        if dimless or notdim:
            ok_prod &= True
    ok_prod = any(any(x.has(d, True) or x.has(d, False) for d in DIM) for x in sums)
    res.check(ok_dim and n_c >= 1, "only-dimensionless", fn.where(), "a pair may be cancelled only when its product is dimensionless", DIM[0], found[:2], rid=r4)
    res.check(ok_both and n_c >= 1, "remove-both", fn.where(), "both members of the cancelled pair are divided out of the expression", f"{ex} = {ex} / {pv}[0] / {pv}[1]", found[:2], rid=r4)
    res.check(ok_scale and n_c >= 2, "reinsert-scale", fn.where(), "the pair's scale (the product's base_value) is multiplied back into the expression whenever it is not 1", f"{ex} *= {P}.base_value", found[:3], rid=r4)
    res.check(ok_prod and n_u >= 1, "pair-product", fn.where(), "the unit tested and whose scale is re-inserted is the product of the units of exactly the two factors that are removed", P, [sorted(x.facts)[:1] for x in sums][:2], rid=r4)
    # the helpers behind simplify() are evaluated against the registry's *current* table (no identity-keyed memo)
    from rules import memo_rules

    reach = memo_rules.reachable_functions(repo, UO, ["Unit.simplify", "_cancel_mul"], depth=3)
    n_m = 0
    for key, ok, where, msg, exp, found in memo_rules.cached_identity_params(repo, only_functions=reach):
        n_m += 1
        res.check(ok, "simplify-helper:" + key, where, msg + " - simplify()/as_coeff_unit() would then fold in the scale a symbol had before the edit, and the simplified form no longer denotes the same unit", exp, found, rid=r4)
    if not n_m:
        res.ok("simplify-helpers-not-memoised-by-registry-identity", r4)
    cf = uo.func("_create_unit_from_factor")
    # value flow with the locals substituted (engine.sem.summarise): independent of how many temporaries hold the row
    from engine.sem import summarise as _summ

    fac, rg = cf.params[0], cf.params[1]
    rets = [(x.value, x.effects) for x in _summ(cf) if x.kind == "return"]
    row = f"{rg}[str(base)]"
    want_v = f"Unit(base, {row}[0], {row}[2], {row}[1], {rg}, {row}[3]) ** exp"
    res.check(len(rets) == 1 and rets[0][0] == want_v and rets[0][1] == [f"base, exp = {fac}.as_base_exp()"], "factor-unit", cf.where(), "a factor's unit is the registry row of its base raised to the factor's own exponent", want_v, rets, rid=r4)

    from rules import c04
    from rules.common import share

    r7 = res.rule("C05-R7", "the unit rules behind np.sqrt / cbrt / square / reciprocal / power are the power law of Unit objects (rule(u) == u**p for every u, also a scaled dimensionless one; shared with C04-R1)", floor=5)
    share(res, r7, "C04", lambda t: c04.signatures(repo, t), ["C04-R1"], want=lambda k: k.split("->")[0] in ("sqrt", "cbrt", "square", "reciprocal", "power", "float_power"), min_keys=5)
    return res


MUTANTS = [
    Mutant("mul-dims-wrong", UO, "Unit.__mul__", "dimensions=(self.dimensions * u.dimensions)", "dimensions=(self.dimensions / u.dimensions)", ("C05-R1",)),
    Mutant("rtruediv-no-inverse", UO, "Unit.__rtruediv__", "return u * self**-1", "return u * self", ("C05-R1",)),
    Mutant("pow-default-registry", UO, "Unit.__pow__", "            dimensions=(self.dimensions**p),\n            registry=self.registry,", "            dimensions=(self.dimensions**p),", ("C05-R1",)),
    Mutant("eq-compares-expr", UO, "Unit.__eq__", "isinstance(u, Unit)\n            and", "isinstance(u, Unit)\n            and self.expr == u.expr\n            and", ("C05-R2",)),
    Mutant("eq-ignores-offset", UO, "Unit.__eq__", "            and math.isclose(self.base_offset, u.base_offset)\n", "", ("C05-R2",)),
    Mutant("hash-scale", UO, "Unit.__hash__", "hash(self.expr)", "hash(self.base_value)", ("C05-R2",)),
    Mutant("simplify-shared", ARR, "_multiply_units", "ret = (unit1 * unit2).simplify()", "ret = unit1.simplify() * unit2", ("C05-R3",)),
    Mutant("cancel-scale-dropped", UO, "_cancel_mul", "            value = prod.base_value\n", "            value = 1.0\n", ("C05-R4",)),
    Mutant("cancel-nondimensionless", UO, "_cancel_mul", "if prod.dimensions == 1:", "if prod.dimensions == 1 or True:", ("C05-R4",)),
    Mutant("twin-eq-order", UO, "Unit.__eq__", "            and math.isclose(self.base_value, u.base_value)\n            and math.isclose(self.base_offset, u.base_offset)\n", "            and math.isclose(self.base_offset, u.base_offset)\n            and math.isclose(self.base_value, u.base_value)\n", (), benign=True),
    Mutant("mul-offset-from-dimensionless-side", UO, "Unit.__mul__", "            if u.dimensions in (temperature, angle) and self.is_dimensionless:\n                base_offset = u.base_offset", "            if u.dimensions in (temperature, angle) and self.is_dimensionless:\n                base_offset = self.base_offset", ("C05-R1",)),
    Mutant("mul-null-fastpath-right-registry", UO, "Unit.__mul__", "        base_offset = 0.0\n        if self.base_offset or u.base_offset:\n            if u.dimensions", "        if self.expr is sympy_one and self.base_value == 1.0:\n            return u.copy()\n        base_offset = 0.0\n        if self.base_offset or u.base_offset:\n            if u.dimensions", ("C05-R1",)),
    Mutant("mul-null-fastpath-left-copy", UO, "Unit.__mul__", "        base_offset = 0.0\n        if self.base_offset or u.base_offset:\n            if u.dimensions", "        if u.expr is sympy_one and u.base_value == 1.0:\n            return self.copy()\n        base_offset = 0.0\n        if self.base_offset or u.base_offset:\n            if u.dimensions", (), benign=True),
    Mutant("div-scale-multiplied", UO, "Unit.__truediv__", "base_value=(self.base_value / u.base_value)", "base_value=(self.base_value * u.base_value)", ("C05-R1",)),
    Mutant("dimension-not-positive", "unyt/dimensions.py", None, 'luminous_intensity = Symbol("(luminous_intensity)", positive=True)', 'luminous_intensity = Symbol("(luminous_intensity)")', ("C05-R5",)),
    Mutant("pow-coarse-exponent", UO, "Unit.__pow__", "limit_denominator()", "limit_denominator(100)", ("C05-R9",)),
    Mutant("twin-pow-explicit-default-bound", UO, "Unit.__pow__", "limit_denominator()", "limit_denominator(10**6)", (), benign=True),
    Mutant("pow-drops-offset", UO, "Unit.__pow__", "            base_value=(self.base_value**p),\n            base_offset=base_offset,\n", "            base_value=(self.base_value**p),\n", ("C05-R8", "C05-R1")),
    Mutant("pow-refuses-nothing", UO, "Unit.__pow__", "            if p != 1:\n                raise InvalidUnitOperation(", "            if p == 0:\n                raise InvalidUnitOperation(", ("C05-R8",)),
    Mutant("twin-pow-offset-test-spelled-out", UO, "Unit.__pow__", "        if self.base_offset:\n            if p != 1:", "        if self.base_offset != 0.0:\n            if p != 1:", (), benign=True),
    Mutant("as-coeff-unit-drops-offset", UO, "Unit.as_coeff_unit", "            self.base_offset,\n", "            0.0,\n", ("C05-R1",)),
    Mutant("sqrt-rule-keeps-unit", "unyt/array.py", "_sqrt_unit", "return 1, unit**0.5", "return 1, unit", ("C05-R7",)),
]
