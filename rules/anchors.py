"""Anchors located by role rather than by name (a private helper may be renamed without changing what it is)."""

from __future__ import annotations

import ast

from engine.core import AnalysisError, FuncInfo, Repo, norm

REG = "unyt/unit_registry.py"


def lookup_symbol(repo: Repo) -> FuncInfo:
    """the module-level routine of unit_registry.py that resolves a (possibly prefixed) symbol against a table:
    the function UnitRegistry.__getitem__ calls with (str(key), self.lut)"""
    reg = repo.mod(REG)
    gi = reg.func("UnitRegistry.__getitem__")
    for c in ast.walk(gi.node):
        if isinstance(c, ast.Call) and isinstance(c.func, ast.Name) and len(c.args) == 2 and norm(c.args[1]) == "self.lut" and c.func.id in reg.funcs:
            return reg.funcs[c.func.id][0]
    raise AnalysisError(f"{gi.where()}: the symbol-lookup routine called by UnitRegistry.__getitem__ was not found")
