"""Inventory and resolution of the NumPy array-function handlers
(`@implements(F)` definitions in unyt/_array_functions.py)."""

from __future__ import annotations

import ast
from dataclasses import dataclass

from engine.core import AnalysisError, FuncInfo, Repo, norm, walk_no_nested
from rules.common import bind_call

AF = "unyt/_array_functions.py"


@dataclass
class Handler:
    fn: FuncInfo
    targets: frozenset  # qualified names of the NumPy function(s) it implements
    gate: str

    @property
    def key(self):
        t = "|".join(sorted(x.replace("numpy.", "np.") for x in self.targets))
        return f"{self.fn.name}[{t}]" + (f"@{self.gate_tag}" if self.gate else "")

    @property
    def gate_tag(self):
        import hashlib

        return hashlib.sha1(self.gate.encode()).hexdigest()[:6] if self.gate else ""

    @property
    def np_name(self):
        return sorted(self.targets)[0]


def inventory(repo: Repo) -> list[Handler]:
    mod = repo.mod(AF)
    out = []
    for q, fns in mod.funcs.items():
        for f in fns:
            for d in f.decorators():
                if isinstance(d, ast.Call) and norm(d.func) == "implements" and len(d.args) == 1:
                    tg = mod.qual_all(d.args[0])
                    if not tg or not all(t.startswith("numpy") for t in tg):
                        raise AnalysisError(f"{f.where()}: cannot resolve @implements({norm(d.args[0])})")
                    out.append(Handler(f, frozenset(tg), f.gate))
    if len(out) < 100:
        raise AnalysisError(f"only {len(out)} @implements handlers found (expected >= 100)")
    return out


def module_helpers(repo: Repo):
    """module-level functions of _array_functions that are not handlers-only:
    name -> list[FuncInfo] (includes handlers, since cumulative_prod calls cumprod)"""
    mod = repo.mod(AF)
    return {q: fns for q, fns in mod.funcs.items() if "." not in q}


@dataclass
class ImplCall:
    fn: FuncInfo  # function containing the call
    call: ast.Call
    target: frozenset  # resolved numpy function(s); 'public:' prefix for public calls
    via: tuple  # chain of helper names from the handler


def impl_calls(repo: Repo, fn: FuncInfo, bindings=None, via=(), depth=0):
    """all X._implementation(...) call sites reachable from fn, resolving
    function-valued parameters through ``bindings`` (param -> frozenset of
    qualnames) and following calls to module-level helpers (depth <= 3)."""
    mod = fn.mod
    helpers = module_helpers(repo)
    bindings = bindings or {}
    out = []
    unresolved = []
    for c in walk_no_nested(fn.node):
        if not isinstance(c, ast.Call):
            continue
        f = c.func
        if isinstance(f, ast.Attribute) and f.attr == "_implementation":
            base = f.value
            if isinstance(base, ast.Name) and base.id in bindings:
                tg = bindings[base.id]
            else:
                tg = frozenset(mod.qual_all(base))
            if not tg or not all(t.startswith("numpy") for t in tg):
                unresolved.append(c)
                continue
            out.append(ImplCall(fn, c, tg, via))
        elif isinstance(f, ast.Name) and f.id in helpers and f.id not in fn.params and depth < 3:
            for h in helpers[f.id]:
                if h.gate and fn.gate and h.gate != fn.gate and not _compatible(h.gate, fn.gate):
                    continue
                try:
                    b = bind_call(c, h, skip_self=False)
                except AnalysisError:
                    continue
                nb = {}
                for p, a in b.items():
                    if isinstance(a, ast.AST):
                        if isinstance(a, ast.Name) and a.id in bindings:
                            nb[p] = bindings[a.id]
                        elif isinstance(a, (ast.Name, ast.Attribute)):
                            q = mod.qual_all(a)
                            if q and all(x.startswith("numpy") for x in q):
                                nb[p] = frozenset(q)
                sub, unr = impl_calls(repo, h, nb, via + (f.id,), depth + 1)
                out.extend(sub)
                unresolved.extend(unr)
        else:
            q = mod.qual(f) if isinstance(f, (ast.Name, ast.Attribute)) else None
            if q and q.startswith("numpy.") and not isinstance(f, ast.Name):
                # public NumPy call: only interesting when it is the handler's own function
                out.append(ImplCall(fn, c, frozenset({"public:" + q}), via))
    return out, unresolved


def _compatible(g1, g2):
    """two version gates are compatible unless one is literally the negation of the other"""
    return not (g1 == f"not ({g2})" or g2 == f"not ({g1})")


# ---------------------------------------------------------------------------
# where does the value of an actual argument come from?

STRIPPERS = {"np.asarray", "np.asanyarray", "np.array", "numpy.asarray"}
# helpers that legitimately convert an argument before NumPy sees it:
# name -> index of the argument whose data passes through
PASS_THROUGH_FUNCS = {"_sanitize_range": 0}


def _arm_path(fn: FuncInfo):
    """lineno -> tuple of (id(if-node), arm) for every statement of fn"""
    out = {}

    def go(stmts, ctx):
        for st in stmts:
            if not isinstance(st, (ast.If, ast.For, ast.While, ast.Try, ast.With)):
                for ln in range(st.lineno, (st.end_lineno or st.lineno) + 1):
                    out.setdefault(ln, ctx)
            else:
                out.setdefault(st.lineno, ctx)
            if isinstance(st, ast.If):
                for n in ast.walk(st.test):
                    if hasattr(n, "lineno"):
                        out.setdefault(n.lineno, ctx)
                go(st.body, ctx + ((id(st), 0),))
                go(st.orelse, ctx + ((id(st), 1),))
            elif isinstance(st, (ast.For, ast.While, ast.With)):
                go(st.body, ctx)
                go(getattr(st, "orelse", []), ctx)
            elif isinstance(st, ast.Try):
                go(st.body, ctx)
                for h in st.handlers:
                    go(h.body, ctx)
                go(st.orelse, ctx)
                go(st.finalbody, ctx)

    go(fn.node.body, ())
    return out


def _exclusive(p1, p2):
    d1 = dict(p1)
    for k, arm in p2:
        if k in d1 and d1[k] != arm:
            return True
    return False


from engine.units import ARRAY_OR_SEQUENCE_PARAMS  # noqa: E402


def source_params(expr, fn: FuncInfo, local_defs: dict, seen=frozenset(), before=None) -> set:
    """the set of parameters (or names unpacked from the vararg) from which the
    *data* of ``expr`` derives through identity / np.asarray / comprehension of
    np.asarray / conditional-None / .view / local aliases.  Contains '?' when
    the expression transforms data in a way the rule does not accept.
    Only definitions textually before the use (``before`` = line of the use)
    are considered, which is exact for the straight-line handler bodies."""
    e = expr
    if before is None:
        before = getattr(e, "lineno", None) or 10**9
    allp = set(fn.params) | ({fn.vararg} if fn.vararg else set()) | ({fn.kwarg} if fn.kwarg else set())
    if isinstance(e, ast.Constant):
        return set()
    if isinstance(e, ast.Name):
        out = set()
        arms = local_defs.get("__arms__")
        if arms is None:
            arms = local_defs["__arms__"] = _arm_path(fn)
        here = arms.get(before, ())
        defs = [
            (ln, v)
            for ln, v in local_defs.get(e.id, [])
            if ln < before and not _exclusive(arms.get(ln, ()), here)
        ]
        if e.id in allp or not defs:
            out.add(e.id)
        if defs and e.id not in seen:
            if e.id in allp and all(_unconditional(fn, ln) for ln, _ in defs):
                out.discard(e.id)  # the parameter is always re-bound before the use
            for ln, v in defs:
                out |= source_params(v, fn, local_defs, seen | {e.id}, ln)
        return out
    if isinstance(e, ast.Starred):
        return source_params(e.value, fn, local_defs, seen, before)
    if isinstance(e, ast.Call):
        f = norm(e.func)
        if f in STRIPPERS and len(e.args) == 1 and not e.keywords:
            return source_params(e.args[0], fn, local_defs, seen, before)
        if isinstance(e.func, ast.Attribute) and e.func.attr == "view" and e.args and norm(e.args[0]) == "np.ndarray":
            return source_params(e.func.value, fn, local_defs, seen, before)
        if f in PASS_THROUGH_FUNCS and len(e.args) > PASS_THROUGH_FUNCS[f]:
            return source_params(e.args[PASS_THROUGH_FUNCS[f]], fn, local_defs, seen, before)
        if f in ("list", "tuple") and len(e.args) == 1 and not e.keywords:
            a = e.args[0]
            # list(p.T): an (N, D) array split into its D columns - the sequence form NumPy documents as equivalent,
            # accepted only for the parameters of ARRAY_OR_SEQUENCE_PARAMS
            if isinstance(a, ast.Attribute) and a.attr == "T" and isinstance(a.value, ast.Name) and a.value.id in ARRAY_OR_SEQUENCE_PARAMS:
                return source_params(a.value, fn, local_defs, seen, before)
            if not isinstance(a, ast.Attribute):
                return source_params(a, fn, local_defs, seen, before)
        return {"?"}
    if isinstance(e, (ast.List, ast.Tuple)) and e.elts and not any(isinstance(x, ast.Starred) for x in e.elts):
        # [p]: the same data presented as a one-element sequence (only for array-or-sequence parameters)
        if len(e.elts) == 1 and isinstance(e.elts[0], ast.Name) and e.elts[0].id in ARRAY_OR_SEQUENCE_PARAMS:
            return source_params(e.elts[0], fn, local_defs, seen, before)
        return {"?"}
    if isinstance(e, (ast.ListComp, ast.GeneratorExp)) and len(e.generators) == 1:
        g = e.generators[0]
        tv = norm(g.target)
        el = e.elt
        if isinstance(el, ast.Call) and norm(el.func) in STRIPPERS and len(el.args) == 1 and norm(el.args[0]) == tv and not g.ifs:
            return source_params(g.iter, fn, local_defs, seen, before)
        if norm(el) == tv and not g.ifs:
            return source_params(g.iter, fn, local_defs, seen, before)
        return {"?"}
    if isinstance(e, ast.IfExp):
        return source_params(e.body, fn, local_defs, seen, before) | source_params(e.orelse, fn, local_defs, seen, before)
    if isinstance(e, ast.Subscript):
        s = source_params(e.value, fn, local_defs, seen, before)
        return {f"{x}[{norm(e.slice)}]" if x != "?" else "?" for x in s}
    return {"?"}


def _unconditional(fn, lineno):
    """is the statement at ``lineno`` a top-level statement of the function body?"""
    return any(getattr(st, "lineno", None) == lineno for st in fn.node.body)


def local_value_defs(fn: FuncInfo) -> dict:
    """name -> list of value nodes assigned to it (simple assignments only;
    parameters that are re-bound keep their own name as a source too)"""
    defs = {}
    for n in walk_no_nested(fn.node):
        if isinstance(n, ast.Assign) and len(n.targets) == 1:
            t = n.targets[0]
            if isinstance(t, ast.Name):
                defs.setdefault(t.id, []).append((n.end_lineno, n.value))
            elif isinstance(t, (ast.Tuple, ast.List)):
                # x, y, *args = args     /   a, b = helper(a, b)
                for i, el in enumerate(t.elts):
                    if isinstance(el, ast.Name):
                        defs.setdefault(el.id, []).append(
                            (n.end_lineno, ast.Subscript(value=n.value, slice=ast.Constant(value=i), ctx=ast.Load()))
                        )
                    elif isinstance(el, ast.Starred) and isinstance(el.value, ast.Name):
                        defs.setdefault(el.value.id, []).append(
                            (n.end_lineno, ast.Subscript(value=n.value, slice=ast.Slice(lower=ast.Constant(value=i)), ctx=ast.Load()))
                        )
    return defs
