"""C08 - offset temperature scales follow point/difference semantics or refuse."""

from __future__ import annotations

import ast

from engine.core import AnalysisError, Repo, is_raise_of, norm, walk_no_nested
from engine.flow import enum_paths, path_calls, path_facts
from engine.fold import DimVec, Tables
from engine.mutate import Mutant
from engine.report import Result
from rules.ufunc import ARR, UfuncAnchors, registry
from spec import ufunc_signatures as UFS

TECHNIQUE = "folded table rows of the temperature units + call-graph/path rule 'every multiplicative or power unit rule reaches an offset refusal' + path-condition rule 'a sum is labelled with the second unit only when scales are equal' + dominance of the mixed-scale guards over evaluation"
LEVEL_TEXT = """Static: (R1) the six temperature rows (K, R, degC, degF, delta_degC, delta_degF) are folded from the table and
compared exactly with the affine definitions (scale 1 or 5/9, offsets -273.15 / -459.67 / 0, prefixability); (R2) every
unit rule that the registry assigns to a product, quotient, power or root ufunc is traced to the Unit operator it uses, and
that operator must test base_offset and raise InvalidUnitOperation on every path that would otherwise build a unit -
this is what makes multiplying, dividing, squaring, rooting or raising an offset quantity refuse; (R3) since the numbers
of a sum are always computed in the left unit's scale, a preserve/difference rule may label the result with the second
unit only under path conditions that imply equal scale; (R4) the K/R-plus-offset guard and the offset-without-delta guard
raise and precede evaluation, the multiply/divide offset guard exists, and diff/ediff1d/ptp refuse offset units before
calling NumPy.
(R2, extended) where an offset unit is combined with a dimensionless partner the result keeps that unit's offset; (R6) the rules recognise temperatures by identity of the dimension symbol, so every restoration route must hand back unyt's own symbols (shared with C11-R1)."""
LEVEL_NOTE = """Undecided: the 8x8 table of numerical results of pairwise temperature operations (affine arithmetic values);
only the mechanism that decides label, scale and refusal is checked. The prefix-aware offset arithmetic of
_get_conversion_factor is checked for symmetry in C03-R3."""
EXPLANATION = LEVEL_TEXT
ASSUMPTIONS = ["arithmetic on quantities reaches the unit rules through __array_ufunc__ (C04)"]

UO = "unyt/unit_object.py"
AF = "unyt/_array_functions.py"
LUT = "unyt/_unit_lookup_table.py"

ROWS = {
    # symbol: (scale, offset, prefixable)
    "K": (1.0, 0.0, True),
    "R": (5.0 / 9.0, 0.0, False),
    "degC": (1.0, -273.15, True),
    "degF": (5.0 / 9.0, -459.67, False),
    "delta_degC": (1.0, 0.0, True),
    "delta_degF": (5.0 / 9.0, 0.0, False),
}


def check(repo: Repo) -> Result:
    res = Result("C08")
    rows(repo, res)
    refusal(repo, res)
    label_scale(repo, res)
    decision_tables(repo, res)
    guards(repo, res)
    from rules import c11
    from rules.common import share

    r6 = res.rule("C08-R6", "the point/difference rules recognise temperatures by identity (`dimensions is temperature`): every restoration route (pickle, copy, JSON) must hand back unyt's own dimension symbols, or restored readings are combined as plain numbers", floor=3)
    share(res, r6, "C11", lambda t: t.__dict__.update(c11.check(repo).__dict__), ["C11-R1a"], want=lambda k: "temperature" in k, min_keys=3)
    from rules import c01, c03
    from rules.ufunc import UfuncAnchors

    r7 = res.rule("C08-R7", "the affine map is applied on every conversion route: data * factor, then - offset on the same data, for every dtype (in-place integer readings included)", floor=3)
    share(res, r7, "C03", lambda t: c03.apply_idiom(repo, t), ["C03-R2"], want=lambda k: k in ("convert_to_units", "in_units", "in_base", "in_base:result", "in_units:offset-zeroed-only-em"), min_keys=4)
    r8 = res.rule("C08-R8", "== and != answer all-False / all-True only for the dimension errors; the refusal of two different offset scales (InvalidUnitOperation) propagates", floor=2)
    share(res, r8, "C01", lambda t: c01.eq_ne(repo, t, UfuncAnchors(repo)), ["C01-R3"], want=lambda k: k in ("__eq__", "__ne__"), min_keys=2)

    def _copy(t):
        t.rule("C11-R4", "x")
        c11.unit_copy_values(repo, t, "C11-R4")

    r9 = res.rule("C08-R9", "a copied or deep-copied offset unit keeps its zero point: Unit.copy hands scale, offset and dimension of the original to the copy (a deep-copied 100 degC must still convert to 212 degF and still be refused by * / **; shared with C11-R4)", floor=1)
    share(res, r9, "C11", _copy, ["C11-R4"], want=lambda k: k == "Unit.copy:values")
    from rules import c02

    r10 = res.rule("C08-R10", "the refusal of arithmetic between readings on different scales (degC + degF, degC + mdegC) is keyed on the offset the conversion factor routine reports: that routine leaves the offset out only when neither unit has one - a shortcut that returns (ratio, None) for two offset units (prefixed forms of one scale, 'same zero point') silently switches the refusal off (shared with C02-R4)", floor=4)
    share(res, r10, "C02", lambda t: c02.ratio_direction(repo, t), ["C02-R4"], min_keys=4)
    return res


def rows(repo, res):
    r1 = res.rule("C08-R1", "temperature rows: exact scale, offset, dimension and prefixability", floor=6)
    t = Tables(repo)
    temp = DimVec({"temperature": 1})
    for sym, (scale, off, pref) in ROWS.items():
        row = t.lut.get(sym)
        if row is None:
            res.bad(f"row:{sym}", LUT, f"temperature unit {sym} missing from the table", rid=r1)
            continue
        ok = row[0] == scale and float(row[2]) == off and row[1] == temp and bool(row[4]) == pref
        res.check(ok, f"row:{sym}", f"{LUT} row {sym!r}", f"{sym} must be (scale {scale!r}, offset {off}, temperature, prefixable={pref})", (scale, off, pref), (row[0], row[2], row[4]), rid=r1)
    # no other temperature unit carries an offset
    for sym, row in t.lut_pairs:
        if row[1] == temp and sym not in ROWS and float(row[2]) != 0.0:
            res.bad(f"row:{sym}", LUT, f"unexpected offset temperature unit {sym}", rid=r1)


def _offset_guarded(fn):
    """does every path of a Unit operator that reaches the final `return
    Unit(...)` pass a test of base_offset whose other side raises?  Returns
    (guarded, detail)."""
    final = [p for p in enum_paths(fn.body) if p[-1][0] == "return" and isinstance(p[-1][1].value, ast.Call) and norm(p[-1][1].value.func) == "Unit"]
    if not final:
        return False, "no `return Unit(...)` path"
    raising = [p for p in enum_paths(fn.body) if p[-1][0] == "raise" and is_raise_of(p[-1][1], "InvalidUnitOperation") and any("base_offset" in t for t, tr, _ in path_facts(p))]
    if not raising:
        return False, "no path tests base_offset and raises InvalidUnitOperation"
    for p in final:
        tested = any("base_offset" in t for t, tr, _ in path_facts(p))
        if not tested:
            return False, "a path builds the result unit without testing base_offset"
    return True, ""


def _is_offset_refusal(stmt, param):
    return (
        isinstance(stmt, ast.If)
        and norm(stmt.test) in (f"{param}.base_offset", f"{param}.base_offset != 0.0", f"{param}.base_offset != 0")
        and len(stmt.body) == 1
        and is_raise_of(stmt.body[0], "InvalidUnitOperation")
    )


def _refuses_first(mod, fn):
    """the rule function refuses offset units before it builds anything:
    its first statement is `if <unit>.base_offset...: raise InvalidUnitOperation`
    or a call of a module function whose whole body is such a test, applied to
    its first (unit) parameter"""
    if not fn.body:
        return False
    first = fn.body[0]
    p0 = fn.params[0]
    if _is_offset_refusal(first, p0):
        return True
    if isinstance(first, ast.Expr) and isinstance(first.value, ast.Call) and isinstance(first.value.func, ast.Name):
        c = first.value
        if [norm(a) for a in c.args] == [p0] and mod.has_func(c.func.id):
            g = mod.func(c.func.id)
            return len(g.body) == 1 and _is_offset_refusal(g.body[0], g.params[0])
    return False


def unit_op_table(repo, dunder):
    """decision table of Unit.__mul__ / Unit.__truediv__ over abstract units: {(a, b): (rec_a, rec_b, Outcome)}.
    A returned unit is a record built from the arguments of the modelled `Unit(...)` constructor call (or the record
    of the operand that `.copy()` was called on); every abstract unit lives in a registry of its own, so the record
    also tells whose registry the result was created in."""
    from engine.dtable import Rec, Tok, decide

    uo = repo.mod(UO)
    TEMP, ANG, LOGD, ONE_D, LEN = Tok("temperature"), Tok("angle"), Tok("logarithmic"), Tok("dimensionless"), Tok("length")
    ONE_EXPR = Tok("sympy_one")

    def unit(name, dims, off, dimless=False, scale=1.0, expr=None):
        return Rec(name, base_value=scale, base_offset=off, dimensions=dims, expr=expr if expr is not None else name, is_Unit=True, is_dimensionless=dimless, registry=Tok("registry-of-" + name), __classes__=("Unit",))

    def make_unit(expr=None, base_value=None, base_offset=0.0, dimensions=None, registry=None, latex_repr=None):
        return Rec("<result>", base_value=base_value, base_offset=base_offset, dimensions=dimensions, expr=expr, registry=registry, __classes__=("Unit",))

    glob = {"temperature": TEMP, "angle": ANG, "logarithmic": LOGD, "dimensionless": ONE_D, "sympy_one": ONE_EXPR, "Unit": make_unit}
    U = {
        "degC": unit("degC", TEMP, -273.15), "degF": unit("degF", TEMP, -459.67, scale=5 / 9), "K": unit("K", TEMP, 0.0), "delta_degC": unit("delta_degC", TEMP, 0.0),
        "lat": unit("lat", ANG, 90.0), "rad": unit("radian", ANG, 0.0), "m": unit("m", LEN, 0.0), "one": unit("dimensionless", ONE_D, 0.0, dimless=True, expr=ONE_EXPR), "percent": unit("percent", ONE_D, 0.0, dimless=True, scale=0.01),
    }
    fn = uo.func(f"Unit.{dunder}")
    rows = {}
    for an, a_ in U.items():
        for bn, b_ in U.items():
            rows[(an, bn)] = (a_, b_, decide(uo, fn, [a_, b_], glob))
    return rows


def refusal(repo, res):
    r2 = res.rule("C08-R2", "every multiplicative / power unit rule reaches an offset refusal (InvalidUnitOperation) before building a unit", floor=9)
    uo = repo.mod(UO)
    arr = repo.mod(ARR)
    from engine.dtable import Rec

    # Unit * Unit and Unit / Unit: decision table over abstract units (folded tests, helpers followed): a unit with an
    # offset may be multiplied / divided only by a dimensionless partner (the offset then survives) - every other
    # combination raises InvalidUnitOperation; units without offsets never raise for that reason.
    guarded = {}
    for dunder, op in (("__mul__", ast.Mult), ("__truediv__", ast.Div)):
        fn = uo.func(f"Unit.{dunder}")
        res.fn(fn)
        bad, wrong_off = [], []
        rows = unit_op_table(repo, dunder)
        sym = "*" if op is ast.Mult else "/"
        for (an, bn), (a_, b_, out) in rows.items():
            oa, ob = a_.attrs["base_offset"], b_.attrs["base_offset"]
            has_off = oa != 0.0 or ob != 0.0
            if dunder == "__mul__":
                allowed = (oa != 0.0 and b_.attrs["is_dimensionless"]) or (ob != 0.0 and a_.attrs["is_dimensionless"])
            else:
                allowed = oa != 0.0 and b_.attrs["is_dimensionless"] and ob == 0.0
            refused = out.kind == "raise" and out.value == "InvalidUnitOperation"
            if has_off and not allowed and not refused:
                bad.append(f"{an} {sym} {bn} returns a unit")
            if not has_off and refused:
                bad.append(f"{an} {sym} {bn} is refused")
            if has_off and allowed and out.kind == "return":
                # the reading keeps its zero point: 1 * degC is degC, not kelvin-with-a-Celsius-name
                want = oa if oa != 0.0 else ob
                got = out.value.attrs.get("base_offset") if isinstance(out.value, Rec) else None
                if got != want:
                    wrong_off.append(f"{an} {sym} {bn} has offset {got}, expected {want}")
        n = len(rows)
        guarded[op] = not bad
        res.check(not bad, f"Unit.{dunder}", fn.where(), f"Unit.{dunder} decision table over {n} unit pairs: an offset unit (Celsius, Fahrenheit, lat/lon) may only be combined with a dimensionless partner, everything else must raise InvalidUnitOperation" + (f" - {bad[0]}" if bad else ""), "refusal", bad[:4], rid=r2)
        res.check(not [x for x in bad if "returns" in x], f"Unit.{dunder}:allowance", fn.where(), "an offset may survive multiplication/division only when the other factor is dimensionless", found=bad[:3], rid=r2)
        res.check(not wrong_off, f"Unit.{dunder}:surviving-offset", fn.where(), f"where an offset unit is combined with a dimensionless partner, the result keeps that unit's zero point (offset)" + (f" - {wrong_off[0]}" if wrong_off else ""), "the offset of the offset-carrying operand", wrong_off[:4], rid=r2)
    fnp = uo.func("Unit.__pow__")
    res.fn(fnp)
    # ** refuses offset units exactly when every returning path of Unit.__pow__ either knows the offset to be zero or is
    # the exponent-1 path that keeps it (the path analysis of C05-R8): a refusal for some other exponent only would let
    # np.sqrt(degC) through
    from engine.report import Result as _Res
    from rules import c05 as _c05

    _tmp = _Res("C05")
    try:
        _c05.power_offset_rule(repo, _tmp)
        pow_ok = not _tmp.findings
    except AnalysisError:
        pow_ok = False
    guarded[ast.Pow] = _offset_guarded(fnp)[0] and pow_ok
    reg = registry(repo)
    rules = {}
    for name, (rule, gate) in reg.items():
        kind = UFS.UFUNCS.get(name, (None, None))[1]
        if kind in ("U1*U2", "U1/U2", "U1^x2") or (kind or "").startswith("U^") and kind != "U^1":
            rules.setdefault(rule, []).append(name)
    for rule, ufs in sorted(rules.items()):
        fn = arr.func(rule)
        res.fn(fn)
        ops = set()
        for n in walk_no_nested(fn.node):
            if isinstance(n, ast.BinOp) and isinstance(n.op, (ast.Mult, ast.Div, ast.Pow)):
                # operators applied to unit parameters
                if any(isinstance(x, ast.Name) and x.id in fn.params for x in ast.walk(n)):
                    ops.add(type(n.op))
        if not ops:
            raise AnalysisError(f"{fn.where()}: no unit operator found in {rule}")
        if _refuses_first(arr, fn):
            res.ok(f"{rule}", r2)
            continue
        bad = [o.__name__ for o in ops if not guarded.get(o, False)]
        res.check(not bad, f"{rule}", fn.where(), f"{rule} (used by {sorted(ufs)}) builds its result with Unit operator(s) {bad} that never refuse offset units: e.g. np.{sorted(ufs)[0]} of a degC quantity returns a value", "offset-guarded Unit operator", bad, rid=r2)


def label_scale(repo, res):
    r3 = res.rule("C08-R3", "a sum/difference is labelled with the second operand's unit only under conditions that imply equal scale", floor=3)
    arr = repo.mod(ARR)
    for name in ("_preserve_units", "_difference_units"):
        fn = arr.func(name)
        res.fn(fn)
        u1, u2 = fn.params[0], fn.params[1]
        for i, p in enumerate(enum_paths(fn.body)):
            end = p[-1]
            if end[0] != "return" or not isinstance(end[1].value, ast.Tuple):
                continue
            lab = norm(end[1].value.elts[1])
            if lab != u2:
                continue
            facts = [(t, tr) for t, tr, _ in path_facts(p)]
            fm = dict(facts)
            same_scale = (
                fm.get(f"{u1}.base_value == {u2}.base_value") is True
                or fm.get(f"{u1}.base_value != {u2}.base_value") is False
                or fm.get(f"{u2}.base_value == {u1}.base_value") is True
                or fm.get(f"{u2}.base_value != {u1}.base_value") is False
            )
            # the delta_ family test of _difference_units: unit1 is the delta unit of unit2
            family = fm.get("s2 in s1") is True and fm.get("s1.startswith('delta_')") is True
            if family:
                # s1, s2 must be the reprs of unit1 / unit2
                defs = {norm(s.targets[0]): norm(s.value) for s in walk_no_nested(fn.node) if isinstance(s, ast.Assign)}
                family = defs.get("s1") == f"repr({u1})" and defs.get("s2") == f"repr({u2})"
            key = f"{name}:" + ",".join(f"{t}={tr}" for t, tr in facts)[:120]
            res.check(same_scale or family, key, fn.where(end[1]), f"{name} labels the result with {u2} although the numbers were computed in {u1}'s scale and the path does not imply equal scales (e.g. 1 delta_degC + 50 degF)", f"{u1}, or {u2} under an equal-scale condition", f"{u2} under {[f'{t}={tr}' for t, tr in facts]}", rid=r3)
    # anchor: the rules exist and return the first unit otherwise
    fn = arr.func("_preserve_units")
    rets = [norm(n.value) for n in ast.walk(fn.node) if isinstance(n, ast.Return)]
    res.check(f"(1, {fn.params[0]})" in rets, "_preserve_units:default", fn.where(), "the default label is the first operand's unit", rid=r3)
    fn = arr.func("_difference_units")
    # degC - degC -> delta_degC, degF - degF -> delta_degF (same scale by R1)
    ok = True
    for p in enum_paths(fn.body):
        end = p[-1]
        if end[0] == "return" and isinstance(end[1].value, ast.Tuple):
            lab = norm(end[1].value.elts[1])
            fm = dict((t, tr) for t, tr, _ in path_facts(p))
            if lab == "delta_degF":
                ok &= fm.get("s1 == 'degF'") is True
            if lab == "delta_degC":
                ok &= fm.get("s1 == 'degC'") is True
    res.check(ok, "_difference_units:delta-labels", fn.where(), "point - point is labelled with the delta unit of the same scale", rid=r3)


def _temperature_universe(t):
    """abstract records for every temperature spelling of the folded table plus the m-/k-prefixed forms of the
    prefixable ones (scale = prefix x base scale, same offset and dimension: C02-R2)"""
    from engine.dtable import Rec, Tok

    TEMP = Tok("temperature")
    temp = DimVec({"temperature": 1})
    recs = []
    for sym, row in t.lut_pairs:
        if row[1] != temp:
            continue
        recs.append(Rec(sym, base_value=float(row[0]), base_offset=float(row[2]), dimensions=TEMP, expr=sym))
        if row[4]:
            for p, f in (("m", 1e-3), ("k", 1e3)):
                recs.append(Rec(p + sym, base_value=float(row[0]) * f, base_offset=float(row[2]), dimensions=TEMP, expr=p + sym))
    other = Rec("m", base_value=1.0, base_offset=0.0, dimensions=Tok("length"), expr="m")
    return TEMP, recs, other


def decision_tables(repo, res):
    """C08-R5: complete label / refusal table of the two rule functions behind +, - (and max/min/hypot/remainder)
    over every ordered pair of temperature spellings.  The numbers of a sum or difference are computed in the FIRST
    operand's scale (C04-R2), so whatever label is returned must have that scale; and affine arithmetic fixes the
    kind of the result: point +- difference and difference + point are points, difference +- difference and
    point - point are differences."""
    from engine.dtable import Rec, decide

    r5 = res.rule("C08-R5", "decision table of _preserve_units / _difference_units over all pairs of temperature spellings: returned label has the first operand's scale and the point/difference kind affine arithmetic demands", floor=390)
    t = Tables(repo)
    arr = repo.mod(ARR)
    TEMP, recs, other = _temperature_universe(t)
    if len(recs) < 8:
        raise AnalysisError("fewer than 8 temperature spellings folded from the table")
    byname = {r.name: r for r in recs}
    glob = {"temperature": TEMP, "delta_degC": byname.get("delta_degC"), "delta_degF": byname.get("delta_degF")}
    kind = lambda r: "point" if r.attrs["base_offset"] != 0.0 else "difference"
    # the refusals __array_ufunc__ itself makes before it asks the rule (guard chains, folded like the rule bodies)
    from rules.ufunc import RefusalModel

    ua = UfuncAnchors(repo)
    model = RefusalModel(ua)

    def guarded(fname, a, b):
        return model.refused(fname, a, b, glob)

    for fname, op in (("_preserve_units", "+"), ("_difference_units", "-")):
        fn = arr.func(fname)
        res.fn(fn)
        # non-temperature and single-operand calls keep the first unit
        for args, tag in (([other, byname["K"]], "non-temperature"), ([byname["degC"]], "single-operand"), ([byname["K"], None], "second-is-None")):
            if fname == "_difference_units" and tag == "single-operand":
                # np.subtract.reduce / accumulate ask the rule with ONE unit: readings minus readings is a difference
                for pt in recs:
                    if kind(pt) != "point" or pt.name not in ("degC", "degF"):
                        continue
                    for form in ([pt], [pt, None]):
                        o1 = decide(arr, fn, form, glob)
                        lab1 = o1.value[1] if o1.kind == "return" and isinstance(o1.value, tuple) and len(o1.value) == 2 else None
                        okr = isinstance(lab1, Rec) and o1.value[0] == 1 and kind(lab1) == "difference" and lab1.attrs["base_value"] == pt.attrs["base_value"]
                        res.check(okr, f"{fname}:reduce:{pt.name}:{len(form)}", fn.where(o1.node), f"np.subtract.reduce of {pt.name} readings (the rule is asked with a single unit) is a difference in {pt.name}'s degree size; {fname} labels it {getattr(lab1, 'name', o1)}", f"delta_{pt.name}", getattr(lab1, "name", str(o1)), rid=r5)
                continue
            out = decide(arr, fn, args, glob)
            res.check(out.kind == "return" and isinstance(out.value, tuple) and out.value[0] == 1 and out.value[1] is args[0], f"{fname}:{tag}", fn.where(out.node), f"{fname} must keep the first operand's unit for {tag} calls", args[0], out, rid=r5)
        for a in recs:
            for b in recs:
                key = f"{fname}:{a.name}{op}{b.name}"
                gst = guarded(fname, a, b)
                if gst is not None:
                    must_work = a.name == b.name and (kind(a) == "difference" or a.name in ("degC", "degF"))
                    res.check(not must_work, key, ua.fn.where(gst), f"{a.name} {op} {b.name} is refused by a guard of __array_ufunc__ although both operands are written in the same unit", "a value", "raise", rid=r5)
                    continue
                out = decide(arr, fn, [a, b], glob)
                if out.kind == "raise":
                    # refusing is always allowed ("whenever ... returns a value"); except that like units must work
                    must_work = a.name == b.name and (kind(a) == "difference" or a.name in ("degC", "degF"))
                    res.check(not must_work, key, fn.where(out.node), f"{a.name} {op} {b.name} is refused although both operands are written in the same unit", "a label", out, rid=r5)
                    continue
                lab = out.value[1] if isinstance(out.value, tuple) and len(out.value) == 2 else None
                if not isinstance(lab, Rec) or out.value[0] != 1:
                    res.bad(key, fn.where(out.node), f"{fname} returns {out.value!r} for {a.name} {op} {b.name}: not (1, unit)", rid=r5)
                    continue
                ka, kb = kind(a), kind(b)
                if op == "+":
                    want = "point" if "point" in (ka, kb) else "difference"
                    constrained = not (ka == kb == "point")
                else:
                    want = "difference" if ka == kb else "point"
                    constrained = not (ka == "difference" and kb == "point")  # difference - point is not an affine operation
                same_scale = lab.attrs["base_value"] == a.attrs["base_value"]
                ok = same_scale and lab.attrs["dimensions"] is TEMP and (not constrained or kind(lab) == want)
                # two different offset scales must never be combined into a value
                if ka == kb == "point" and a.attrs["base_value"] != b.attrs["base_value"]:
                    ok = False
                res.check(ok, key, fn.where(out.node), f"{a.name} {op} {b.name} is computed in {a.name}'s scale and is a {want}; {fname} labels it {lab.name} (scale {lab.attrs['base_value']!r}, a {kind(lab)})", f"a {want} unit with scale {a.attrs['base_value']!r}", f"{lab.name}", rid=r5)


def guards(repo, res):
    r4 = res.rule("C08-R4", "mixed-scale guards raise and precede evaluation; diff/ediff1d/ptp refuse offset units before NumPy", floor=5)
    a = UfuncAnchors(repo)
    fn = a.fn
    # Refusals decided by folding the guard chains of the binary branch for abstract operand units (not by the text
    # of the tests).  (An absolute K/R left operand plus an offset reading is also refused today; the property
    # counts K and R as differences, for which the sum is well defined, so that refusal is not demanded here.)
    from rules.ufunc import RefusalModel

    t = Tables(repo)
    TEMP, recs, other = _temperature_universe(t)
    byname = {r.name: r for r in recs}
    glob = {"temperature": TEMP}
    model = RefusalModel(a)
    points = [r for r in recs if r.attrs["base_offset"] != 0.0]
    # (i) two different offset scales are never combined: every checked rule, every ordered pair of distinct points
    bad = []
    n = 0
    for rule in sorted(a.checked):
        for p0 in points:
            for p1 in points:
                if p0 == p1:
                    continue
                n += 1
                if model.refused(rule, p0, p1, glob) is None and rule in ("_comparison_unit", "_arctan2_unit"):
                    bad.append(f"{rule}({p0.name}, {p1.name})")
                elif model.refused(rule, p0, p1, glob) is None and rule in ("_preserve_units", "_difference_units"):
                    # the rule itself may still refuse (decided in R5)
                    pass
    res.check(not bad and n > 0, "offset-without-delta", fn.where(a.differ_if), "comparing / combining readings on two different offset scales (right operand converted by a bare factor) is refused before evaluation for every dimension-checked rule", "raise", bad[:4], rid=r4)
    # (i-b) a zero operand without units of its own adopts the other operand's unit object inside the block (u1 = u0);
    # that admits a *list of zero quantities* on another scale as well ([0 degF] * 3), whose own scale is no longer
    # visible afterwards.  The offset refusal is the only thing that still stops `degC + <adopted>`: it must fire when
    # the two unit names denote one and the same offset unit object, i.e. it must not be conditioned on their identity.
    bad = []
    for rule in ("_preserve_units", "_comparison_unit"):
        for p0 in points:
            if model.refused(rule, p0, p0, glob, assume=(a.differ_if.test,)) is None:
                bad.append(f"{rule}({p0.name}, <zero operand that adopted {p0.name}>)")
    res.check(not bad, "offset-refusal-after-adoption", fn.where(a.differ_if), "an operand that adopted the unit of an offset reading inside the block (bare zero - or a list of zero quantities on another offset scale, which counts as one) is combined with the reading instead of being refused: degC_array + [0 degF, 0 degF] returns values", "the offset refusal does not depend on the identity of the two unit objects", bad[:4], rid=r4)
    # the refusal precedes the rescaling of the second operand
    body = a.differ_if.body
    resc = [i for i, st in enumerate(body) if isinstance(st, ast.Assign) and norm(st.targets[0]) == "inp1"]
    first_guard = model.refused("_comparison_unit", byname["degC"], byname["degF"], glob)
    ok = first_guard is not None and resc and any(first_guard is x for st in body[: resc[0]] for x in ast.walk(st))
    res.check(bool(ok), "offset-guard-before-rescale", fn.where(first_guard) if first_guard is not None else fn.where(), "the refusal happens before the second operand is rescaled", rid=r4)
    # (ii) multiplying / dividing an offset reading, as either operand, is refused before evaluation
    bad = []
    for rule in ("_multiply_units", "_divide_units"):
        for p0 in points:
            for o in (other, byname["K"], p0):
                for u0, u1 in ((p0, o), (o, p0)):
                    if model.refused(rule, u0, u1, glob) is None:
                        bad.append(f"{rule}({u0.name}, {u1.name})")
    res.check(not bad, "multiply-divide-offset", fn.where(), "multiplying / dividing an offset temperature (either operand) must be refused in __array_ufunc__ before the ufunc is evaluated (so that out= targets stay untouched)", "raise", sorted(set(bad))[:4], rid=r4)
    # diff_helper
    af = repo.mod(AF)
    d = af.func("diff_helper")
    res.fn(d)
    ok = True
    n = 0
    for p in enum_paths(d.body):
        fm = dict((t, tr) for t, tr, _ in path_facts(p))
        impl = [c for c in path_calls(p) if isinstance(c.func, ast.Attribute) and c.func.attr == "_implementation"]
        if fm.get("u.dimensions is temperature") is True and fm.get("u.base_offset") is True:
            n += 1
            ok &= p[-1][0] == "raise" and is_raise_of(p[-1][1], "InvalidUnitOperation") and not impl
    res.check(ok and n >= 1, "diff_helper", d.where(), "differences of offset readings are refused before NumPy is called", rid=r4)
    for h in ("diff", "ediff1d", "ptp"):
        f = af.func(h)
        calls = [c for c in ast.walk(f.node) if isinstance(c, ast.Call) and norm(c.func) == "diff_helper"]
        res.check(len(calls) == 1, f"{h}->diff_helper", f.where(), f"np.{h} goes through diff_helper", rid=r4)


MUTANTS = [
    # Unit.__pow__ refuses offset units itself since the repair of the unchanged tree (DESIGN 12.3): removing the explicit
    # refusal of a power rule alone changes nothing (twins); together with the refusal in __pow__ it does
    Mutant("twin-sqrt-refusal-removed", ARR, "_sqrt_unit", "    _refuse_offset_unit(unit)\n", "", (), benign=True),
    Mutant("twin-refusal-helper-hollowed", ARR, "_refuse_offset_unit", "if unit.base_offset:", "if unit.base_offset and False:", (), benign=True),
    Mutant("sqrt-and-pow-refusals-removed", ARR, "_sqrt_unit", "    _refuse_offset_unit(unit)\n", "", ("C08-R2",), more=[(UO, "Unit.__pow__", "            if p != 1:\n                raise InvalidUnitOperation(", "            if p == 0:\n                raise InvalidUnitOperation(", 1)]),
    Mutant("preserve-scale-test-removed", ARR, "_preserve_units", "        if unit1.base_value != unit2.base_value:", "        if False:", ("C08-R3",)),
    Mutant("degF-offset", LUT, None, "-459.67", "-459.76", ("C08-R1",)),
    Mutant("delta-degF-scale", LUT, None, '            "delta_degF",\n            (\n                kelvin_per_rankine,', '            "delta_degF",\n            (\n                1.0,', ("C08-R1",)),
    Mutant("mul-guard-removed", UO, "Unit.__mul__", "        if self.base_offset or u.base_offset:", "        if False:", ("C08-R2",)),
    Mutant("div-guard-softened", UO, "Unit.__truediv__", '                raise InvalidUnitOperation(\n                    "Quantities with units of Farhenheit and Celsius cannot be divided."\n                )', "                base_offset = 0.0", ("C08-R2",)),
    Mutant("difference-returns-other", ARR, "_difference_units", "        if s1 in s2 and s2.startswith(\"delta_\"):\n            return 1, unit1", "        if s1 in s2 and s2.startswith(\"delta_\"):\n            return 1, unit2", ("C08-R3",)),
    Mutant("delta-guard-inverted", ARR, "unyt_array.__array_ufunc__", 'and not repr(u0).startswith("delta_")', 'and repr(u0).startswith("delta_")', ("C08-R4",)),
    Mutant("offset-refusal-skips-adopted-unit", ARR, "unyt_array.__array_ufunc__", "                        offset is not None\n                        and u1.base_offset != 0.0", "                        offset is not None\n                        and u0 is not u1\n                        and u1.base_offset != 0.0", ("C08-R4",)),
    Mutant("muldiv-guard-one-sided", ARR, "unyt_array.__array_ufunc__", "                    or u1.base_offset\n                    and u1.dimensions is temperature\n", "", ("C08-R4",)),
    Mutant("diff-offset-allowed", AF, "diff_helper", "        if u.base_offset:", "        if False:", ("C08-R4",)),
    Mutant("twin-row-spelling", LUT, None, '("degC", (1.0, dimensions.temperature, -273.15,', '("degC", (1.0, dimensions.temperature, -2.7315e2,', (), benign=True),
    Mutant("mul-offset-from-dimensionless-side", UO, "Unit.__mul__", "            if u.dimensions in (temperature, angle) and self.is_dimensionless:\n                base_offset = u.base_offset", "            if u.dimensions in (temperature, angle) and self.is_dimensionless:\n                base_offset = self.base_offset", ("C08-R2",)),
    Mutant("setstate-skips-fixer", ARR, "unyt_array.__setstate__", "lut = _correct_old_unit_registry(lut)", "lut = _correct_old_unit_registry(lut) if any(len(v) == 4 for v in lut.values()) else lut", ("C08-R6",)),
    Mutant("eq-swallows-every-unyt-error", ARR, "unyt_array.__eq__", "except (IterableUnitCoercionError, UnitOperationError):", "except UnytError:", ("C08-R8",)),
    Mutant("in-base-offset-from-source", ARR, "unyt_array.in_base", "        ret = np.asarray(self.ndview * conv, dtype=new_dtype)\n        if offset:", "        ret = np.asarray(self.ndview * conv, dtype=new_dtype)\n        if self.units.base_offset:", ("C08-R7",)),
    Mutant("preserve-returns-second-label", ARR, "_preserve_units", "        return 1, unit2\n    return 1, unit1", "        return 1, unit2\n    return 1, unit2", ("C08-R5",)),
]
