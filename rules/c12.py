"""C12 - registry edits take effect everywhere, immediately, regardless of history."""

from __future__ import annotations

import ast

from engine import memo
from engine.core import AnalysisError, Repo, norm, walk_no_nested
from engine.flow import enum_paths, path_calls, path_facts
from engine.mutate import Mutant
from engine.report import Result
from rules import memo_rules

TECHNIQUE = "cache-coherence effect analysis: inventory of memo layers derived from the source, invalidation-completeness path rule over the registry mutators, cache-key dependency rule for lru_cache'd functions, immutability (who-assigns) rule for Unit attributes"
LEVEL_TEXT = """Static, covering all histories by covering all writers: (R1) the memo layers that can outlive a registry edit
are derived from the source - the per-registry unit-string cache (written only by Unit.__new__ under the whole unit
string), the memoised registry id, the prefixed rows that _lookup_unit_symbol writes back into the table, and every
lru_cache'd function; (R2) on every path of add / remove / modify that writes or deletes a table entry the registry id is
reset, the unit-string cache is cleared as a whole (a key may mention the symbol inside a prefixed or compound string,
so deleting the exact key is not enough) and the prefixed rows derived from the entry are dropped before it changes; (R3)
lru_cache'd functions read no process-global registry state and their Unit arguments hash by the registry's content id,
which is recomputed from the table; (R4) a Unit's value attributes are assigned only at construction, so units created
before an edit keep their value.
(R2, extended) the purge of derived rows recognises them by the writer's own product (entry scale * prefix value, ==); (R5) the memoised unit rules are found through Unit.__hash__, which must read the expression and the registry contents id (shared with C05-R2)."""
LEVEL_NOTE = """Undecided: exhaustive exploration of edit/construct histories - the rule is the necessary condition that
makes results history-independent. Not covered: UnitSystem.units_map memoisation against later edits of the registry the
system was created with (noted), and _check_em_conversion reading unit_system_registry['mks'] (noted)."""
EXPLANATION = LEVEL_TEXT
ASSUMPTIONS = ["dict.clear() empties the cache; lru_cache keys on argument hash/equality"]

REG = "unyt/unit_registry.py"
UO = "unyt/unit_object.py"
ARR = "unyt/array.py"


def check(repo: Repo) -> Result:
    res = Result("C12")
    inventory(repo, res)
    invalidation(repo, res)
    cache_keys(repo, res)
    immutability(repo, res)
    from rules import c05
    from rules.common import share

    r5 = res.rule("C12-R5", "the memoised unit rules are found by Unit.__hash__ / __eq__: equality ignores the spelling, so the hash must include the expression (the result's expression is built from the operands'), and the registry contents id", floor=1)
    share(res, r5, "C05", lambda t: t.__dict__.update(c05.check(repo).__dict__), ["C05-R2"], want=lambda k: k == "hash-footprint")

    from rules import c11, c13

    r6 = res.rule("C12-R6", "a copied registry starts its own history: the deep copy owns a new table and a new unit-string cache and is built from the copied table only (shared with C13-R1 / C11-R3)", floor=3)
    share(res, r6, "C13", lambda t: c13.ownership(repo, t), ["C13-R1"], want=lambda k: k in ("unit_registry.py:UnitRegistry.__deepcopy__", "unit-cache-owner", "deepcopy-table") or k.startswith("unit-cache-writer:"), min_keys=3)
    share(res, r6, "C11", lambda t: c11.rebuilt_from_table(repo, t), ["C11-R3"], want=lambda k: k == "UnitRegistry.__deepcopy__:no-defaults")
    from rules import c02

    r7 = res.rule("C12-R7", "the rows the lookup derives are the rows the purge recognises: a derived prefixed row is stored as NOT prefixable (the flag _forget_prefixed tells derived rows by), under prefix + symbol, with scale = base scale * prefix value (shared with C02-R2)", floor=3)
    share(res, r7, "C02", lambda t: c02.prefix_composition(repo, t), ["C02-R2"], want=lambda k: k in ("not-prefixable", "store-key", "scale", "returns"), min_keys=3)
    derived_units_keep_their_value(repo, res)
    return res


def derived_units_keep_their_value(repo, res):
    """'Unit objects created before an edit keep the value they had' - and so does every unit derived from one: a method
    of Unit that builds a new Unit out of its own expression (a rewritten, simplified or copied form of self.expr) hands
    over its own scale, offset and dimensions.  `Unit(<expression from self>, registry=self.registry)` alone makes the
    constructor look the symbols up again in the registry's *current* table."""
    from engine.memo import local_defs, roots

    r8 = res.rule("C12-R8", "a Unit method that builds a unit from its own expression passes its own scale and dimensions (no second look-up in the registry's current table): units derived from a pre-edit unit keep the pre-edit value", floor=1)
    uo = repo.mod(UO)
    n = 0
    for q, fns in uo.funcs.items():
        if not q.startswith("Unit.") or q.count(".") != 1 or q == "Unit.__new__":
            continue
        for f in fns:
            if not f.params:
                continue
            me = f.params[0]
            defs, opaque = local_defs(f)
            for c in walk_no_nested(f.node):
                if not (isinstance(c, ast.Call) and norm(c.func) in ("Unit", "cls", f"type({me})", f"{me}.__class__") and c.args):
                    continue
                a0 = c.args[0]
                # does the first argument derive from self.expr?
                reads_expr = False
                stack, seen = [a0], set()
                while stack:
                    e = stack.pop()
                    for x in ast.walk(e):
                        if isinstance(x, ast.Attribute) and x.attr == "expr" and isinstance(x.value, ast.Name) and x.value.id == me:
                            reads_expr = True
                        if isinstance(x, ast.Name) and x.id in defs and x.id not in seen:
                            seen.add(x.id)
                            stack.extend(defs[x.id])
                if not reads_expr:
                    continue
                n += 1
                kws = {k.arg for k in c.keywords}
                has_values = len(c.args) >= 2 or "base_value" in kws
                res.check(has_values, f"derived:{q}:{norm(a0)[:30]}", f.where(c), f"{q} builds a Unit from its own expression without handing over its scale and dimensions: the constructor resolves the symbols in the registry's current table, so a unit made before registry.modify() / re-add changes value when it is simplified, copied or rewritten (a_old / (1 m) takes the new definition)", "base_value / base_offset / dimensions of self passed along", norm(c)[:100], rid=r8)
    if n == 0:
        res.ok("no-self-expression-constructions", r8)


def inventory(repo, res):
    r1 = res.rule("C12-R1", "memo layers and their writers, derived from the source", floor=5)
    # writers of the per-registry unit-string cache, text + explicit values, process-global call-time state
    for gen in (memo_rules.unit_cache_writers(repo), memo_rules.explicit_values(repo), memo_rules.calltime_globals(repo)):
        for key, ok, where, msg, exp, found in gen:
            res.check(ok, key, where, msg, exp, found, rid=r1)
    new = repo.mod(UO).func("Unit.__new__")
    res.fn(new)
    keydef = [norm(n.value) for n in walk_no_nested(new.node) if isinstance(n, ast.Assign) and norm(n.targets[0]) == "unit_cache_key"]
    res.check(sorted(keydef) == ["None", "unit_expr"], "unit-cache-key", new.where(), "the cache key is the whole unit string as given (so an entry depends on every symbol in it)", found=keydef, rid=r1)
    look = [n for n in walk_no_nested(new.node) if isinstance(n, ast.If) and "registry._unit_object_cache" in norm(n.test)]
    res.check(len(look) == 1 and norm(look[0].test) == "registry and unit_expr in registry._unit_object_cache", "unit-cache-lookup", new.where(), "the cache is consulted per registry", rid=r1)
    # derived rows
    from rules.anchors import lookup_symbol

    lk = lookup_symbol(repo)
    res.fn(lk)
    wb = [norm(n) for n in walk_no_nested(lk.node) if isinstance(n, ast.Assign) and isinstance(n.targets[0], ast.Subscript)]
    res.check(wb == [f"{lk.params[1]}[{lk.params[0]}] = ret"], "derived-rows-writer", lk.where(), "prefixed rows are written back into the table under prefix+symbol", found=wb, rid=r1)
    # registry id memo
    reg = repo.mod(REG)
    pid = reg.func("UnitRegistry.unit_system_id")
    res.fn(pid)
    from engine.pat import find_all
    from engine.sem import cnorm, summarise

    b = find_all(pid.node, [
        "__h.extend(__k.encode('utf8'))",
        "__h.extend(repr(__v).encode('utf8'))",
        "__m = md5()",
        "__m.update(__h)",
        "self._unit_system_id = str(__m.hexdigest())",
    ])
    digest_node, table_expr = pid.node, "self.lut"
    if b is None:
        # the digest may live in a module-level helper that is handed the table: self._unit_system_id = helper(self.lut)
        for n in ast.walk(pid.node):
            if isinstance(n, ast.Assign) and norm(n.targets[0]) == "self._unit_system_id" and isinstance(n.value, ast.Call) and isinstance(n.value.func, ast.Name) and [norm(a_) for a_ in n.value.args] == ["self.lut"] and not n.value.keywords:
                hf = reg.funcs.get(n.value.func.id)
                if hf and len(hf) == 1 and len(hf[0].params) == 1:
                    b = find_all(hf[0].node, [
                        "__h.extend(__k.encode('utf8'))",
                        "__h.extend(repr(__v).encode('utf8'))",
                        "__m = md5()",
                        "__m.update(__h)",
                        "return str(__m.hexdigest())",
                    ])
                    if b is not None:
                        digest_node, table_expr = hf[0].node, hf[0].params[0]
                        res.fn(hf[0])
    ok = b is not None
    if ok:
        loops = [n for n in ast.walk(digest_node) if isinstance(n, ast.For) and cnorm(n.iter) == f"sorted({table_expr}.items())" and isinstance(n.target, ast.Tuple) and [norm(e) for e in n.target.elts] == [b["__k"], b["__v"]]]
        ok = len(loops) == 1
        # recomputed exactly when the memo is None, and the memo is what is returned
        sums = summarise(pid)
        ok &= all(x.kind == "return" and (x.value in ("self._unit_system_id",) or x.value.startswith("str(") or (digest_node is not pid.node and x.value.endswith("(self.lut)"))) for x in sums)
        ok &= any(x.has("self._unit_system_id is None", True) and any("self._unit_system_id = " in e for e in x.effects) for x in sums)
        ok &= all(not any("self._unit_system_id = " in e for e in x.effects) for x in sums if x.has("self._unit_system_id is None", False))
    res.check(ok, "registry-id", pid.where(), "the registry id is a digest of the sorted table contents (symbol and repr of the row), recomputed whenever the memo is None", rid=r1)
    # ... "contents" as the user sees them: the lookup routine also writes rows into the table (the prefixed rows it
    # derives on first use).  Either the digest leaves those rows out, or whoever writes them resets the memo;
    # otherwise the id - and with it every Unit hash, the key of the lru caches and the key under which a code unit
    # system was registered - depends on which prefixed units happened to be looked up before the id was computed.
    from rules.anchors import lookup_symbol

    lk_ = lookup_symbol(repo)
    lutp = lk_.params[1]
    writes_rows = [n for n in ast.walk(lk_.node) if isinstance(n, ast.Assign) and isinstance(n.targets[0], ast.Subscript) and norm(n.targets[0].value) == lutp]
    digest_filters = any(isinstance(n, (ast.If, ast.IfExp, ast.comprehension)) and ("[4]" in norm(n) or "derived" in norm(n).lower()) for lp in (loops if ok else []) for n in ast.walk(lp))
    resets = any(isinstance(n, ast.Assign) and norm(n.targets[0]).endswith("_unit_system_id") for n in ast.walk(lk_.node)) or any(
        isinstance(n, ast.Assign) and norm(n.targets[0]) == "self._unit_system_id" for n in ast.walk(reg.func("UnitRegistry.__getitem__").node)
    )
    res.check(not writes_rows or digest_filters or resets, "registry-id:lookup-history", lk_.where(writes_rows[0]) if writes_rows else lk_.where(), "the symbol lookup stores derived prefixed rows in the table the registry id is a digest of, without resetting the memoised id: two registries with the same definitions get different ids (hence different Unit hashes) depending on which prefixed units were looked up before the id was first computed, and a memoised id no longer matches a recomputation (copy.deepcopy(q).in_base('code') raises KeyError)", "a digest over the defined rows only, or a reset of the memo when a derived row is stored", [norm(w)[:60] for w in writes_rows], rid=r1)
    cached = []
    for mod in repo.mods():
        for q, fns in mod.funcs.items():
            for f in fns:
                if any("lru_cache" in norm(d) for d in f.decorators()):
                    cached.append(f"{mod.rel.split('/')[-1]}:{q}")
    res.note(f"lru_cache'd functions found: {sorted(cached)}")
    res.check(len(cached) >= 9, "lru-inventory", ARR, "lru_cache'd functions located", found=sorted(cached), rid=r1)


def invalidation(repo, res):
    r2 = res.rule("C12-R2", "every registry edit resets the id, clears the unit-string cache and drops derived prefixed rows", floor=9)
    reg = repo.mod(REG)
    for m in ("add", "remove", "modify"):
        fn = reg.func(f"UnitRegistry.{m}")
        res.fn(fn)
        sym = fn.params[1]
        n_write = 0
        miss = {"id": None, "cache": None, "derived": None}
        for p in enum_paths(fn.body):
            stm = [ev[1] for ev in p if ev[0] == "stmt"]
            writes = [i for i, s in enumerate(stm) if (isinstance(s, ast.Assign) and any(norm(t) == f"self.lut[{sym}]" for t in s.targets)) or (isinstance(s, ast.Delete) and any(norm(t) == f"self.lut[{sym}]" for t in s.targets))]
            if not writes:
                continue
            n_write += 1
            texts = [norm(s) for s in stm]
            fm = dict((t, tr) for t, tr, _ in path_facts(p))
            if "self._unit_system_id = None" not in texts:
                miss["id"] = p
            if "self._unit_object_cache.clear()" not in texts and "self._unit_object_cache = {}" not in texts:
                miss["cache"] = p
            fp = [i for i, t in enumerate(texts) if t == f"self._forget_prefixed({sym})"]
            need_purge = True
            if m == "add" and fm.get(f"{sym} in self.lut") is False:
                need_purge = False  # a new symbol has no derived rows yet
            if need_purge and not (fp and fp[0] < writes[0]):
                miss["derived"] = p
        if n_write == 0:
            raise AnalysisError(f"{fn.where()}: no table write found in {m}")
        # an edit that is accepted takes effect: every path that ends normally has written (or deleted) the entry.  An
        # early return under some condition on the old entry ("scale unchanged, nothing to do") makes the outcome of the
        # same call depend on what the symbol was before - and skips what else the call carries (a new dimension)
        silent = []
        for p in enum_paths(fn.body):
            if p[-1][0] == "raise":
                continue
            stm = [ev[1] for ev in p if ev[0] == "stmt"]
            if not any((isinstance(s_, ast.Assign) and any(norm(t) == f"self.lut[{sym}]" for t in s_.targets)) or (isinstance(s_, ast.Delete) and any(norm(t) == f"self.lut[{sym}]" for t in s_.targets)) for s_ in stm):
                silent.append(sorted(f"{t}={tr}" for t, tr, _ in path_facts(p)))
        res.check(not silent, f"{m}:every-normal-exit-writes", fn.where(), f"{m} returns normally on a path that never writes the entry: the edit is silently dropped under a condition on the previous state of the table (history-dependent), e.g. modify(sym, 1.0*s) after add(sym, 1.0, length) keeps the length", "every non-raising path stores / deletes self.lut[symbol]", silent[:2], rid=r2)
        # ordering against re-population: an invalidation that is followed, before the table write, by a call that
        # evaluates units (a quantity argument converted with in_base(...) looks units up in this very registry, which
        # re-derives prefixed rows from the OLD entry, re-fills the unit cache and re-memoises the contents id) is
        # undone by that call.  Each of the three invalidations needs an occurrence after the last such call.
        EVAL = {"in_base", "in_units", "to", "in_cgs", "in_mks", "to_value", "convert_to_base", "convert_to_units", "get_base_equivalent", "get_conversion_factor"}
        undone = {}
        for p in enum_paths(fn.body):
            stm = [ev[1] for ev in p if ev[0] == "stmt"]
            texts = [norm(s_) for s_ in stm]
            writes = [i for i, s_ in enumerate(stm) if (isinstance(s_, ast.Assign) and any(norm(t) == f"self.lut[{sym}]" for t in s_.targets)) or (isinstance(s_, ast.Delete) and any(norm(t) == f"self.lut[{sym}]" for t in s_.targets))]
            if not writes:
                continue
            w = writes[0]
            evals = [i for i, s_ in enumerate(stm[:w]) if any(isinstance(c, ast.Call) and ((isinstance(c.func, ast.Attribute) and c.func.attr in EVAL) or norm(c.func) in ("Unit", "unyt_quantity", "unyt_array")) for c in ast.walk(s_))]
            if not evals:
                continue
            last = evals[-1]
            acts = {
                "registry-id": [i for i, t in enumerate(texts) if t == "self._unit_system_id = None"],
                "unit-cache": [i for i, t in enumerate(texts) if t in ("self._unit_object_cache.clear()", "self._unit_object_cache = {}")],
                "derived-rows": [i for i, t in enumerate(texts) if t == f"self._forget_prefixed({sym})"],
            }
            for k_, idxs in acts.items():
                if idxs and not any(i > last for i in idxs):
                    undone[k_] = texts[last]
        for k_ in ("registry-id", "unit-cache", "derived-rows"):
            res.check(k_ not in undone, f"{m}:{k_}:after-evaluation", fn.where(), f"{m} invalidates ({k_}) and only then evaluates units against the registry (`{undone.get(k_, '')[:60]}`) before it writes the new entry: the evaluation re-creates what was just dropped from the OLD definition (e.g. r.modify('C', 1 kC) on a fresh registry leaves a kC row derived from the old C, and a stale contents id)", "the invalidation after the last unit-evaluating call", undone.get(k_, ""), rid=r2)
        res.check(miss["id"] is None, f"{m}:registry-id", fn.where(), f"{m} changes the table on a path that does not reset the memoised registry id (Unit hashes / lru caches would keep serving the old table)", rid=r2)
        res.check(miss["cache"] is None, f"{m}:unit-cache", fn.where(), f"{m} changes the table without clearing the whole unit-string cache: units built earlier from prefixed or compound strings mentioning {sym!r} keep the old definition", "self._unit_object_cache.clear()", "exact-key deletion or nothing", rid=r2)
        res.check(miss["derived"] is None, f"{m}:derived-rows", fn.where(), f"{m} changes an entry without first dropping the prefixed rows derived from it: Unit('k'+symbol) keeps the old scale / stays resolvable", f"self._forget_prefixed({sym}) before the write", rid=r2)
    fp = reg.func("UnitRegistry._forget_prefixed")
    res.fn(fp)
    sym = fp.params[1]
    loops = [n for n in fp.body if isinstance(n, ast.For)]
    ok = len(loops) == 1 and norm(loops[0].iter) == "unit_prefixes.items()"
    if ok:
        dels = [norm(n) for n in ast.walk(loops[0]) if isinstance(n, ast.Delete)]
        pfx = norm(loops[0].target.elts[0]) if isinstance(loops[0].target, ast.Tuple) else "?"
        ok = dels == [f"del self.lut[{pfx} + {sym}]"]
    res.check(ok, "_forget_prefixed", fp.where(), "the purge visits every prefix spelling and deletes the derived row prefix+symbol", rid=r2)
    # which rows count as derived: the purge recomputes the row the lookup wrote - scale = entry scale * prefix value,
    # the very floating-point product of the writer (C02-R2) - and compares for equality.  Undoing the product by a
    # division (derived[0] / prefix_value == entry[0]) is not the same test: (v * p) / p != v for many doubles, and the
    # stale row then survives the edit.
    if ok:
        from engine.sem import summarise

        lp = loops[0]
        keep = {x.id for x in ast.walk(lp.target) if isinstance(x, ast.Name)} | {sym}
        entry_names = [norm(n.targets[0]) for n in fp.body if isinstance(n, ast.Assign) and norm(n.value) == f"self.lut[{sym}]"]
        keep |= set(entry_names)
        pv = norm(lp.target.elts[1].elts[0]) if isinstance(lp.target, ast.Tuple) and isinstance(lp.target.elts[1], ast.Tuple) else None
        bad_tests, n_del = [], 0
        for x in summarise(fp, body=lp.body, keep=keep):
            if not any(e.startswith("del self.lut[") for e in x.effects):
                continue
            n_del += 1
            good = False
            for t, tr in x.facts:
                if "==" not in t or not tr:
                    continue
                node = ast.parse(t, mode="eval").body
                ops = [type(b.op) for b in ast.walk(node) if isinstance(b, ast.BinOp)]
                names = {norm(a) for a in ast.walk(node) if isinstance(a, (ast.Subscript, ast.Name))}
                entry_scale = any(f"{e}[0]" in names for e in entry_names) or f"self.lut[{sym}][0]" in names
                if entry_scale and pv in names:
                    if ast.Div in ops or ast.FloorDiv in ops or ast.Pow in ops:
                        bad_tests.append(t)
                    elif ast.Mult in ops:
                        good = True
            if not good and not bad_tests:
                bad_tests.append("no comparison with entry scale * prefix value on the deleting path: " + "; ".join(t for t, _ in sorted(x.facts))[:160])
        res.check(n_del >= 1 and not bad_tests, "_forget_prefixed:recogniser", fp.where(), "a derived row is recognised by recomputing it as the lookup wrote it (entry scale * prefix value, compared with ==); a test that divides the prefix back out misses rows for which (v*p)/p != v in floating point, and those keep the old definition after modify / add / remove", "derived[:3] == (entry[0] * prefix_value, entry[1], entry[2])", bad_tests[:2], rid=r2)
    # define_unit goes through add
    du = repo.mod(UO).func("define_unit")
    # ... and refuses a symbol the registry already *resolves*: `symbol in registry` asks UnitRegistry.__contains__, which
    # also recognises prefix + prefixable-symbol spellings whether or not their derived row has been stored yet; a test
    # against the raw table (registry.lut) makes the answer depend on earlier lookups
    guards_ = [n for n in ast.walk(du.node) if isinstance(n, ast.Compare) and len(n.ops) == 1 and isinstance(n.ops[0], (ast.In, ast.NotIn)) and norm(n.left) == du.params[0]]
    res.check(len(guards_) == 1 and norm(guards_[0].comparators[0]) == "registry", "define_unit:exists-guard", du.where(guards_[0]) if guards_ else du.where(), "define_unit must test `symbol in registry` (the registry's own resolution, prefixed spellings included): membership in the raw table depends on which prefixed units were looked up before, so the same define_unit call is refused or accepted depending on history", "symbol in registry", [norm(g) for g in guards_], rid=r2)
    calls = [norm(c.func) for c in ast.walk(du.node) if isinstance(c, ast.Call)]
    res.check("registry.add" in calls and not any(".lut[" in norm(n) for n in ast.walk(du.node) if isinstance(n, ast.Assign)), "define_unit", du.where(), "define_unit edits the registry only through add()", rid=r2)


FORBIDDEN_GLOBALS = {"default_unit_registry", "default_unit_symbol_lut"}


def cache_keys(repo, res):
    r3 = res.rule("C12-R3", "lru_cache keys cover what the cached value depends on: no global registry state, no registry / unit system held by identity", floor=14)
    for f in memo.cached_functions(repo):
        res.fn(f)
        names = {n.id for n in walk_no_nested(f.node) if isinstance(n, ast.Name) and isinstance(n.ctx, ast.Load)}
        bad = names & FORBIDDEN_GLOBALS
        res.check(not bad, f"{f.mod.rel.split('/')[-1]}:{f.qualname}", f.where(), f"cached function {f.qualname} reads global registry state {sorted(bad)} that is not part of its cache key", rid=r3)
    for key, ok, where, msg, exp, found in memo_rules.cached_identity_params(repo):
        res.check(ok, key, where, msg, exp, found, rid=r3)
    h = repo.mod(UO).func("Unit.__hash__")
    res.check("self.registry.unit_system_id" in norm(h.node), "unit-hash", h.where(), "Unit.__hash__ must include the registry's content id", rid=r3)
    res.note("not covered: _check_em_conversion falls back to unit_system_registry['mks'] (module-level dict of named systems)")


def immutability(repo, res):
    r4 = res.rule("C12-R4", "a Unit's value attributes are assigned only at construction", floor=3)
    uo = repo.mod(UO)
    value_attrs = {"base_value", "base_offset", "dimensions", "expr", "is_atomic"}
    allowed = {("Unit.__new__", a) for a in value_attrs | {"_latex_repr", "registry", "is_Unit"}} | {("Unit.simplify", "expr"), ("Unit.latex_repr", "_latex_repr")}
    bad = []
    for q, fns in uo.funcs.items():
        if not q.startswith("Unit."):
            continue
        for f in fns:
            for n in walk_no_nested(f.node):
                if isinstance(n, (ast.Assign, ast.AugAssign)):
                    tg = n.targets if isinstance(n, ast.Assign) else [n.target]
                    for t in tg:
                        if isinstance(t, ast.Attribute) and isinstance(t.value, ast.Name) and t.value.id in ("self", "obj") and t.attr in value_attrs | {"_latex_repr", "registry"}:
                            if (q, t.attr) not in allowed:
                                bad.append((q, norm(n)))
    res.check(not bad, "unit-methods", UO, "a Unit method other than __new__ (and the documented simplify) assigns a value attribute", found=bad, rid=r4)
    sl = uo.assigns.get("Unit.__slots__")
    res.check(sl is not None and {e.value for e in sl[0].elts} >= value_attrs, "slots", UO, "Unit stores its value in slots filled at construction", rid=r4)
    # stores to unit value attributes from outside the class
    outside = []
    for mod in repo.mods(only_anchor=False):
        for q, fns in mod.funcs.items():
            if mod.rel == UO and q.startswith("Unit."):
                continue
            for f in fns:
                for n in walk_no_nested(f.node):
                    if isinstance(n, (ast.Assign, ast.AugAssign)):
                        tg = n.targets if isinstance(n, ast.Assign) else [n.target]
                        for t in tg:
                            if isinstance(t, ast.Attribute) and t.attr in ("base_value", "base_offset", "dimensions") and not (isinstance(t.value, ast.Name) and t.value.id == "self" and not mod.rel.endswith("unit_object.py")):
                                outside.append((mod.rel, q, norm(n)))
    res.check(not outside, "outside-writers", UO, "code outside the Unit class assigns scale / offset / dimension of a unit object", found=outside, rid=r4)


MUTANTS = [
    Mutant("modify-skips-equal-scale", REG, "UnitRegistry.modify", "        self._forget_prefixed(symbol)\n        self.lut[symbol] =", "        if float(base_value) == self.lut[symbol][0]:\n            return\n        self._forget_prefixed(symbol)\n        self.lut[symbol] =", ("C12-R2",)),
    Mutant("modify-exact-key-only", REG, "UnitRegistry.modify", "        self._unit_object_cache.clear()", "        if symbol in self._unit_object_cache:\n            del self._unit_object_cache[symbol]", ("C12-R2",)),
    Mutant("add-no-clear", REG, "UnitRegistry.add", "        self._unit_object_cache.clear()\n", "", ("C12-R2",)),
    Mutant("remove-keeps-derived", REG, "UnitRegistry.remove", "        self._forget_prefixed(symbol)\n", "", ("C12-R2",)),
    Mutant("modify-invalidates-before-conversion", REG, "UnitRegistry.modify", "        if hasattr(base_value, \"in_base\"):", "        self._forget_prefixed(symbol)\n        if hasattr(base_value, \"in_base\"):", ("C12-R2",), more=[(REG, "UnitRegistry.modify", "        self._forget_prefixed(symbol)\n        self.lut[symbol] = (float(base_value), new_dimensions) + self.lut[symbol][2:]\n", "        self.lut[symbol] = (float(base_value), new_dimensions) + self.lut[symbol][2:]\n", 1)]),
    Mutant("modify-purges-late", REG, "UnitRegistry.modify", "        self._forget_prefixed(symbol)\n        self.lut[symbol] = (float(base_value), new_dimensions) + self.lut[symbol][2:]\n", "        self.lut[symbol] = (float(base_value), new_dimensions) + self.lut[symbol][2:]\n        self._forget_prefixed(symbol)\n", ("C12-R2",)),
    Mutant("id-not-reset", REG, "UnitRegistry.remove", "        self._unit_system_id = None\n", "", ("C12-R2",)),
    Mutant("forget-one-prefix", REG, "UnitRegistry._forget_prefixed", "for prefix, (prefix_value, _) in unit_prefixes.items():", "for prefix, (prefix_value, _) in list(unit_prefixes.items())[:1]:", ("C12-R2",)),
    Mutant("cache-key-normalised", UO, "Unit.__new__", "            unit_cache_key = unit_expr\n", "            unit_cache_key = unit_expr.strip()\n", ("C12-R1",)),
    Mutant("second-cache-writer", REG, "UnitRegistry.__getitem__", "        return ret", "        self._unit_object_cache[str(key)] = ret\n        return ret", ("C12-R1",)),
    Mutant("cached-reads-global", ARR, "_preserve_units", "    if unit2 is None or unit1.dimensions is not temperature:", "    if unit2 is None or default_unit_registry is None or unit1.dimensions is not temperature:", ("C12-R3",)),
    Mutant("unit-hash-without-id", UO, "Unit.__hash__", "return int(self.registry.unit_system_id, 16) ^ hash(self.expr)", "return hash(self.expr)", ("C12-R3", "C05-R2")),
    Mutant("deepcopy-inherits-cache", REG, "UnitRegistry.__deepcopy__", "        return type(self)(\n            add_default_symbols=False, lut=lut, unit_system=self.unit_system\n        )", "        ret = type(self)(\n            add_default_symbols=False, lut=lut, unit_system=self.unit_system\n        )\n        ret._unit_object_cache.update(self._unit_object_cache)\n        return ret", ("C12-R1",)),
    Mutant("factor-helper-cached", UO, None, "def _create_unit_from_factor(factor, registry):", "@lru_cache(maxsize=128)\ndef _create_unit_from_factor(factor, registry):", ("C12-R3",)),
    Mutant("copy-from-text", UO, "Unit.copy", "        expr = self.expr\n", "        expr = str(self.expr)\n", ("C12-R1",)),
    Mutant("setstate-global-memo", ARR, "unyt_array.__setstate__", "        self.units = Unit(unit, registry=registry)", "        _SEEN[unit, frozenset(lut)] = Unit(unit, registry=registry)\n        self.units = _SEEN[unit, frozenset(lut)]", ("C12-R1",), more=[(ARR, None, "NULL_UNIT = Unit()\n", "NULL_UNIT = Unit()\n_SEEN = {}\n", 1)]),
    Mutant("twin-em-check-registry-alias", ARR, "unyt_array.in_units", "self.units, units, registry=self.units.registry", "self.units, to_unit=units, registry=self.units.registry", (), benign=True),
    Mutant("unit-value-rewritten", UO, "Unit.as_coeff_unit", "        coeff = float(coeff)\n", "        coeff = float(coeff)\n        self.base_value = self.base_value / coeff\n", ("C12-R4",)),
    Mutant("purge-divides-prefix-out", REG, "UnitRegistry._forget_prefixed", "and derived[:3] == (entry[0] * prefix_value, entry[1], entry[2])", "and (derived[0] / prefix_value, derived[1], derived[2]) == entry[:3]", ("C12-R2",)),
    Mutant("purge-product-commuted", REG, "UnitRegistry._forget_prefixed", "and derived[:3] == (entry[0] * prefix_value, entry[1], entry[2])", "and derived[:3] == (prefix_value * entry[0], entry[1], entry[2])", (), benign=True),
    Mutant("hash-without-expr", UO, "Unit.__hash__", "hash(self.expr)", "hash(self.base_value)", ("C12-R5",)),
    Mutant("copy-looks-the-table-up-again", UO, "Unit.copy", "        return Unit(expr, base_value, base_offset, dimensions, registry)", "        return Unit(expr, registry=registry)", ("C12-R8",)),
    Mutant("simplify-returns-relooked-up-unit", UO, "Unit.simplify", "        self.expr = _cancel_mul(expr, self.registry)\n        return self", "        return Unit(_cancel_mul(expr, self.registry), registry=self.registry)", ("C12-R8",)),
    Mutant("deepcopy-shares-table", "unyt/unit_registry.py", "UnitRegistry.__deepcopy__", "lut = dict(self.lut)", "lut = self.lut", ("C12-R6",)),
    Mutant("deepcopy-readds-defaults", "unyt/unit_registry.py", "UnitRegistry.__deepcopy__", "add_default_symbols=False, lut=lut, unit_system=self.unit_system", "lut=lut, unit_system=self.unit_system", ("C12-R6",)),
]
