"""C13 - registries are isolated from each other and the default registry is read-only."""

from __future__ import annotations

import ast

from engine.core import AnalysisError, Repo, is_raise_of, kwarg_of, norm, walk_no_nested
from engine.flow import enum_paths
from engine.mutate import Mutant
from engine.report import Result

TECHNIQUE = "ownership / alias analysis of the table object reaching every registry construction, who-writes rule for the process-global tables (with parameter write summaries), always-raise rule for the default registry's mutators, registry-selection rule for mixed-registry operations"
LEVEL_TEXT = """Static ownership analysis, which is what isolation reduces to: (R1) at every place where the library itself
constructs a registry (unpickling, HDF5, JSON, deep copy, Unit.copy, the default registry) the table object that reaches
`self.lut` is classified Fresh / Global / Shared / Param - only Fresh tables are allowed, so no two registries and never
the module-level default table share a mutable dict; (R2) nothing stores into, deletes from or calls a mutating method on
default_unit_symbol_lut, unit_prefixes, physical_constants or the default registry's table, and the only function that
writes its table parameter (_lookup_unit_symbol) is never handed a global table; (R3) modify and remove of the default
registry's class only raise TypeError and default_unit_registry is an instance of it; (R4) binary operations create missing
units in the other operand's registry, build results in the left operand's registry, never call a registry mutator and
never re-point an existing Unit object to another registry; (R5) add_symbols / add_constants only build objects in the
given registry and only write into the given namespace.
(R1, extended) a helper that hands back its argument is classified by the actual argument (the unpickled table reaches the registry only through a fresh dict); a deep copy of a Unit owns a deep copy of its registry on every deep path; (R4, extended) decision table of Unit * / Unit over operands of different registries: the result is created in the left operand's registry; (R6) the unit attached to a ufunc result comes from the unit rule or is re-created in that unit's registry (shared with C07-R4)."""
LEVEL_NOTE = """Undecided: interleavings as such (irrelevant if no table is shared). UnitRegistry(lut=...) stores a
caller-supplied dict by reference - aliasing chosen by the caller (public API), recorded as a note; the rule is about the
library's own construction sites. UnitSystem objects registered in the process-global unit_system_registry are shared by
design (named systems) and are not covered."""
EXPLANATION = LEVEL_TEXT
ASSUMPTIONS = ["dict.copy()/dict()/copy.deepcopy return a new dict; tuples in the table are immutable"]

REG = "unyt/unit_registry.py"
UO = "unyt/unit_object.py"
ARR = "unyt/array.py"
US = "unyt/unit_systems.py"

GLOBAL_TABLES = {"default_unit_symbol_lut", "unit_prefixes", "physical_constants", "default_unit_name_alternatives", "name_alternatives", "inv_name_alternatives", "em_conversions", "default_lut"}
MUTATING = {"update", "pop", "popitem", "setdefault", "clear", "__setitem__", "__delitem__"}


def classify(expr, fn, depth=0):
    """ownership class of a table-valued expression inside fn"""
    if expr is None:
        return "Fresh"  # no lut argument: UnitRegistry builds its own {}
    if isinstance(expr, ast.Dict):
        return "Fresh"
    if isinstance(expr, ast.Name):
        if expr.id in GLOBAL_TABLES:
            return "Global"
        defs = [n.value for n in walk_no_nested(fn.node) if isinstance(n, ast.Assign) and any(norm(t) == expr.id for t in n.targets)]
        if expr.id in fn.params and not defs:
            return "Param"
        if not defs or depth > 4:
            return "Unknown"
        classes = {classify(d, fn, depth + 1) for d in defs}
        if classes == {"Fresh"}:
            return "Fresh"
        return sorted(classes - {"Fresh"})[0]
    if isinstance(expr, ast.Call):
        f = norm(expr.func)
        if f in ("dict", "copy.deepcopy", "OrderedDict") or f.endswith(".copy") and not f.startswith("copy."):
            return "Fresh"
        mod = getattr(fn, "mod", None)
        if isinstance(expr.func, ast.Name) and mod is not None and mod.has_func(f) and depth <= 4:
            # a helper of the library: what it returns, classified inside the helper (a parameter handed back is
            # the caller's object: the registry built around it shares it with whoever else holds it)
            g = mod.func(f)
            decos = [norm(d.func) if isinstance(d, ast.Call) else norm(d) for d in getattr(g.node, "decorator_list", [])]
            if any(d.split(".")[-1] in ("lru_cache", "cache", "cached") for d in decos):
                # a memoised helper hands the very same object to every caller with equal arguments
                return f"Shared (memoised result of {f})"
            rets = [n.value for n in walk_no_nested(g.node) if isinstance(n, ast.Return) and n.value is not None]
            if not rets:
                return "Unknown"
            classes = set()
            for r in rets:
                c = classify(r, g, depth + 1)
                if c == "Param" and isinstance(r, ast.Name):
                    # the helper hands back its own argument: the class of the actual argument decides
                    root = r.id
                    defs = [n.value for n in walk_no_nested(g.node) if isinstance(n, ast.Assign) and any(norm(t) == root for t in n.targets)]
                    while root not in g.params and len(defs) == 1 and isinstance(defs[0], ast.Name):
                        root = defs[0].id
                        defs = [n.value for n in walk_no_nested(g.node) if isinstance(n, ast.Assign) and any(norm(t) == root for t in n.targets)]
                    if root in g.params:
                        i = g.params.index(root)
                        actual = expr.args[i] if i < len(expr.args) else kwarg_of(expr, root)
                        c = classify(actual, fn, depth + 1) if actual is not None else "Unknown"
                        if c != "Fresh" and "handed back" not in c:
                            c = f"{c} (handed back by {f})"
                classes.add(c)
            if classes == {"Fresh"}:
                return "Fresh"
            return sorted(classes - {"Fresh"})[0]
        if f == "copy.copy":
            return "Fresh"
        if f in ("json.loads", "pickle.loads"):
            return "Fresh"
        return "Unknown"
    if isinstance(expr, ast.Attribute) and expr.attr == "lut":
        return "Shared"
    return "Unknown"


def check(repo: Repo) -> Result:
    res = Result("C13")
    ownership(repo, res)
    global_writers(repo, res)
    readonly_default(repo, res)
    registry_selection(repo, res)
    parsed_in_own_registry(repo, res)
    registry_parameter_threaded(repo, res)
    namespaces(repo, res)
    from rules import c07
    from rules.common import share

    r6 = res.rule("C13-R6", "the unit attached to a ufunc result comes from the unit rule applied to the operands' units (or is re-created in that unit's registry): never a constant bound to the default registry", floor=4)
    share(res, r6, "C07", lambda t: c07.wrapup_rule(repo, t), ["C07-R4"], want=lambda k: k.startswith("unit-def:"), min_keys=4)
    from rules import c10, memo_rules

    r7 = res.rule("C13-R7", "a registry's unit-string cache and the units handed out for it hold that registry's own definitions: no Unit is built from text together with explicit (foreign) values, and a unit system's unit is re-created in the caller's registry", floor=5)
    for key, ok, where, msg, exp, found in memo_rules.explicit_values(repo):
        res.check(ok, key, where, msg, exp, found, rid=r7)
    ok_reg, found_reg = c10.base_equivalent_in_own_registry(repo)
    res.check(ok_reg, "get_base_equivalent:own-registry", repo.mod(UO).func("Unit.get_base_equivalent").where(), "get_base_equivalent hands out the unit system's own Unit object (bound to the system's registry, the default one for built-in systems) instead of re-creating it in the caller's registry: results of in_base on data of registry B carry registry A's numbers and change when A is edited", "Unit(..., registry=self.registry)", found_reg, rid=r7)
    return res


def ownership(repo, res):
    r1 = res.rule("C13-R1", "the table object reaching a registry constructed by the library is fresh (never the global table, never another registry's)", floor=6)
    reg = repo.mod(REG)
    init = reg.func("UnitRegistry.__init__")
    res.fn(init)
    txt = norm(init.node)
    ok = "if lut:\n        self.lut = lut\n    else:\n        self.lut = {}" in txt and "self.lut.update(default_unit_symbol_lut)" in txt and "self._unit_object_cache = {}" in txt
    res.check(ok, "init", init.where(), "a registry without lut gets its own dict, the defaults are copied into it (update), and every registry gets its own unit cache", rid=r1)
    res.note("UnitRegistry(lut=d) stores the caller's dict by reference (public API; aliasing chosen by the caller)")
    n_sites = 0
    for mod in repo.mods(only_anchor=False):
        for q, fns in mod.funcs.items():
            for f in fns:
                for c in walk_no_nested(f.node):
                    if not isinstance(c, ast.Call):
                        continue
                    fname = norm(c.func)
                    is_ctor = fname in ("UnitRegistry", "_NonModifiableUnitRegistry") or (mod.rel == REG and fname in ("cls", "type(self)") and q.startswith("UnitRegistry."))
                    if not is_ctor:
                        continue
                    n_sites += 1
                    lut = kwarg_of(c, "lut") or (c.args[1] if len(c.args) > 1 else None)
                    cl = classify(lut, f)
                    # a module-level helper whose whole body is `return UnitRegistry(lut=<its parameter>, ...)` is judged at
                    # its call sites (the normal form has substituted it there)
                    if cl.startswith("Param") and "." not in q and not f.node.decorator_list:
                        body_ = [s_ for s_ in f.node.body if not (isinstance(s_, ast.Expr) and isinstance(s_.value, ast.Constant))]
                        if len(body_) == 1 and isinstance(body_[0], ast.Return) and body_[0].value is c:
                            n_sites -= 1
                            continue
                    key = f"{mod.rel.split('/')[-1]}:{q}"
                    res.check(cl == "Fresh", key, f.where(c), f"{q} constructs a registry around a table that is {cl}: the new registry and its source share one mutable dict", "Fresh", f"{cl} ({norm(lut) if lut is not None else 'none'})", rid=r1)
    # registry objects obtained by copying
    for mod in repo.mods(only_anchor=False):
        for q, fns in mod.funcs.items():
            for f in fns:
                for c in walk_no_nested(f.node):
                    if isinstance(c, ast.Call) and norm(c.func) == "copy.copy" and c.args and norm(c.args[0]).endswith("registry"):
                        res.bad(f"{mod.rel.split('/')[-1]}:{q}:shallow-registry-copy", f.where(c), f"{q} shallow-copies a registry: the copy is a second registry object sharing the table and the unit cache of the original", "copy.deepcopy or the same registry object", norm(c), rid=r1)
    # Unit.copy(deep=True) / deepcopy(unit): the copy must own a copy of the registry on EVERY deep path - also when
    # the original lives in the default registry: add() is allowed there, and through a shared object it would edit
    # the process-wide default table
    from engine.sem import summarise
    from rules.common import bind_call

    uo_ = repo.mod(UO)
    cp = uo_.func("Unit.copy")
    res.fn(cp)
    newf = uo_.func("Unit.__new__")
    n_deep = 0
    shared = []
    for x in summarise(cp):
        if x.kind != "return":
            continue
        v = ast.parse(x.value, mode="eval").body
        if not (isinstance(v, ast.Call) and norm(v.func) == "Unit"):
            raise AnalysisError(f"{cp.where()}: Unit.copy returns something that is not a Unit(...) call: {x.value[:60]}")
        rg = bind_call(v, newf, skip_self=True).get("registry")
        # a conditional expression in the argument is one more branch on `deep`
        alts = [(None, rg)]
        if isinstance(rg, ast.IfExp) and norm(rg.test) in ("deep", "not deep"):
            pos = norm(rg.test) == "deep"
            alts = [(True, rg.body if pos else rg.orelse), (False, rg.orelse if pos else rg.body)]
        for deep_here, e_ in alts:
            is_deep = x.has("deep", True) if deep_here is None else (deep_here and not x.has("deep", False))
            if not is_deep:
                continue
            n_deep += 1
            txt = norm(e_) if e_ is not None else None
            if txt not in ("copy.deepcopy(self.registry)", "deepcopy(self.registry)"):
                shared.append((sorted(f"{t}={tr}" for t, tr in x.facts), txt))
    if n_deep == 0:
        raise AnalysisError(f"{cp.where()}: no path of Unit.copy with deep=True found")
    res.check(not shared, "Unit.copy:deep-owns-registry", cp.where(), "a deep copy of a unit shares its registry object with the original on some path: an add() through the copy's registry edits the original's table (for default-registry units: the process-wide default table)", "registry=copy.deepcopy(self.registry) on every deep path", shared[:2], rid=r1)
    dcu = uo_.func("Unit.__deepcopy__")
    rets = [norm(n.value) for n in walk_no_nested(dcu.node) if isinstance(n, ast.Return)]
    res.check(rets in (["self.copy(deep=True)"],), "Unit.__deepcopy__", dcu.where(), "copy.deepcopy(unit) is unit.copy(deep=True)", found=rets, rid=r1)
    # copy.deepcopy(array): the unit handed to the copy is itself a deep copy (own registry); Unit.copy() without
    # deep=True keeps the original's registry object by design
    arr_ = repo.mod(ARR)
    dca = arr_.func("unyt_array.__deepcopy__")
    res.fn(dca)
    env_ = {}
    for n_ in walk_no_nested(dca.node):
        if isinstance(n_, ast.Assign) and len(n_.targets) == 1 and isinstance(n_.targets[0], ast.Name):
            env_.setdefault(n_.targets[0].id, []).append(n_.value)
    deep_forms = ("copy.deepcopy(self.units)", "deepcopy(self.units)", "self.units.copy(deep=True)", "self.units.__deepcopy__(memodict)", "copy.deepcopy(self.units, memodict)", "deepcopy(self.units, memodict)")
    n_ctor = 0
    shallow = []
    for r_ in walk_no_nested(dca.node):
        if not (isinstance(r_, ast.Return) and isinstance(r_.value, ast.Call)):
            continue
        c_ = r_.value
        if norm(c_.func) not in ("type(self)", "self.__class__", "unyt_array", "unyt_quantity", "cls"):
            continue
        n_ctor += 1
        u_ = c_.args[1] if len(c_.args) > 1 else (kwarg_of(c_, "units") or kwarg_of(c_, "input_units"))
        vals = [u_]
        if isinstance(u_, ast.Name) and u_.id in env_:
            vals = env_[u_.id]
        for v_ in vals:
            if v_ is None or norm(v_) not in deep_forms:
                shallow.append(norm(v_) if v_ is not None else None)
    if n_ctor == 0:
        raise AnalysisError(f"{dca.where()}: unyt_array.__deepcopy__ does not return a constructed array")
    res.check(not shallow, "unyt_array.__deepcopy__:deep-unit", dca.where(), "a deep-copied array is given a unit that still refers to the original's registry object: add / modify / remove through either object's registry changes what the other resolves (for default-registry data, an add() through the copy edits the process-wide table)", "copy.deepcopy(self.units) / self.units.copy(deep=True)", shallow[:2], rid=r1)
    # per-registry state lives on the instance.  A class-level container with the name of an attribute that the package
    # mutates in place (registry._unit_object_cache[text] = unit, self.lut.pop(..)) is one object shared by every
    # registry whose __init__ did not run or whose state left it out (unpickling, copy.copy): what one registry
    # memoises is then served to the others
    mutated_ = set()
    for mod_ in repo.mods(only_anchor=False):
        for n_ in ast.walk(mod_.tree):
            tgt_ = None
            if isinstance(n_, (ast.Assign, ast.AugAssign, ast.Delete)):
                for t_ in (n_.targets if not isinstance(n_, ast.AugAssign) else [n_.target]):
                    if isinstance(t_, ast.Subscript) and isinstance(t_.value, ast.Attribute):
                        mutated_.add(t_.value.attr)
            elif isinstance(n_, ast.Call) and isinstance(n_.func, ast.Attribute) and n_.func.attr in ("pop", "clear", "update", "setdefault", "append", "add", "popitem", "remove", "extend") and isinstance(n_.func.value, ast.Attribute):
                mutated_.add(n_.func.value.attr)
    for cname in ("UnitRegistry", "_NonModifiableUnitRegistry"):
        cd_ = reg.classes.get(cname)
        if cd_ is None:
            raise AnalysisError(f"{REG}: class {cname} not found")
        shared_ = []
        for st in cd_.body:
            if isinstance(st, (ast.Assign, ast.AnnAssign)) and getattr(st, "value", None) is not None:
                v_ = st.value
                container = isinstance(v_, (ast.Dict, ast.List, ast.Set, ast.DictComp, ast.ListComp, ast.SetComp)) or (isinstance(v_, ast.Call) and norm(v_.func) in ("dict", "list", "set", "OrderedDict", "defaultdict", "collections.OrderedDict", "collections.defaultdict"))
                names_ = [norm(t) for t in (st.targets if isinstance(st, ast.Assign) else [st.target])]
                if container and any(nm in mutated_ for nm in names_):
                    shared_.append(names_[0])
        res.check(not shared_, f"{cname}:no-class-level-state", f"{REG} class {cname}", f"{cname} keeps {shared_} as a class-level container although the package mutates that attribute in place: every registry that did not get its own (restored from a pickle, shallow-copied) shares one object with all others", "per-instance containers only", shared_, rid=r1)
    # a registry argument is tested for presence by truth value in several places (Unit.__new__: `if registry and ...`,
    # `registry or default`): the registry classes must not define __len__ / __bool__, or an empty registry
    # (add_default_symbols=False) counts as absent and the default registry is used - and edited - instead
    for cname in ("UnitRegistry", "_NonModifiableUnitRegistry"):
        cd_ = reg.classes.get(cname)
        if cd_ is None:
            raise AnalysisError(f"{REG}: class {cname} not found")
        falsy = [st.name for st in cd_.body if isinstance(st, ast.FunctionDef) and st.name in ("__len__", "__bool__")]
        res.check(not falsy, f"{cname}:no-truth-value", f"{REG} class {cname}", f"{cname} defines {falsy}: an empty registry becomes falsy, and code that tests `if registry` / `registry or default_unit_registry` silently works on the default registry", "no __len__ / __bool__", falsy, rid=r1)
    truthy_default = []
    for mod_ in repo.mods(only_anchor=False):
        for q_, fns_ in mod_.funcs.items():
            for f_ in fns_:
                for n_ in walk_no_nested(f_.node):
                    if isinstance(n_, ast.BoolOp) and isinstance(n_.op, ast.Or) and len(n_.values) == 2 and norm(n_.values[0]) in ("registry", "unit_registry") and "default_unit_registry" in norm(n_.values[1]):
                        truthy_default.append((mod_.rel, q_, norm(n_)))
    res.check(not truthy_default, "registry-or-default", "unyt/*.py", "a registry argument is replaced by the default registry on its truth value (`registry or default_unit_registry`) instead of `is None`", "if registry is None: registry = default_unit_registry", truthy_default[:3], rid=r1)
    # module-level default registry
    d = reg.assign("default_unit_registry")
    res.check(isinstance(d, ast.Call) and norm(d) == "_NonModifiableUnitRegistry()", "default-registry", REG, "the default registry is built with its own table (no lut argument) by the non-modifiable class", found=norm(d), rid=r1)
    # the unit-string cache holds Unit objects bound to their registry: it is owned like the table
    from rules import memo_rules

    for key, ok, where, msg, exp, found in memo_rules.unit_cache_writers(repo):
        res.check(ok, key, where, msg, exp, found, rid=r1)
    # a pickle carries the registry's whole table: a table filtered against the default registry would make the
    # restored registry resolve names from whatever the default registry holds in the loading process
    rd = repo.mod(ARR).func("unyt_array.__reduce__")
    res.fn(rd)
    pairs = [t for t in ast.walk(rd.node) if isinstance(t, ast.Tuple) and len(t.elts) == 2 and norm(t.elts[0]) in ("str(self.units)", "self.units.__str__()")]
    if len(pairs) != 1:
        raise AnalysisError(f"{rd.where()}: the pickled (unit text, table) pair was not found")
    tab = pairs[0].elts[1]
    shown = norm(tab)
    if isinstance(tab, ast.Name):
        ds = [n.value for n in walk_no_nested(rd.node) if isinstance(n, ast.Assign) and norm(n.targets[0]) == tab.id]
        tab = ds[0] if len(ds) == 1 else None
        shown = f"{shown} = {norm(tab) if tab is not None else '?'}"
    whole = ("self.units.registry.lut", "dict(self.units.registry.lut)", "self.units.registry.lut.copy()")
    res.check(tab is not None and norm(tab) in whole, "pickle:complete-table", rd.where(), "the pickled table is not the registry's complete table: names left out are refilled from the default registry of the loading process, so what the restored registry resolves depends on another registry's contents (a modified built-in symbol is reset, a symbol also defined in the default registry is dropped)", "self.units.registry.lut", shown, rid=r1)
    dc = reg.func("UnitRegistry.__deepcopy__")
    res.fn(dc)
    lutdef = [norm(n.value) for n in walk_no_nested(dc.node) if isinstance(n, ast.Assign) and norm(n.targets[0]) == "lut"]
    res.check(lutdef in (["dict(self.lut)"], ["self.lut.copy()"], ["copy.deepcopy(self.lut)"]), "deepcopy-table", dc.where(), "a deep copy owns a new table", found=lutdef, rid=r1)


def _writes_param(fn, pname):
    for n in walk_no_nested(fn.node):
        if isinstance(n, (ast.Assign, ast.AugAssign, ast.Delete)):
            tg = n.targets if not isinstance(n, ast.AugAssign) else [n.target]
            for t in tg:
                if isinstance(t, ast.Subscript) and norm(t.value) == pname:
                    return True
        if isinstance(n, ast.Call) and isinstance(n.func, ast.Attribute) and n.func.attr in MUTATING and norm(n.func.value) == pname:
            return True
    return False


def global_writers(repo, res):
    r2 = res.rule("C13-R2", "nobody writes the process-global tables (directly, by mutating method, or through a parameter the callee writes)", floor=3)
    direct = []
    for mod in repo.mods(only_anchor=False):
        nodes = list(ast.walk(mod.tree))
        for n in nodes:
            if isinstance(n, (ast.Assign, ast.AugAssign, ast.Delete)):
                tg = n.targets if not isinstance(n, ast.AugAssign) else [n.target]
                for t in tg:
                    if isinstance(t, ast.Subscript):
                        base = norm(t.value)
                        if base in GLOBAL_TABLES or base in ("default_unit_registry.lut", "_registry.lut", "_default_unit_registry.lut"):
                            direct.append((mod.rel, n.lineno, norm(n)[:80]))
            if isinstance(n, ast.Call) and isinstance(n.func, ast.Attribute) and n.func.attr in MUTATING:
                base = norm(n.func.value)
                if base in GLOBAL_TABLES or base in ("default_unit_registry.lut",):
                    direct.append((mod.rel, n.lineno, norm(n)[:80]))
    # em_dimensions completes itself at import (module-level loop) - not one of the guarded tables
    res.check(not direct, "direct-writers", "unyt/*.py", "a statement writes into a process-global table", "none", direct, rid=r2)
    # parameter write summaries
    reg = repo.mod(REG)
    from rules.anchors import lookup_symbol

    lk = lookup_symbol(repo)
    sp = repo.mod(US).func("_split_prefix")
    res.check(_writes_param(lk, lk.params[1]) and not _writes_param(sp, sp.params[1]), "summaries", REG, "summary: _lookup_unit_symbol writes its table parameter, _split_prefix only reads it", rid=r2)
    bad = []
    n_calls = 0
    for mod in repo.mods(only_anchor=False):
        for q, fns in mod.funcs.items():
            for f in fns:
                for c in walk_no_nested(f.node):
                    if isinstance(c, ast.Call) and norm(c.func) == lk.name and len(c.args) >= 2:
                        n_calls += 1
                        a = c.args[1]
                        cls_ = "Global" if norm(a) in GLOBAL_TABLES else "ok"
                        # a parameter that callers bind to a global table
                        if isinstance(a, ast.Name) and a.id in f.params:
                            cls_ = _param_bound_to_global(repo, f, a.id)
                        if cls_ != "ok":
                            bad.append((f.where(c), norm(c)))
    res.check(not bad and n_calls >= 3, "table-writer-never-gets-global", REG, "_lookup_unit_symbol (which writes derived rows into its table) is handed a process-global table", "registry-owned tables only", bad, rid=r2)


def _param_bound_to_global(repo, fn, pname):
    """do callers of fn (by simple name) pass a global table for parameter pname?"""
    idx = fn.params.index(pname)
    for mod in repo.mods(only_anchor=False):
        for q, fns in mod.funcs.items():
            for f in fns:
                for c in walk_no_nested(f.node):
                    if isinstance(c, ast.Call) and norm(c.func) == fn.name and len(c.args) > idx:
                        if norm(c.args[idx]) in GLOBAL_TABLES:
                            return "Global"
    return "ok"


def readonly_default(repo, res):
    r3 = res.rule("C13-R3", "modify/remove of the default registry always refuse", floor=3)
    reg = repo.mod(REG)
    cls = reg.classes.get("_NonModifiableUnitRegistry")
    res.check(cls is not None and [norm(b) for b in cls.bases] == ["UnitRegistry"], "class", REG, "the default registry's class derives from UnitRegistry", rid=r3)
    for m in ("modify", "remove"):
        fn = reg.func(f"_NonModifiableUnitRegistry.{m}")
        ok = all(p[-1][0] == "raise" and is_raise_of(p[-1][1], "TypeError") for p in enum_paths(fn.body))
        res.check(ok, m, fn.where(), f"{m} on the default registry must have `raise TypeError` as its only exit", rid=r3)
    # nobody calls the base-class mutators unbound
    bad = []
    for mod in repo.mods(only_anchor=False):
        for n in ast.walk(mod.tree):
            if isinstance(n, ast.Call) and norm(n.func) in ("UnitRegistry.modify", "UnitRegistry.remove"):
                bad.append((mod.rel, n.lineno))
    res.check(not bad, "no-unbound-bypass", "unyt/*.py", "UnitRegistry.modify/remove are never called unbound (which would bypass the refusal)", found=bad, rid=r3)


def parsed_in_own_registry(repo, res):
    """C13-R8: a method of unyt_array that reads a unit argument in the data's own registry
    (`x = Unit(<parameter>, registry=self.units.registry)`) uses the parsed unit from then on.  Handing the raw
    argument (possibly a string) to a later conversion of an intermediate object lets *that* object's registry read the
    text - for intermediate results bound to the default registry (a physical constant on the left of a product) a symbol
    the data's registry adds or re-defines is unknown or has the default definition."""
    r8 = res.rule("C13-R8", "a unit argument parsed in the data's own registry is used in its parsed form afterwards: the raw argument is not handed to later conversions", floor=2)
    arr = repo.mod(ARR)
    n = 0
    for q, fns in arr.funcs.items():
        if not q.startswith("unyt_array."):
            continue
        for f in fns:
            for st in walk_no_nested(f.node):
                if not (isinstance(st, ast.Assign) and isinstance(st.value, ast.Call) and norm(st.value.func) == "Unit" and st.value.args and isinstance(st.value.args[0], ast.Name) and st.value.args[0].id in f.params and len(st.targets) == 1 and isinstance(st.targets[0], ast.Name)):
                    continue
                reg_ = kwarg_of(st.value, "registry")
                if reg_ is None or not norm(reg_).startswith("self."):
                    continue
                raw, parsed = st.value.args[0].id, st.targets[0].id
                n += 1
                res.fn(f)
                later = []
                for c in walk_no_nested(f.node):
                    if isinstance(c, ast.Call) and getattr(c, "lineno", 0) > st.lineno and c is not st.value:
                        if isinstance(c.func, ast.Attribute) and c.func.attr in ("in_units", "to", "convert_to_units", "to_value", "in_base", "to_equivalent", "convert_to_equivalent", "get_conversion_factor"):
                            if any(isinstance(a, ast.Name) and a.id == raw for a in list(c.args) + [k.value for k in c.keywords]):
                                later.append(norm(c))
                res.check(not later, f"{q}:{raw}->{parsed}", f.where(st), f"{q} parses {raw!r} in the array's own registry as {parsed!r} but later hands the raw {raw!r} to a conversion: a unit string is then read by the registry of the intermediate result (the default registry when a constant was on the left), not by the data's registry", f"{parsed} in every later conversion", later[:2], rid=r8)
    if n < 2:
        raise AnalysisError(f"{ARR}: fewer than two `Unit(<parameter>, registry=self...)` parsing sites found")


def registry_parameter_threaded(repo, res):
    """C13-R9: a function that is handed a registry (parameter `registry` / `unit_registry`) reads unit text in that
    registry: every Unit(<text or expression>) it builds passes the parameter on.  A Unit(...) without it is parsed by
    the default registry - symbols the caller's registry adds are unknown there, symbols it re-defines get the default
    meaning."""
    r9 = res.rule("C13-R9", "functions that take a registry parameter pass it to every Unit they build from an argument", floor=3)
    n = 0
    for rel in (ARR, UO):
        mod = repo.mod(rel)
        for q, fns in mod.funcs.items():
            for f in fns:
                regs = [p for p in f.params if p in ("registry", "unit_registry")]
                if not regs or q in ("Unit.__new__",):
                    continue
                sites = [c for c in walk_no_nested(f.node) if isinstance(c, ast.Call) and norm(c.func) == "Unit" and c.args]
                if not sites:
                    continue
                missing = [norm(c)[:70] for c in sites if kwarg_of(c, "registry") is None and len(c.args) < 5]
                n += 1
                res.check(not missing, f"{rel.split('/')[-1]}:{q}:registry-threaded", f.where(), f"{q} takes the registry {regs[0]!r} but builds a Unit without it: that unit text is read by the default registry (unyt_quantity.from_string('foo', unit_registry=r) raises for a symbol only r defines)", f"Unit(..., registry={regs[0]})", missing[:2], rid=r9)
    if n < 3:
        raise AnalysisError("fewer than three functions with a registry parameter that build Units were found")


def registry_selection(repo, res):
    r4 = res.rule("C13-R4", "mixed-registry operations use an operand's registry, never mutate a registry and never re-point an existing Unit", floor=4)
    arr = repo.mod(ARR)
    fn = arr.func("unyt_array.__array_ufunc__")
    res.fn(fn)
    txt = norm(fn.node)
    ok = "u0 = Unit(registry=getattr(u1, 'registry', None))" in txt and "u1 = Unit(registry=getattr(u0, 'registry', None))" in txt
    res.check(ok, "missing-operand-unit", fn.where(), "the unit of a bare operand is created in the other operand's registry", rid=r4)
    muts = []
    for mod in (arr, repo.mod(UO), repo.mod("unyt/_array_functions.py"), repo.mod("unyt/equivalencies.py")):
        for q, fns in mod.funcs.items():
            if q in ("define_unit",):
                continue
            for f in fns:
                for c in walk_no_nested(f.node):
                    if isinstance(c, ast.Call) and isinstance(c.func, ast.Attribute) and c.func.attr in ("add", "modify", "remove") and "registry" in norm(c.func.value):
                        muts.append((mod.rel, q, norm(c)[:60]))
    res.check(not muts, "no-mutator-calls", ARR, "array / unit / handler code calls a registry mutator", found=muts, rid=r4)
    # re-pointing an existing Unit object
    rep = []
    for mod in repo.mods(only_anchor=False):
        for q, fns in mod.funcs.items():
            for f in fns:
                if mod.rel == UO and q == "Unit.__new__":
                    continue
                for n in walk_no_nested(f.node):
                    if isinstance(n, ast.Assign):
                        for t in n.targets:
                            if isinstance(t, ast.Attribute) and t.attr == "registry" and not (isinstance(t.value, ast.Name) and t.value.id == "self"):
                                rep.append((mod.rel, q, norm(n), f.where(n)))
    if rep:
        for rel, q, text, where in rep:
            res.bad(f"repoint:{rel.split('/')[-1]}:{q}:{text}", where, f"{q} assigns the .registry of an existing Unit object ({text}): a unit shared with other arrays / the exported namespace silently moves to another registry", "build a new Unit in the target registry", text, rid=r4)
    else:
        res.ok("repoint:none", r4)
    # memoised unit rules: the remembered result is a Unit bound to the registry of the *first* caller.  lru_cache
    # finds entries by Unit.__hash__/__eq__, which look at table contents and (scale, offset, dimension) but not at
    # which registry object the unit belongs to: operands from a second registry with equal contents are served the
    # first registry's unit, and later edits of the first registry then act on the second one's results.
    from engine import memo

    uo = repo.mod(UO)
    eqf = uo.func("Unit.__eq__")
    eq_sees_registry = any(isinstance(n, ast.Attribute) and n.attr == "registry" for n in ast.walk(eqf.node))
    n_c = 0
    for f in memo.cached_functions(repo):
        if f.mod.rel != ARR:
            continue
        rets = [n.value for n in walk_no_nested(f.node) if isinstance(n, ast.Return) and n.value is not None]
        defs, opaque = memo.local_defs(f)
        carries = any(memo.roots(r, defs, set(f.params), opaque=opaque) & set(f.params) for r in rets)
        if not carries:
            continue
        n_c += 1
        res.check(eq_sees_registry, f"cached-rule-registry:{f.qualname}", f.where(), f"{f.qualname} is memoised by Unit equality, which ignores the registry a unit belongs to: operands from a second registry with the same contents get a result unit bound to the first registry (a later edit of that registry changes how the second registry's result converts)", "cache key distinguishes registries, or the result is re-created in the operand's registry", "Unit.__eq__ compares scale, offset and dimension only", rid=r4)
    if n_c < 5:
        raise AnalysisError("memoised unit rules not found in array.py")
    # Unit * Unit, Unit / Unit on operands of two registries: decision table over abstract units, each living in a
    # registry of its own - whatever branch is taken, the result is created in the left operand's registry
    from engine.dtable import Rec
    from rules import c08

    for dunder, sym in (("__mul__", "*"), ("__truediv__", "/")):
        fnm = uo.func(f"Unit.{dunder}")
        res.fn(fnm)
        rows = c08.unit_op_table(repo, dunder)
        wrong, n_ret = [], 0
        for (an, bn), (a_, b_, out) in rows.items():
            if out.kind != "return":
                continue
            if not isinstance(out.value, Rec):
                raise AnalysisError(f"{fnm.where()}: Unit.{dunder}({an}, {bn}) returns something that is not a modelled unit")
            n_ret += 1
            if out.value.attrs.get("registry") is not a_.attrs["registry"]:
                wrong.append(f"{an} {sym} {bn} is created in {out.value.attrs.get('registry')}")
        if n_ret < 20:
            raise AnalysisError(f"{fnm.where()}: decision table of Unit.{dunder} has only {n_ret} returning rows")
        res.check(not wrong, f"Unit.{dunder}:left-registry", fnm.where(), f"Unit.{dunder} over {n_ret} operand pairs from different registries: the result belongs to the left operand's registry" + (f" - {wrong[0]}" if wrong else ""), "registry of the left operand", wrong[:3], rid=r4)
    # quantity * Unit (Unit.__mul__ / __rmul__ with an operand that carries units): the product is built with the
    # quantity's unit as the LEFT factor, so the result lives in the quantity's registry (Unit * Unit keeps the left
    # factor's registry, table above)
    from engine.sem import summarise as _summ

    mulf = uo.func("Unit.__mul__")
    other = mulf.params[1]
    n_q, wrong_q = 0, []
    for x in _summ(mulf):
        if x.kind != "return" or not x.has(f"getattr({other}, 'units', None) is None", False) or not x.has(f"getattr({other}, 'is_Unit', False)", False):
            continue
        v = ast.parse(x.value, mode="eval").body
        if not (isinstance(v, ast.Call) and len(v.args) >= 2):
            raise AnalysisError(f"{mulf.where()}: quantity branch of Unit.__mul__ returns something unexpected: {x.value[:80]}")
        n_q += 1
        u_arg = v.args[1]
        ok_q = isinstance(u_arg, ast.BinOp) and isinstance(u_arg.op, ast.Mult) and norm(u_arg.left) == f"getattr({other}, 'units', None)" and norm(u_arg.right) == "self"
        if not ok_q:
            wrong_q.append(norm(u_arg))
    if n_q < 2:
        raise AnalysisError(f"{mulf.where()}: quantity branch of Unit.__mul__ not found")
    res.check(not wrong_q, "Unit.__mul__:quantity-operand-left", mulf.where(), "for `quantity * Unit` the result's unit must be (quantity's unit) * (the Unit): with the factors the other way round the product is created in the Unit's registry - data of registry A multiplied by unyt.s end up in the default registry", f"getattr({other}, 'units', None) * self", wrong_q[:2], rid=r4)
    # unyt_array.__new__: a unit from another registry is re-created, not re-pointed (validated route)
    new = arr.func("unyt_array.__new__")
    res.fn(new)
    res.check("units = Unit(str(input_units), registry=registry)" in norm(new.node), "new:recreate", new.where(), "with validation, a unit from another registry is re-created from its text in the requested registry", rid=r4)


def namespaces(repo, res):
    r5 = res.rule("C13-R5", "add_symbols / add_constants build objects in the given registry and write only into the given namespace", floor=2)
    us = repo.mod(US)
    for name in ("add_symbols", "add_constants"):
        fn = us.func(name)
        res.fn(fn)
        ns, rg = fn.params
        stores = []
        other = []
        for n in walk_no_nested(fn.node):
            if isinstance(n, ast.Assign):
                for t in n.targets:
                    if isinstance(t, ast.Subscript):
                        (stores if norm(t.value) == ns else other).append(norm(n))
                    elif isinstance(t, ast.Attribute):
                        other.append(norm(n))
        ctor = [c for c in walk_no_nested(fn.node) if isinstance(c, ast.Call) and norm(c.func) in ("Unit", "unyt_quantity")]
        ok = bool(stores) and not other and ctor and all(kwarg_of(c, "registry") is not None and norm(kwarg_of(c, "registry")) == rg for c in ctor)
        res.check(ok, name, fn.where(), f"{name} must construct every object with registry={rg} and store only into {ns}", found=(other, [norm(c)[:60] for c in ctor]), rid=r5)


MUTANTS = [
    Mutant("json-table-memoised", "unyt/unit_registry.py", None, "def _correct_old_unit_registry(", "@lru_cache(maxsize=None)\ndef _correct_old_unit_registry(", ("C13-R1",)),
    Mutant("hdf5-shares-default", ARR, "unyt_array.from_hdf5", "unit_lut = default_unit_symbol_lut.copy()", "unit_lut = default_unit_symbol_lut", ("C13-R1", "C13-R2")),
    Mutant("array-deepcopy-shares-registry", ARR, "unyt_array.__deepcopy__", "copy.deepcopy(self.units)", "self.units.copy()", ("C13-R1",), count=2),
    Mutant("class-level-unit-cache", REG, None, "    _unit_system_id = None\n", "    _unit_system_id = None\n    _unit_object_cache = {}\n", ("C13-R1",)),
    Mutant("to-equivalent-reparses-raw-unit", ARR, "unyt_array.to_equivalent", "return new_arr.in_units(conv_unit)", "return new_arr.in_units(unit)", ("C13-R8",)),
    Mutant("from-string-parses-in-default-registry", ARR, "unyt_array.from_string", "            unit = re.match(_UNIT_REGEXP, v).group()\n", "            unit = Unit(re.match(_UNIT_REGEXP, v).group())\n", ("C13-R9",)),
    Mutant("deepcopy-shares", REG, "UnitRegistry.__deepcopy__", "lut = dict(self.lut)", "lut = self.lut", ("C13-R1",)),
    Mutant("init-aliases-default", REG, "UnitRegistry.__init__", "            self.lut = {}\n", "            self.lut = default_unit_symbol_lut\n", ("C13-R1", "C13-R2")),
    Mutant("init-shared-cache", REG, "UnitRegistry.__init__", "        self._unit_object_cache = {}\n", "        self._unit_object_cache = _shared_cache\n", ("C13-R1",)),
    Mutant("default-table-written", REG, "_lookup_unit_symbol", "        unit_symbol_lut[symbol_str] = ret\n", "        unit_symbol_lut[symbol_str] = ret\n        default_unit_symbol_lut[symbol_str] = ret\n", ("C13-R2",)),
    Mutant("unit-system-uses-writer", US, "UnitSystem.__init__", "                bu = _split_prefix(str(unit), default_lut)[1]", "                bu = _lookup_unit_symbol(str(unit), default_lut)[1]", ("C13-R2",)),
    Mutant("default-modifiable", REG, "_NonModifiableUnitRegistry.modify", 'raise TypeError("Units from unyt\'s default registry cannot be modified.")', "return UnitRegistry.modify(self, symbol, base_value)", ("C13-R3",)),
    Mutant("ufunc-default-registry", ARR, "unyt_array.__array_ufunc__", 'u0 = Unit(registry=getattr(u1, "registry", None))', "u0 = Unit()", ("C13-R4",)),
    Mutant("constants-default-registry", US, "add_constants", "quan = unyt_quantity(value, unit_name, registry=registry)", "quan = unyt_quantity(value, unit_name)", ("C13-R5", "C15-R5")),
    Mutant("mul-null-fastpath-right-registry", UO, "Unit.__mul__", "        base_offset = 0.0\n        if self.base_offset or u.base_offset:\n            if u.dimensions", "        if self.expr is sympy_one and self.base_value == 1.0:\n            return u.copy()\n        base_offset = 0.0\n        if self.base_offset or u.base_offset:\n            if u.dimensions", ("C13-R4",)),
    Mutant("mul-null-fastpath-left-copy", UO, "Unit.__mul__", "        base_offset = 0.0\n        if self.base_offset or u.base_offset:\n            if u.dimensions", "        if u.expr is sympy_one and u.base_value == 1.0:\n            return self.copy()\n        base_offset = 0.0\n        if self.base_offset or u.base_offset:\n            if u.dimensions", (), benign=True),
    Mutant("old-registry-fixed-in-place", REG, "_correct_old_unit_registry", "    lut = {}\n", "    lut = data\n", ("C13-R1",)),
    Mutant("deep-copy-shares-default-registry", UO, "Unit.copy", "        if deep:\n", "        if deep and self.registry is not default_unit_registry:\n", ("C13-R1",)),
    Mutant("ratio-shortcut-null-unit", ARR, "unyt_array.__array_ufunc__", "unit = Unit(registry=unit.registry)", "unit = NULL_UNIT", ("C13-R6",)),
    Mutant("bypass-branch-text-with-values", ARR, "unyt_array.__new__", "                    input_units.expr,\n", "                    str(input_units),\n", ("C13-R7",)),
    Mutant("base-equivalent-foreign-registry", UO, "Unit.get_base_equivalent", "        return Unit(new_units, registry=self.registry)", "        return new_units", ("C13-R7",)),
]
