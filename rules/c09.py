"""C09 - equivalence conversions: branch tables as monomial formulas."""

from __future__ import annotations

import ast
import itertools
from fractions import Fraction

from engine.core import AnalysisError, Repo, kwarg_of, norm, walk_no_nested
from engine.domains import Mono
from engine.flow import enum_paths, path_calls, path_facts
from engine.fold import ONE, DimVec, Tables
from engine.mutate import Mutant
from engine.report import Result
from spec import equivalence_formulas as SPEC

TECHNIQUE = "abstract interpretation of each _convert branch table in the dimension and monomial domains; inverse/path laws by monomial composition; structural path rules for out= threading and entry-point gates"
LEVEL_TEXT = """Static, exhaustive over the finite branch tables: for all 9 equivalence classes and all 30 ordered
pairs of member dimensions the _convert if-tree is walked with the pair as facts; every pair must reach a return whose
dimension type is the target dimension and whose formula, as a monomial over {x, library constants, keyword parameters},
equals the reference physical formula; inverse (pair) and path (triple) laws are decided by composing the monomials.
In-place purity is decided structurally: every NumPy call threads out=self._get_out(x), x is never read again after the
first call that may overwrite it, only convert_to_equivalent constructs an in-place equivalence, and the entry points
gate on membership / has_equivalent and end with the final unit conversion."""
LEVEL_NOTE = """Undecided: floating-point agreement over many decades; the Lorentz inverse law (not a monomial; only
exhaustiveness, dimension typing and out-threading are decided for it); NumPy's behaviour for out= on unyt arrays is
trusted. Constants are taken from the folded physical_constants table (C15 checks their values)."""
EXPLANATION = LEVEL_TEXT
ASSUMPTIONS = [
    "np.multiply/true_divide/sqrt/power/subtract have their usual algebraic meaning",
    "unyt.physical_constants exposes every constant under its key, its aliases and the _mks/_cgs suffixes (C15-R5)",
]

from engine.algebra import Prod  # noqa: E402
from engine.algebra import add as alg_add  # noqa: E402
from engine.algebra import sub as alg_sub  # noqa: E402

EQ = "unyt/equivalencies.py"
ARR = "unyt/array.py"
UO = "unyt/unit_object.py"


class Q:
    """abstract quantity: dimension vector + monomial formula"""

    def __init__(self, dim, mono, isx=False, kind="float", alg=None):
        self.dim = dim
        self.mono = mono
        self.isx = isx
        # the same value in the richer normal form of engine.algebra (sums under rational powers): decides the
        # formulas that are not monomials (Lorentz factor)
        self.alg = alg
        # dtype kind lattice for the numbers: "int" (python / NumPy integer), "int?" (the input array: integer
        # data is accepted), "float".  Used to find operations that have integer (truncating) semantics.
        self.kind = kind


def _join_kind(*ks):
    if "float" in ks:
        return "float"
    return "int?" if "int?" in ks else "int"


class DimTok:
    def __init__(self, dv):
        self.dv = dv


class FellOff(Exception):
    pass


class Interp:
    """concrete-path interpreter of one _convert body for one (from, to) pair"""

    def __init__(self, res, fn, tables, consts, from_dv, to_dv, params, label):
        self.res, self.fn, self.t = res, fn, tables
        self.consts = consts
        self.from_dv, self.to_dv = from_dv, to_dv
        self.label = label
        a = fn.node.args
        names = [x.arg for x in a.args]
        if len(names) < 3:
            raise AnalysisError(f"{fn.where()}: _convert signature not (self, x, new_dims, ...)")
        self.selfname, self.xname, self.ndname = names[0], names[1], names[2]
        self.env = {
            self.xname: Q(from_dv, Mono.atom("x"), isx=True, kind="int?", alg=Prod.atom("x")),
            self.ndname: DimTok(to_dv),
        }
        defaults = dict(zip(names[::-1], a.defaults[::-1]))
        for p in names[3:]:
            self.env[p] = Q(ONE, Mono.atom(p), alg=Prod.atom(p))
            if p not in defaults:
                raise AnalysisError(f"{fn.where()}: parameter {p} has no default")
        self.param_defaults = {p: defaults[p] for p in names[3:]}
        self.dimnames = {}
        for local, q in fn.mod.imports.items():
            if q.startswith("unyt.dimensions."):
                nm = q.split(".")[-1]
                if nm in tables.dims and isinstance(tables.dims[nm], DimVec):
                    self.dimnames[local] = tables.dims[nm]
        self.pcnames = {
            k for k, v in fn.mod.local_imports(fn).items() if v == "unyt.physical_constants"
        }
        self.written = False
        self.depth = 0
        self.calls = 0
        self.r4_bad = []
        self.r5_bad = []
        self.r8_bad = []
        self.type_errors = []

    # -- expressions ----------------------------------------------------------
    def ev(self, n, in_getout=False):
        if isinstance(n, ast.Constant) and isinstance(n.value, (int, float)):
            return Q(ONE, Mono.num(n.value), kind="int" if isinstance(n.value, int) and not isinstance(n.value, bool) else "float", alg=Prod.num(n.value))
        if isinstance(n, ast.Name):
            if n.id in self.env:
                v = self.env[n.id]
                if isinstance(v, Q) and v.isx and self.written and not in_getout:
                    self.r5_bad.append(n)
                return v
            if n.id in self.dimnames:
                return DimTok(self.dimnames[n.id])
            raise AnalysisError(f"{self.fn.where(n)}: unknown name {n.id}")
        if isinstance(n, ast.Attribute):
            txt = norm(n)
            if txt == f"{self.xname}.units.dimensions":
                if self.written:
                    self.r5_bad.append(n)
                return DimTok(self.from_dv)
            if isinstance(n.value, ast.Name) and n.value.id in self.pcnames:
                if n.attr not in self.consts:
                    raise AnalysisError(f"{self.fn.where(n)}: unknown physical constant {n.attr}")
                key, dv = self.consts[n.attr]
                return Q(dv, Mono.atom(key), kind="float", alg=Prod.atom(key))
            raise AnalysisError(f"{self.fn.where(n)}: unsupported attribute {txt}")
        if isinstance(n, ast.BinOp):
            a, b = self.ev(n.left), self.ev(n.right)
            if isinstance(n.op, ast.Mult):
                return Q(a.dim * b.dim, a.mono * b.mono, kind=_join_kind(a.kind, b.kind), alg=a.alg * b.alg)
            if isinstance(n.op, ast.Div):
                return Q(a.dim / b.dim, a.mono / b.mono, kind="float", alg=a.alg / b.alg)
            if isinstance(n.op, ast.FloorDiv):
                if a.kind != "float" or b.kind != "float" or True:
                    self.r8_bad.append((n, "floor division"))
                return Q(a.dim / b.dim, Mono.opaque(), kind=_join_kind(a.kind, b.kind), alg=Prod.atom("floor(" + repr(a.alg / b.alg) + ")"))
            if isinstance(n.op, ast.Pow):
                p = self._numeric(n.right)
                k = a.kind if b.kind != "float" else "float"
                if a.kind != "float" and p < 0:
                    self.r8_bad.append((n, "negative power of possibly-integer data"))
                return Q(a.dim ** p, a.mono ** p, kind=k, alg=a.alg ** p)
            if isinstance(n.op, (ast.Add, ast.Sub)):
                if a.dim != b.dim:
                    self.type_errors.append(f"{norm(n)}: adds {a.dim} and {b.dim}")
                return Q(a.dim, Mono.opaque(), kind=_join_kind(a.kind, b.kind), alg=(alg_add(a.alg, b.alg) if isinstance(n.op, ast.Add) else alg_sub(a.alg, b.alg)))
            raise AnalysisError(f"{self.fn.where(n)}: unsupported operator")
        if isinstance(n, ast.UnaryOp) and isinstance(n.op, ast.Not):
            v = self.ev(n.operand)
            if isinstance(v, bool):
                return not v
            raise AnalysisError(f"{self.fn.where(n)}: negation of a non-boolean")
        if isinstance(n, ast.BoolOp):
            vals = [self.ev(v_) for v_ in n.values]
            if all(isinstance(v_, bool) for v_ in vals):
                return all(vals) if isinstance(n.op, ast.And) else any(vals)
            raise AnalysisError(f"{self.fn.where(n)}: boolean operator on non-booleans")
        if isinstance(n, ast.UnaryOp) and isinstance(n.op, ast.USub):
            a = self.ev(n.operand)
            return Q(a.dim, a.mono * Mono.num(-1), kind=a.kind, alg=a.alg * Prod.num(-1))
        if isinstance(n, ast.Compare) and len(n.ops) == 1 and isinstance(n.ops[0], (ast.Eq, ast.NotEq, ast.Is, ast.IsNot)):
            a, b = self.ev(n.left), self.ev(n.comparators[0])
            if isinstance(a, DimTok) and isinstance(b, DimTok):
                eq = a.dv == b.dv
                return eq if isinstance(n.ops[0], (ast.Eq, ast.Is)) else not eq
            raise AnalysisError(f"{self.fn.where(n)}: comparison not on dimensions")
        if isinstance(n, ast.Call):
            return self.call(n)
        raise AnalysisError(f"{self.fn.where(n)}: unsupported expression {norm(n)[:60]}")

    def _numeric(self, n):
        v = self.ev(n)
        if isinstance(v, Q) and v.dim == ONE and not v.mono.is_opaque and not v.mono.atoms:
            return Fraction(v.mono.c).limit_denominator(10000)
        raise AnalysisError(f"{self.fn.where(n)}: exponent is not a number")

    def call(self, n):
        f = norm(n.func)
        if f == f"{self.selfname}._get_out":
            return None
        if isinstance(n.func, ast.Attribute) and norm(n.func.value) == self.selfname and not f.startswith(("np.", "numpy.")):
            # a helper method of the equivalence class: its body is interpreted with the actual values (the caller's
            # x stays "x" inside: out= threading and read-after-write are judged on the value, not on the name)
            cls = self.fn.cls
            h = self.fn.mod.funcs.get(f"{cls}.{n.func.attr}") or self.fn.mod.funcs.get(f"Equivalence.{n.func.attr}")
            if h and not n.keywords and self.depth < 3:
                hf = h[0]
                hp = [a_.arg for a_ in hf.node.args.args]
                if len(hp) == len(n.args) + 1:
                    sub = Interp.__new__(Interp)
                    sub.__dict__.update(self.__dict__)
                    sub.fn = hf
                    sub.selfname = hp[0]
                    sub.depth = self.depth + 1
                    sub.env = {p_: self.ev(a_) for p_, a_ in zip(hp[1:], n.args)}
                    sub.xname = next((p_ for p_, v_ in sub.env.items() if isinstance(v_, Q) and v_.isx), self.xname)
                    sub.pcnames = {k for k, v in hf.mod.local_imports(hf).items() if v == "unyt.physical_constants"} | self.pcnames
                    r = sub.run(hf.body)
                    self.written, self.calls = sub.written, sub.calls
                    if r is None:
                        raise AnalysisError(f"{self.fn.where(n)}: helper {n.func.attr} returns nothing")
                    return Q(r.dim, r.mono, kind=r.kind, alg=r.alg)
            raise AnalysisError(f"{self.fn.where(n)}: unsupported call {f}")
        if not f.startswith(("np.", "numpy.")):
            raise AnalysisError(f"{self.fn.where(n)}: unsupported call {f}")
        op = f.split(".", 1)[1]
        self.calls += 1
        # R4: out threading
        out = kwarg_of(n, "out")
        good_out = False
        if isinstance(out, ast.Call) and norm(out.func) == f"{self.selfname}._get_out" and len(out.args) == 1:
            saved = self.written
            self.written = False  # naming x as the out target is not a read
            try:
                ov = self.ev(out.args[0], in_getout=True)
            finally:
                self.written = saved
            good_out = isinstance(ov, Q) and ov.isx
        if not good_out:
            self.r4_bad.append(n)
        args = [self.ev(a) for a in n.args]
        if any(k.arg is None for k in n.keywords) or any(
            k.arg not in ("out",) for k in n.keywords
        ):
            raise AnalysisError(f"{self.fn.where(n)}: unexpected keyword in NumPy call")
        # this call may overwrite x (when in_place): mark after operands were read
        self.written = True
        if op == "multiply" and len(args) == 2:
            return Q(args[0].dim * args[1].dim, args[0].mono * args[1].mono, kind=_join_kind(args[0].kind, args[1].kind), alg=args[0].alg * args[1].alg)
        if op in ("true_divide", "divide") and len(args) == 2:
            return Q(args[0].dim / args[1].dim, args[0].mono / args[1].mono, kind="float", alg=args[0].alg / args[1].alg)
        if op == "sqrt" and len(args) == 1:
            return Q(args[0].dim ** Fraction(1, 2), args[0].mono ** Fraction(1, 2), kind="float", alg=args[0].alg ** Fraction(1, 2))
        if op == "reciprocal" and len(args) == 1:
            # NumPy: "For integer arguments with absolute value larger than 1 the result is always zero"
            if args[0].kind != "float":
                self.r8_bad.append((n, "np.reciprocal of possibly-integer data (integer division: 1/n is 0 for |n| > 1)"))
            return Q(args[0].dim ** -1, args[0].mono ** -1, kind=args[0].kind, alg=args[0].alg ** -1)
        if op == "floor_divide" and len(args) == 2:
            self.r8_bad.append((n, "np.floor_divide"))
            return Q(args[0].dim / args[1].dim, Mono.opaque(), kind=_join_kind(args[0].kind, args[1].kind), alg=Prod.atom("floor(" + repr(args[0].alg / args[1].alg) + ")"))
        if op == "square" and len(args) == 1:
            return Q(args[0].dim ** 2, args[0].mono ** 2, kind=args[0].kind, alg=args[0].alg ** 2)
        if op == "power" and len(args) == 2:
            p = args[1]
            if not (p.dim == ONE and not p.mono.is_opaque and not p.mono.atoms):
                raise AnalysisError(f"{self.fn.where(n)}: power exponent not a number")
            pp = Fraction(p.mono.c).limit_denominator(10000)
            k = args[0].kind if p.kind != "float" else "float"
            if args[0].kind != "float" and p.kind != "float" and pp < 0:
                self.r8_bad.append((n, "negative integer power of possibly-integer data"))
            return Q(args[0].dim ** pp, args[0].mono ** pp, kind=k, alg=args[0].alg ** pp)
        if op in ("subtract", "add") and len(args) == 2:
            if args[0].dim != args[1].dim:
                self.type_errors.append(f"{norm(n)[:50]}: combines {args[0].dim} and {args[1].dim}")
            return Q(args[0].dim, Mono.opaque(), kind=_join_kind(args[0].kind, args[1].kind), alg=(alg_add(args[0].alg, args[1].alg) if op == "add" else alg_sub(args[0].alg, args[1].alg)))
        raise AnalysisError(f"{self.fn.where(n)}: unsupported NumPy operation {op}")

    # -- statements -----------------------------------------------------------
    def run(self, body):
        """returns the returned abstract value; raises FellOff"""
        for st in body:
            if isinstance(st, (ast.Import, ast.ImportFrom, ast.Pass)):
                continue
            if isinstance(st, ast.Expr) and isinstance(st.value, ast.Constant):
                continue
            if isinstance(st, ast.If):
                c = self.ev(st.test)
                if not isinstance(c, bool):
                    raise AnalysisError(f"{self.fn.where(st)}: branch condition not decidable from the pair")
                r = self.run(st.body if c else st.orelse)
                if r is not None:
                    return r
                continue
            if isinstance(st, ast.Assign) and len(st.targets) == 1 and isinstance(st.targets[0], ast.Name):
                v = self.ev(st.value)
                if isinstance(v, Q):
                    v = Q(v.dim, v.mono, kind=v.kind, alg=v.alg)  # a result is not "x"
                self.env[st.targets[0].id] = v
                continue
            if isinstance(st, ast.Return):
                if st.value is None:
                    raise FellOff()
                v = self.ev(st.value)
                if not isinstance(v, Q):
                    raise FellOff()
                return v
            if isinstance(st, ast.Raise):
                raise FellOff()
            raise AnalysisError(f"{self.fn.where(st)}: unsupported statement in _convert")
        return None


def constants_map(t: Tables):
    """every attribute name of unyt.physical_constants -> (canonical key, dimvec)"""
    m = {}
    for key, (val, unit, alts) in t.constants:
        _, dv = t.unit_string(unit)
        for nm in list(alts) + [key]:
            for suf in ("", "_mks", "_cgs"):
                m.setdefault(nm + suf, (key, dv))
    if "h_mks" in m:
        m.setdefault("hmks", m["h_mks"])
        m.setdefault("hcgs", m["h_mks"])
    return m


def spec_dv(name):
    return DimVec(SPEC.DIM[name])


def spec_mono(f):
    if f is None:
        return None
    c, atoms = f
    return Mono(float(c), {k: Fraction(v) for k, v in atoms.items()})


def spec_alg(node, consts):
    """reference formula (nested tuples of spec.equivalence_formulas.NON_MONOMIAL) -> engine.algebra.Prod; constant
    names are mapped to the atoms the interpreter uses for the library's constants"""
    from engine.algebra import Sum

    names = {"c": "clight"}

    def atom_name(k):
        if k == "x":
            return "x"
        key = names.get(k, k)
        return consts[key][0] if key in consts else key

    _, c, atoms, sums = node
    p = Prod(c, {atom_name(k): v for k, v in atoms.items()})
    for terms, e in sums:
        ts = [spec_alg(t_, consts) for t_ in terms]
        p = p * (alg_add(*ts) ** Fraction(e))
    return p


def check(repo: Repo) -> Result:
    res = Result("C09")
    t = Tables(repo)
    consts = constants_map(t)
    mod = repo.mod(EQ)

    # ---- discover equivalence classes from the source ------------------------
    classes = {}
    for cname, cnode in mod.classes.items():
        tn = mod.assigns.get(f"{cname}.type_name")
        dm = mod.assigns.get(f"{cname}._dims")
        if not tn:
            continue
        if not dm or not isinstance(dm[-1], (ast.Tuple, ast.List)):
            raise AnalysisError(f"{EQ}:{cname} has no literal _dims")
        type_name = tn[-1].value
        dims = []
        for e in dm[-1].elts:
            q = mod.qual(e)
            if not q or not q.startswith("unyt.dimensions."):
                raise AnalysisError(f"{EQ}:{cname}._dims element {norm(e)} not a unyt dimension")
            nm = q.split(".")[-1]
            if nm not in t.dims:
                raise AnalysisError(f"unknown dimension {nm}")
            dims.append((nm, t.dims[nm]))
        classes[type_name] = (cname, dims)

    res.rule("C09-R0", "set of built-in equivalences and their member dimensions equal the documented ones", floor=9)
    for tn, sp in SPEC.EQUIVALENCES.items():
        if tn not in classes:
            res.bad(f"class:{tn}", EQ, f"equivalence {tn!r} is not defined", tn, "missing")
            continue
        got = {dv for _, dv in classes[tn][1]}
        want = {spec_dv(d) for d in sp["dims"]}
        res.check(
            got == want,
            f"dims:{tn}",
            f"{EQ} class {classes[tn][0]}",
            f"member dimensions of {tn!r} differ from the documented set",
            sorted(map(repr, want)),
            sorted(map(repr, got)),
        )
    for tn in classes:
        if tn not in SPEC.EQUIVALENCES:
            res.note(f"equivalence {tn!r} has no reference formulas; only R1/R2/R4/R5 apply")

    r1 = res.rule("C09-R1", "every ordered pair of member dimensions reaches a return in _convert (no fall-through / None)", floor=30)
    r2 = res.rule("C09-R2", "the returned expression has the target dimension (dimension typing of the branch)", floor=30)
    r3 = res.rule("C09-R3a", "the returned monomial equals the reference physical formula", floor=28)
    r3b = res.rule("C09-R3b", "inverse law: branch(b->a) o branch(a->b) = identity, by monomial composition", floor=28)
    r3c = res.rule("C09-R3c", "path law: branch(b->c) o branch(a->b) = branch(a->c) for all triples", floor=30)
    r4 = res.rule("C09-R4", "every NumPy call in _convert threads out=self._get_out(x)", floor=30)
    r5 = res.rule("C09-R5", "x is not read again after the first call that may overwrite it", floor=30)
    r7 = res.rule("C09-R7", "keyword parameter defaults equal the documented defaults", floor=3)
    r8 = res.rule("C09-R8", "no step of a formula has integer (truncating) semantics for integer input, and the result is floating point", floor=30)

    for tn, (cname, dims) in sorted(classes.items()):
        fn = mod.func(f"{cname}._convert")
        res.fn(fn)
        # the in-place form writes into the *caller's* array and relabels it afterwards: out=self._get_out(x) must
        # name that object.  If the data parameter is re-bound (x = self._convert(x, ...), x = np.sqrt(x, ...)) the
        # later calls put their numbers into the shared buffer but the returned, relabelled object is a temporary
        # wrapper - the caller's array keeps numbers and unit of different steps.
        xp = fn.params[1]
        rebinds = [n for n in walk_no_nested(fn.node) if (isinstance(n, ast.Assign) and any(isinstance(t_, ast.Name) and t_.id == xp for tg in n.targets for t_ in ast.walk(tg))) or (isinstance(n, (ast.AugAssign, ast.AnnAssign)) and isinstance(n.target, ast.Name) and n.target.id == xp) or (isinstance(n, ast.NamedExpr) and n.target.id == xp)]
        if rebinds:
            res.bad(f"{tn}:data-parameter-rebound", fn.where(rebinds[0]), f"{cname}._convert re-binds its data parameter `{xp}`: the following NumPy calls thread out=self._get_out({xp}) into the new object, so in the in-place form the caller's array receives the numbers of the last step while its unit is set on a temporary wrapper (convert_to_equivalent leaves a corrupted array)", f"`{xp}` keeps denoting the caller's array", norm(rebinds[0])[:80], rid=r4)
            continue
        # the copying form must leave its input alone: the only thing that may be handed to NumPy as out= is what
        # _get_out returned for the data parameter (None in the copying form) or a fresh intermediate NumPy result -
        # a name that can also stand for the data parameter itself (E = x ... out = E) makes `to_equivalent` overwrite
        # the caller's array
        sget = f"{fn.params[0]}._get_out({xp})"
        ldefs = {}
        for n_ in walk_no_nested(fn.node):
            if isinstance(n_, ast.Assign) and len(n_.targets) == 1 and isinstance(n_.targets[0], ast.Name):
                ldefs.setdefault(n_.targets[0].id, []).append(n_.value)

        def _leaves(e, seen=()):
            if isinstance(e, ast.Name) and e.id in ldefs and e.id not in seen:
                out_ = []
                for d_ in ldefs[e.id]:
                    out_ += _leaves(d_, seen + (e.id,))
                return out_
            if isinstance(e, ast.IfExp):
                return _leaves(e.body, seen) + _leaves(e.orelse, seen)
            return [e]

        aliasing = []
        for c_ in walk_no_nested(fn.node):
            if not isinstance(c_, ast.Call):
                continue
            for kw_ in c_.keywords:
                if kw_.arg != "out":
                    continue
                for lf in _leaves(kw_.value):
                    if isinstance(lf, ast.Name) and lf.id == xp:
                        aliasing.append((c_, norm(kw_.value)))
        if aliasing:
            c_, shown = aliasing[0]
            res.bad(f"{tn}:out-may-be-input", fn.where(c_), f"{cname}._convert hands NumPy an out= target (`{shown}`) that can be the data parameter `{xp}` itself even when the conversion is not in place: the copying form (to_equivalent / to / in_units with an equivalence) then overwrites the caller's array", f"out={sget} or a fresh intermediate result", norm(c_)[:90], rid=r4)
            continue
        sp = SPEC.EQUIVALENCES.get(tn)
        spec_names = {}
        if sp:
            for d in sp["dims"]:
                spec_names[spec_dv(d)] = d
        monos = {}
        algs = {}
        for (an, adv), (bn, bdv) in itertools.permutations(dims, 2):
            label = f"{tn}:{an}->{bn}"
            it = Interp(res, fn, t, consts, adv, bdv, None, label)
            try:
                v = it.run(fn.body)
                if v is None:
                    raise FellOff()
            except FellOff:
                res.bad(label, fn.where(), f"_convert falls off the end / returns nothing for {an} -> {bn}", "a returned value", "None", rid=r1)
                continue
            res.ok(label, r1)
            ok2 = v.dim == bdv and not it.type_errors
            res.check(ok2, label, fn.where(), f"{tn}: result of {an} -> {bn} has dimension {v.dim}, not {bdv}" + (f"; {it.type_errors}" if it.type_errors else ""), repr(bdv), repr(v.dim), rid=r2)
            if it.r4_bad:
                for c in it.r4_bad:
                    res.bad(f"{label}:{norm(c)[:60]}", fn.where(c), "NumPy call without out=self._get_out(x): the in-place form would not be updated", "out=self._get_out(x)", norm(c)[:80], rid=r4)
            else:
                res.ok(label, r4)
            if it.r5_bad:
                for c in it.r5_bad:
                    res.bad(f"{label}:{norm(c)}", fn.where(c), "x is read after a call that may already have overwritten it in place", "only the previous result is used", norm(c), rid=r5)
            else:
                res.ok(label, r5)
            if it.r8_bad:
                for c, why in it.r8_bad:
                    res.bad(f"{label}:{norm(c)[:50]}", fn.where(c), f"{tn} {an} -> {bn}: {why} - integer-typed input (accepted by the copying form) is truncated instead of converted, and the copying and in-place forms disagree", "float arithmetic (np.true_divide, multiplication by a float constant, sqrt)", norm(c)[:80], rid=r8)
            else:
                res.check(v.kind == "float", label, fn.where(), f"{tn} {an} -> {bn}: the returned value stays integer-typed for integer input", "float", v.kind, rid=r8)
            monos[(adv, bdv)] = v.mono
            algs[(adv, bdv)] = v.alg
            if sp:
                a_s, b_s = spec_names.get(adv), spec_names.get(bdv)
                want = spec_mono(sp["formulas"].get((a_s, b_s))) if a_s and b_s else None
                if want is not None:
                    res.check(v.mono.same(want), label, fn.where(), f"{tn}: formula for {an} -> {bn} differs from the reference", repr(want), repr(v.mono), rid=r3)
                elif (tn, a_s, b_s) in getattr(SPEC, "NON_MONOMIAL", {}):
                    wantp = spec_alg(SPEC.NON_MONOMIAL[(tn, a_s, b_s)], consts)
                    res.check(v.alg.same(wantp), label, fn.where(), f"{tn}: formula for {an} -> {bn} differs from the reference (compared in the sum-under-power normal form)", repr(wantp), repr(v.alg), rid=r3)
        # inverse and path laws for the formulas that are not monomials: the same compositions in the algebra
        XA = Prod.atom("x")
        for (a, b), p_ab in sorted(algs.items(), key=lambda kv: repr(kv[0])):
            if (b, a) in algs and (monos[(a, b)].is_opaque or monos[(b, a)].is_opaque):
                try:
                    comp = algs[(b, a)].subst("x", p_ab)
                except ValueError as e:
                    comp = None
                res.check(comp is not None and comp.same(XA, 1e-9), f"{tn}:{a}->{b}->{a}", fn.where(), f"{tn}: converting {a} -> {b} -> {a} is not the identity (composition normalised in the sum-under-power algebra, atoms positive)", "x", repr(comp), rid=r3b)
        # inverse and path laws
        X = Mono.atom("x")
        for (a, b), m_ab in sorted(monos.items(), key=lambda kv: repr(kv[0])):
            if (b, a) in monos and not m_ab.is_opaque and not monos[(b, a)].is_opaque:
                comp = monos[(b, a)].subst("x", m_ab)
                res.check(comp.same(X, 1e-12), f"{tn}:{a}->{b}->{a}", fn.where(), f"{tn}: converting {a} -> {b} -> {a} is not the identity", "x", repr(comp), rid=r3b)
        dvs = [dv for _, dv in dims]
        for a, b, c in itertools.permutations(dvs, 3):
            if all(k in monos and not monos[k].is_opaque for k in ((a, b), (b, c), (a, c))):
                comp = monos[(b, c)].subst("x", monos[(a, b)])
                res.check(comp.same(monos[(a, c)], 1e-12), f"{tn}:{a}->{b}->{c}", fn.where(), f"{tn}: {a} -> {b} -> {c} disagrees with {a} -> {c}", repr(monos[(a, c)]), repr(comp), rid=r3c)
        # keyword defaults
        if sp and tn in SPEC.PARAMS:
            it = Interp(res, fn, t, consts, dims[0][1], dims[1][1], None, "")
            for p, want in SPEC.PARAMS[tn].items():
                node = it.param_defaults.get(p)
                try:
                    got = eval(compile(ast.Expression(node), "<default>", "eval"), {"__builtins__": {}}) if node is not None and all(isinstance(x, (ast.Constant, ast.BinOp, ast.Div, ast.Expression, ast.Load, ast.operator)) for x in ast.walk(node)) else None
                except Exception:
                    got = None
                res.check(got is not None and abs(got - want) < 1e-15, f"{tn}:{p}", fn.where(), f"default of {p} in {tn}", want, got, rid=r7)

    _entry_points(repo, res, classes)
    return res


def _only_exits(fn, pred):
    return all(pred(p[-1]) for p in enum_paths(fn.body))


def _entry_points(repo, res, classes):
    mod = repo.mod(EQ)
    arr = repo.mod(ARR)
    uo = repo.mod(UO)
    r6 = res.rule("C09-R6", "entry points: membership gate, copy/in-place construction, has_equivalent gate, final unit conversion, keyword threading", floor=14)

    # (a) Equivalence.convert
    fn = mod.func("Equivalence.convert")
    res.fn(fn)
    names = [a.arg for a in fn.node.args.args]
    x, nd = names[1], names[2]
    from engine.sem import summarise

    m1, m2 = f"{x}.units.dimensions in self._dims", f"{nd} in self._dims"
    n_ret = 0
    for i, sm in enumerate(summarise(fn)):
        both = sm.has(m1, True) and sm.has(m2, True)
        if sm.kind == "return":
            n_ret += 1
            call = ast.parse(sm.value).body[0].value if sm.value else None
            ok = both and isinstance(call, ast.Call) and norm(call.func) == "self._convert" and [norm(a_) for a_ in call.args] == [x, nd] and any(k.arg is None for k in call.keywords)
            res.check(ok, f"convert:return#{i}", fn.where(), "Equivalence.convert returns without both membership tests (or does not forward x, new_dims, **kwargs)", [m1, m2], sorted(sm.facts), rid=r6)
        else:
            ok = sm.kind == "raise" and sm.value.startswith("InvalidUnitEquivalence(") and not both
            res.check(ok, f"convert:refuse#{i}", fn.where(), "a request outside _dims must raise InvalidUnitEquivalence", "raise InvalidUnitEquivalence", sm.kind, rid=r6)
    if n_ret == 0:
        raise AnalysisError(f"{fn.where()}: no returning path in Equivalence.convert")

    # (b) _get_out
    fn = mod.func("Equivalence._get_out")
    res.fn(fn)
    xn = fn.node.args.args[1].arg
    good = True
    sums = summarise(fn)
    for sm in sums:
        if sm.kind != "return":
            good = False
        elif sm.has("self.in_place", True):
            good &= sm.value == xn
        else:
            good &= sm.value == "None" and sm.has("self.in_place", False)
    res.check(good and len(sums) >= 2, "_get_out", fn.where(), "_get_out must return x iff self.in_place, else None", found=[(sorted(sm.facts), sm.value) for sm in sums], rid=r6)
    fn = mod.func("Equivalence.__init__")
    dflt = fn.node.args.defaults
    res.check(len(dflt) == 1 and isinstance(dflt[0], ast.Constant) and dflt[0].value is False and any(norm(s) == "self.in_place = in_place" for s in fn.body), "in_place-default", fn.where(), "Equivalence() must default to copying (in_place=False) and store the flag", rid=r6)

    # (c) who constructs an in-place equivalence
    inplace_sites = []
    for m in repo.mods(only_anchor=False):
        for q, fns in m.funcs.items():
            for f in fns:
                for c in ast.walk(f.node):
                    if isinstance(c, ast.Call) and isinstance(c.func, ast.Subscript) and norm(c.func.value) == "equivalence_registry":
                        ip = kwarg_of(c, "in_place")
                        truthy = (ip is not None and not (isinstance(ip, ast.Constant) and ip.value is False)) or len(c.args) > 0
                        if truthy:
                            inplace_sites.append(f"{m.rel}:{q}")
    res.check(inplace_sites == [f"{ARR}:unyt_array.convert_to_equivalent"], "in_place-constructors", ARR, "only convert_to_equivalent may construct an in-place equivalence", [f"{ARR}:unyt_array.convert_to_equivalent"], inplace_sites, rid=r6)

    # (d) to_equivalent / convert_to_equivalent
    for name, final, inplace in (("to_equivalent", "in_units", False), ("convert_to_equivalent", "convert_to_units", True)):
        fn = arr.func(f"unyt_array.{name}")
        res.fn(fn)
        params = [a.arg for a in fn.node.args.args]
        unit_p, eq_p = params[1], params[2]
        kw = fn.kwarg
        cu = None
        for st in fn.body:
            if isinstance(st, ast.Assign) and isinstance(st.value, ast.Call) and norm(st.value.func) == "Unit" and st.value.args and norm(st.value.args[0]) == unit_p:
                cu = st.targets[0].id
                reg = kwarg_of(st.value, "registry")
                res.check(reg is not None and norm(reg) == "self.units.registry", f"{name}:registry", fn.where(st), "target unit must be built in the array's own registry", "registry=self.units.registry", norm(st.value), rid=r6)
        if cu is None:
            raise AnalysisError(f"{fn.where()}: target unit construction not found")
        samedim = f"self.units.same_dimensions_as({cu})"
        hasq = f"self.has_equivalent({eq_p})"
        for i, p in enumerate(enum_paths(fn.body)):
            facts = dict((t, tr) for t, tr, _ in path_facts(p))
            end = p[-1]
            calls = [norm(c) for c in path_calls(p)]
            key = f"{name}:path#{i}"
            if facts.get(samedim) is True:
                want = f"self.{final}({cu})"
                ok = any(c == want for c in calls) and end[0] in ("return", "fall") and not any(".convert(" in c for c in calls)
                res.check(ok, key, fn.where(), f"{name}: same-dimension shortcut must be a plain unit conversion", want, calls, rid=r6)
            elif facts.get(hasq) is True:
                conv = [c for c in path_calls(p) if isinstance(c.func, ast.Attribute) and c.func.attr == "convert"]
                ok = len(conv) == 1 and [norm(a) for a in conv[0].args] == ["self", f"{cu}.dimensions"] and any(k.arg is None and norm(k.value) == kw for k in conv[0].keywords)
                # final conversion to the requested unit on the converted object
                if inplace:
                    ok &= f"self.convert_to_units({cu})" in calls
                    order = [c for c in calls if c == f"self.convert_to_units({cu})" or ".convert(self" in c]
                    ok &= bool(order) and ".convert(self" in order[0]
                else:
                    tgt = None
                    for st in p:
                        if st[0] == "stmt" and isinstance(st[1], ast.Assign) and isinstance(st[1].value, ast.Call) and st[1].value is conv[0] if conv else False:
                            tgt = st[1].targets[0].id
                    ok &= tgt is not None and end[0] == "return" and norm(end[1].value) == f"{tgt}.in_units({cu})"
                res.check(ok, key, fn.where(), f"{name}: equivalence route must call convert(self, target dims, **kwargs) once and finish with the unit conversion", rid=r6)
            else:
                ok = end[0] == "raise" and norm(end[1].exc).startswith("InvalidUnitEquivalence(")
                res.check(ok, key, fn.where(), f"{name}: without has_equivalent the request must raise InvalidUnitEquivalence", "raise InvalidUnitEquivalence", end[0], rid=r6)
        # the instance is created by looking the name up in the registry
        inst = [c for c in ast.walk(fn.node) if isinstance(c, ast.Call) and isinstance(c.func, ast.Subscript) and norm(c.func.value) == "equivalence_registry"]
        res.check(len(inst) == 1 and norm(inst[0].func.slice) == eq_p, f"{name}:lookup", fn.where(), "equivalence instance must be looked up by the requested name", rid=r6)

    # (e) has_equivalent
    fn = uo.func("Unit.has_equivalent")
    res.fn(fn)
    rets = [n for n in ast.walk(fn.node) if isinstance(n, ast.Return)]
    ok = False
    if len(rets) == 1 and isinstance(rets[0].value, ast.Compare) and isinstance(rets[0].value.ops[0], ast.In):
        left = rets[0].value.left
        src = norm(left)
        for st in fn.body:
            if isinstance(st, ast.Assign) and norm(st.targets[0]) == src:
                src = norm(st.value)
        ok = src == "self.dimensions" and norm(rets[0].value.comparators[0]).endswith("._dims")
    res.check(ok, "has_equivalent", fn.where(), "has_equivalent must test membership of the unit's own dimensions in _dims", rid=r6)
    fn = arr.func("unyt_array.has_equivalent")
    rets = [n for n in ast.walk(fn.node) if isinstance(n, ast.Return)]
    res.check(len(rets) == 1 and norm(rets[0].value) == f"self.units.has_equivalent({fn.node.args.args[1].arg})", "array.has_equivalent", fn.where(), "array-level has_equivalent must delegate to the unit", rid=r6)

    # (f) keyword threading (to / in_units / convert_to_units / to_value / convert_to_base...)
    from rules.common import forwards_equivalence

    for key, ok, where, msg in forwards_equivalence(repo):
        res.check(ok, key, where, msg, rid=r6)


MUTANTS = [
    Mutant("lorentz-beta-inverted", EQ, "LorentzEquivalence._convert", "beta = np.true_divide(x, pc.clight, out=self._get_out(x))", "beta = np.true_divide(pc.clight, x, out=self._get_out(x))", ("C09-R3a", "C09-R3b")),
    Mutant("lorentz-sign", EQ, "LorentzEquivalence._convert", "beta2 = np.subtract(1, inv_gamma_2, out=self._get_out(x))", "beta2 = np.subtract(inv_gamma_2, 1, out=self._get_out(x))", ("C09-R3a", "C09-R3b")),
    Mutant("thermal-swap", EQ, "ThermalEquivalence._convert", "np.multiply(x, pc.kboltz", "np.true_divide(x, pc.kboltz", ("C09-R2", "C09-R3a")),
    Mutant("spectral-drop-c", EQ, "SpectralEquivalence._convert", "np.multiply(x, pc.h_mks * pc.clight, out", "np.multiply(x, pc.h_mks, out", ("C09-R2", "C09-R3a")),
    Mutant("schwarzschild-factor", EQ, "SchwarzschildEquivalence._convert", "0.5 * pc.clight", "2.0 * pc.clight", ("C09-R3a", "C09-R3b")),
    Mutant("sound-speed-gamma", EQ, "SoundSpeedEquivalence._convert", "np.multiply(mu * pc.mh / gamma, v2", "np.multiply(mu * pc.mh * gamma, v2", ("C09-R3a", "C09-R3c")),
    Mutant("efftemp-power", EQ, "EffectiveTemperatureEquivalence._convert", "0.25", "0.5", ("C09-R2", "C09-R3a")),
    Mutant("drop-out", EQ, "MassEnergyEquivalence._convert", "pc.clight * pc.clight, out=self._get_out(x))\n        elif", "pc.clight * pc.clight)\n        elif", ("C09-R4",)),
    Mutant("read-after-write", EQ, "SoundSpeedEquivalence._convert", "kT = np.multiply(v2, mu", "kT = np.multiply(x, mu", ("C09-R5", "C09-R3a")),
    Mutant("lorentz-out", EQ, "LorentzEquivalence._convert", "beta2 = np.multiply(beta, beta, out=self._get_out(x))", "beta2 = np.multiply(beta, beta)", ("C09-R4",)),
    Mutant("missing-branch", EQ, "SpectralEquivalence._convert", "elif x.units.dimensions == spatial_frequency:\n                return np.multiply(x, pc.clight", "elif x.units.dimensions == length:\n                return np.multiply(x, pc.clight", ("C09-R1",)),
    Mutant("membership-or", EQ, "Equivalence.convert", "in self._dims and new_dims", "in self._dims or new_dims", ("C09-R6",)),
    Mutant("get-out-inverted", EQ, "Equivalence._get_out", "if self.in_place:", "if not self.in_place:", ("C09-R6",)),
    Mutant("to-equivalent-inplace", ARR, "unyt_array.to_equivalent", "equivalence_registry[equivalence]()", "equivalence_registry[equivalence](in_place=True)", ("C09-R6",)),
    Mutant("no-final-conversion", ARR, "unyt_array.to_equivalent", "return new_arr.in_units(conv_unit)", "return new_arr", ("C09-R6",)),
    Mutant("drop-kwargs", ARR, "unyt_array.convert_to_equivalent", "this_equiv.convert(self, conv_unit.dimensions, **kwargs)", "this_equiv.convert(self, conv_unit.dimensions)", ("C09-R6",)),
    Mutant("dims-drop-member", EQ, None, "_dims = (length, rate, energy, spatial_frequency)", "_dims = (length, rate, energy)", ("C09-R0",)),
    Mutant("default-mu", EQ, "NumberDensityEquivalence._convert", "mu=0.6", "mu=0.59", ("C09-R7",)),
    # benign twins
    Mutant("twin-rename-local", EQ, "SoundSpeedEquivalence._convert", "kT", "k_T", (), count=2, benign=True),
    Mutant("twin-commute", EQ, "ThermalEquivalence._convert", "np.multiply(x, pc.kboltz", "np.multiply(pc.kboltz, x", (), benign=True),
    Mutant("twin-alias-const", EQ, "ThermalEquivalence._convert", "pc.kboltz", "pc.boltzmann_constant", (), count=2, benign=True),
    Mutant("data-parameter-rebound", EQ, "SoundSpeedEquivalence._convert", "                v2 = np.multiply(x, x, out=self._get_out(x))\n                kT = np.multiply(v2, mu * pc.mh / gamma, out=self._get_out(x))\n                return np.true_divide(kT, pc.kboltz, out=self._get_out(x))", "                x = np.multiply(x, x, out=self._get_out(x))\n                kT = np.multiply(x, mu * pc.mh / gamma, out=self._get_out(x))\n                return np.true_divide(kT, pc.kboltz, out=self._get_out(x))", ("C09-R4",)),
    Mutant("thermal-out-is-input", EQ, "ThermalEquivalence._convert", "return np.true_divide(x, pc.kboltz, out=self._get_out(x))", "return np.true_divide(x, pc.kboltz, out=x)", ("C09-R4",)),
    Mutant("equivalence-floor-division", EQ, "ThermalEquivalence._convert", "return np.true_divide(x, pc.kboltz, out=self._get_out(x))", "return np.floor_divide(x, pc.kboltz, out=self._get_out(x))", ("C09-R8",)),
]
