"""C19 - unit-checking helpers decide by physical equality, not by spelling."""

from __future__ import annotations

import ast

from engine.core import AnalysisError, Repo, is_raise_of, kwarg_of, norm, walk_no_nested
from engine.flow import enum_paths, path_calls, path_facts
from engine.mutate import Mutant
from engine.report import Result

TECHNIQUE = "reaching-definition and path rules over allclose_units / _array_comp_helper / array_equal handlers / testing helpers / accepts-returns decorators: convert-before-compare, which definition of `des` reaches the bare-atol unit, exception discipline, check-before-call"
LEVEL_TEXT = """Static: (R1) every unit-carrying argument of the final np.allclose in allclose_units has passed
.in_units(actual's unit) and is stripped only afterwards; np.isclose/allclose convert the second operand into the first
operand's unit when both carry units; (R2) the unit given to a bare atol is the unit of the *desired* argument as passed in
(reaching-definition rule: the definition of `des` that reaches the unyt_quantity(atol, ...) site must be the one made
from `desired`, not the one already converted); (R3) only UnitOperationError/UnitConversionError are turned into a False
verdict, rtol with units raises, assert_allclose_units forwards all arguments and raises AssertionError exactly on a False
verdict, array_equal/array_equiv/assert_array_equal_units compare units with ==/!= and refuse on difference; (R4) the
accepts/returns decorators compare dimensions with == (never identity), treat unit-less values as dimensionless, raise
TypeError before the wrapped function is called (accepts) and return exactly what it returned (returns).
(R1, extended) the relative tolerance is reduced to the unit `dimensionless` before it is stripped (5 percent is 0.05)."""
LEVEL_NOTE = """Undecided: the tolerance arithmetic of np.allclose itself and the verdict on concrete numbers."""
EXPLANATION = LEVEL_TEXT
ASSUMPTIONS = ["np.allclose / np.testing.assert_array_equal behave as documented"]

ARR = "unyt/array.py"
AF = "unyt/_array_functions.py"
TST = "unyt/testing.py"
DIM = "unyt/dimensions.py"


def check(repo: Repo) -> Result:
    res = Result("C19")
    allclose_rules(repo, res)
    comparison_handlers(repo, res)
    testing_helpers(repo, res)
    decorators(repo, res)
    named_dimensions(repo, res)
    return res


def named_dimensions(repo, res):
    """C19-R5: `@accepts(x=pop)` lets a call through exactly when x has the dimension called pop: every name of
    unyt.dimensions (constant-folded from the source) must denote the dimension its physical definition gives
    (spec/dimension_definitions.py, written independently) - a slip in this table changes which arguments the
    decorators accept although every unit and conversion stays right."""
    from engine.fold import Tables
    from spec.dimension_definitions import DIMENSIONS

    r5 = res.rule("C19-R5", "every named dimension of unyt.dimensions is the dimension its definition gives", floor=45)
    t = Tables(repo)
    for name, want in sorted(DIMENSIONS.items()):
        got = t.dims.get(name)
        if got is None or not hasattr(got, "e"):
            res.bad(f"dimension:{name}", f"unyt/dimensions.py {name}", f"the named dimension {name} is missing (or not a foldable product of base dimensions)", rid=r5)
            continue
        res.check(dict(got.e) == want, f"dimension:{name}", f"unyt/dimensions.py {name}", f"dimensions.{name} is {dict(got.e)}, its definition is {want}: @accepts / @returns declared with it let quantities of another dimension through and refuse the right ones", {k: str(v) for k, v in want.items()}, {k: str(v) for k, v in got.e.items()}, rid=r5)
    # names defined in the module that the reference does not know would be unchecked: report them as analysis gap
    known = set(DIMENSIONS) | {"mass", "length", "time", "temperature", "angle", "current_mks", "luminous_intensity", "dimensionless", "logarithmic"}
    extra = [k for k, v in t.dims.items() if hasattr(v, "e") and k not in known and not k.startswith("_")]
    if extra:
        res.note(f"named dimensions without a reference definition (not checked): {sorted(extra)}")


def allclose_rules(repo, res):
    r1 = res.rule("C19-R1", "values are converted into a common unit before they are compared, and stripped only afterwards", floor=6)
    r2 = res.rule("C19-R2", "a bare atol is given the unit of the desired argument as passed in", floor=1)
    r3 = res.rule("C19-R3", "error discipline of the comparison helpers", floor=8)
    fn = repo.mod(ARR).func("allclose_units")
    res.fn(fn)
    actual, desired, rtol, atol = fn.params[:4]
    # Value flow to the verdict: on every path that reaches np.allclose, each argument is written out with all locals
    # substituted (engine.sem.summarise), e.g.  unyt_array(desired).in_units(unyt_array(actual).units).value
    from engine.sem import summarise

    sums = summarise(fn)
    finals = []
    for x in sums:
        if x.kind == "return" and x.value.startswith("np.allclose("):
            call = ast.parse(x.value).body[0].value
            # np.allclose(a, b, rtol, atol, equal_nan): tolerances may be passed by position or by keyword
            args_ = list(call.args)
            kws_ = {k.arg: k.value for k in call.keywords if k.arg is not None}
            for name_ in ("rtol", "atol")[max(0, len(args_) - 2):]:
                if name_ in kws_:
                    args_.append(kws_.pop(name_))
            finals.append((x, [norm(a_).replace(".to(", ".in_units(") for a_ in args_], [k.arg for k in call.keywords if k.arg in kws_ or k.arg is None]))
    if len(finals) < 2:
        raise AnalysisError(f"{fn.where()}: the final np.allclose(...) was not found on both atol routes")
    A = f"unyt_array({actual})"
    D = f"unyt_array({desired})"
    want_act = f"{A}.value"
    want_des = f"{D}.in_units({A}.units).value"
    RT = f"unyt_array({rtol})"
    # the relative tolerance handed to NumPy is a pure number: a tolerance given in a scaled dimensionless unit (5
    # percent, 300 ppm) must be reduced to the unit `dimensionless`, not stripped of its unit (5 percent is 0.05)
    rt_forms = {f"{RT}.in_units('dimensionless').value", f"{RT}.to_value('dimensionless')", f"{RT}.in_units(dimensionless).value", f"float({RT}.in_units('dimensionless'))", f"{RT}.in_base().value", f"{RT}.value * {RT}.units.base_value", f"{RT}.units.base_value * {RT}.value"}
    ok_wrap = all(len(args) == 4 and args[0].startswith(A) and args[1].startswith(D) for _, args, _ in finals)
    res.check(ok_wrap, "wrap-inputs", fn.where(), "both inputs are wrapped as unyt arrays first (bare data become dimensionless)", rid=r1)
    res.check(all(args[1] == want_des for _, args, _ in finals), "desired-converted", fn.where(), "desired must be converted into actual's unit before the comparison", want_des, sorted({args[1] for _, args, _ in finals}), rid=r1)
    unit_route = [(x, args) for x, args, _ in finals if x.has(f"isinstance({atol}, unyt_array)", True)]
    bare_route = [(x, args) for x, args, _ in finals if x.has(f"isinstance({atol}, unyt_array)", False)]
    ok_at = bool(unit_route) and all(args[3] == f"{atol}.in_units({A}.units).value" for _, args in unit_route) and bool(bare_route) and all(args[3].endswith(f".in_units({A}.units).value") and args[3].startswith(f"unyt_quantity({atol}, ") for _, args in bare_route)
    res.check(ok_at, "atol-converted", fn.where(), "atol must be converted into actual's unit before the comparison", f"<atol>.in_units({A}.units).value", sorted({args[3] for _, args, _ in finals}), rid=r1)
    stripped = all(args[0] == want_act and args[1].endswith(".value") and args[2].startswith(RT) and args[3].endswith(".value") for _, args, _ in finals)
    res.check(stripped, "strip-after-convert", fn.where(), "units are stripped only after all conversions (the stripped value is the converted one)", [want_act, want_des, RT + "..."], [args for _, args, _ in finals][:1], rid=r1)
    got_rt = sorted({args[2] for _, args, _ in finals})
    res.check(all(g in rt_forms for g in got_rt), "rtol-reduced", fn.where(), "the relative tolerance is stripped of its unit without being reduced to a pure number: rtol = 5 percent is used as 5, so allclose_units(1 m, 3 m, rtol=5 percent) is True and the verdict changes when the tolerance is re-expressed", f"{RT}.in_units('dimensionless').value", got_rt, rid=r1)
    res.check(all(kw == [None] for _, _, kw in finals), "final-compare", fn.where(), "the verdict is np.allclose(actual, desired, rtol, atol, **kwargs) on the converted values", rid=r1)

    # R2: the unit given to a bare atol
    if not bare_route:
        raise AnalysisError(f"{fn.where()}: bare-atol route not found")
    got = sorted({args[3] for _, args in bare_route})
    want_bare = f"unyt_quantity({atol}, {D}.units).in_units({A}.units).value"
    res.check(got == [want_bare], "bare-atol-unit", fn.where(), "a bare atol is documented to be in the units of `desired`, but the unit used is taken after `desired` has been converted to actual's unit", want_bare, got, rid=r2)

    # R3: error discipline in allclose_units
    handlers = [h for n in ast.walk(fn.node) if isinstance(n, ast.Try) for h in n.handlers]
    ok = len(handlers) >= 1
    for h in handlers:
        names = {norm(e) for e in (h.type.elts if isinstance(h.type, ast.Tuple) else [h.type])} if h.type is not None else {"bare"}
        ok &= names == {"UnitOperationError", "UnitConversionError"} and len(h.body) == 1 and norm(h.body[0]) == "return False"
    # every conversion happens inside such a try
    convs = [c for c in ast.walk(fn.node) if isinstance(c, ast.Call) and isinstance(c.func, ast.Attribute) and c.func.attr in ("in_units", "to")]
    # the reduction of the relative tolerance to the unit `dimensionless` cannot fail: it is reached only after the
    # tolerance's unit was found dimensionless (allclose:rtol below)
    from rules.c11 import _names_through_locals

    convs = [c for c in convs if not (rtol in ({x.id for x in ast.walk(c.func.value) if isinstance(x, ast.Name)} | _names_through_locals(fn, c.func.value)) and c.args and isinstance(c.args[0], ast.Constant) and c.args[0].value in ("dimensionless", ""))]
    guarded = [c for t in ast.walk(fn.node) if isinstance(t, ast.Try) for st in t.body for c in ast.walk(st) if isinstance(c, ast.Call)]
    ok &= bool(convs) and all(any(c is g for g in guarded) for c in convs)
    res.check(ok, "allclose:handlers", fn.where(), "exactly the unit errors are turned into a False verdict, and every conversion is covered by such a handler", rid=r3)
    rt_raise = [x for x in sums if x.kind == "raise" and x.value.startswith("RuntimeError(")]
    ok = len(rt_raise) >= 1 and all(x.has(f"unyt_array({rtol}).units.is_dimensionless", False) for x in rt_raise) and all(x.has(f"unyt_array({rtol}).units.is_dimensionless", True) for x, _, _ in finals)
    res.check(ok, "allclose:rtol", fn.where(), "an rtol with units must raise RuntimeError", rid=r3)
    res.check(bool(unit_route) and all(args[3].startswith(f"{atol}.") for _, args in unit_route), "allclose:atol-with-units", fn.where(), "an atol that carries units is used in its own unit", rid=r3)


def comparison_handlers(repo, res):
    r1 = "C19-R1"
    r3 = "C19-R3"
    af = repo.mod(AF)
    fn = af.func("_array_comp_helper")
    res.fn(fn)
    a, b = fn.params
    from engine.sem import summarise

    UA, UB = f"getattr({a}, 'units', NULL_UNIT)", f"getattr({b}, 'units', NULL_UNIT)"
    good = True
    n = 0
    sums = summarise(fn)
    for x in sums:
        differ = x.has(f"{UB} == {UA}", False) or x.has(f"{UA} == {UB}", False)
        both = x.has(f"{UA} == NULL_UNIT", False) and x.has(f"{UB} == NULL_UNIT", False)
        good &= x.kind == "return"
        if x.kind != "return":
            continue
        val = x.value.replace(".to(", ".in_units(")
        if differ and both:
            n += 1
            good &= val == f"({a}, {b}.in_units({UA}))"
        else:
            # nothing is rescaled; a bare operand may be given the other's unit (multiplication by the unit)
            good &= ".in_units(" not in val and val.startswith("(")
    res.check(good and n >= 1, "_array_comp_helper", fn.where(), "when both operands carry different units the second is converted into the first operand's unit; operands are returned in order", found=[(sorted(x.facts), x.value) for x in sums][:3], rid=r1)
    for h in ("isclose", "allclose"):
        f = af.func(h)
        res.fn(f)
        # the values NumPy compares are the helper's results, in order
        impl = [c for c in ast.walk(f.node) if isinstance(c, ast.Call) and isinstance(c.func, ast.Attribute) and c.func.attr == "_implementation"]
        helper = [n_ for n_ in ast.walk(f.node) if isinstance(n_, ast.Assign) and isinstance(n_.value, ast.Call) and norm(n_.value.func) == "_array_comp_helper"]
        ok = len(helper) == 1 and [norm(x) for x in helper[0].value.args] == [f.params[0], f.params[1]] and isinstance(helper[0].targets[0], ast.Tuple) and len(helper[0].targets[0].elts) == 2
        if ok:
            n0, n1 = [norm(e) for e in helper[0].targets[0].elts]
            ok = len(impl) >= 1 and all(len(c.args) >= 2 and any(isinstance(y, ast.Name) and y.id == n0 for y in ast.walk(c.args[0])) and any(isinstance(y, ast.Name) and y.id == n1 for y in ast.walk(c.args[1])) for c in impl) and helper[0].lineno < min(c.lineno for c in impl)
        res.check(ok, f"{h}:helper-first", f.where(), f"np.{h} must bring its operands to a common unit before comparing", rid=r1)
        # ... and the absolute tolerance with them: atol arrives through *args / **kwargs; what reaches NumPy has passed a
        # helper that re-expresses a tolerance carrying units in the compared unit (to_value / to / in_units of the unit it is
        # handed) - NumPy itself would read the bare number of `atol=10*cm` as 10 of whatever unit the data are in
        tol_ok, found_t = False, "catch-alls reach NumPy as passed"
        for n_ in ast.walk(f.node):
            if isinstance(n_, ast.Assign) and isinstance(n_.value, ast.Call) and isinstance(n_.value.func, ast.Name) and isinstance(n_.targets[0], ast.Tuple) and [norm(e) for e in n_.targets[0].elts] == [f.vararg, f.kwarg]:
                hn = n_.value.func.id
                hf = af.funcs.get(hn, [None])[0]
                if hf is None or len(n_.value.args) != 3 or [norm(x) for x in n_.value.args[1:]] != [f.vararg, f.kwarg]:
                    continue
                up = hf.params[0]
                convs = [c for c in ast.walk(hf.node) if isinstance(c, ast.Call) and isinstance(c.func, ast.Attribute) and c.func.attr in ("to_value", "to", "in_units") and c.args and norm(c.args[0]) == up]
                srcs = {norm(c.func.value) for c in convs}
                pos = any(s_.endswith("[1]") for s_ in srcs)
                kw = any("'atol'" in s_ or '"atol"' in s_ for s_ in srcs)
                unit_arg = norm(n_.value.args[0])
                tol_ok = pos and kw and "units" in unit_arg and n_.lineno < min(c.lineno for c in impl)
                found_t = f"{hn}: converts {sorted(srcs)} into {unit_arg}"
        res.check(tol_ok, f"{h}:atol-converted", f.where(), f"np.{h} hands an absolute tolerance that carries units to NumPy as a bare number: atol=10*cm against data in m is read as 10 m, atol=1*kg is accepted for lengths", "positional and keyword atol converted into the compared unit before the NumPy call", found_t, rid=r1)
    for h in ("array_equal", "array_equiv"):
        f = af.func(h)
        res.fn(f)
        a1, a2 = f.params[:2]
        U1, U2 = f"getattr({a1}, 'units', NULL_UNIT)", f"getattr({a2}, 'units', NULL_UNIT)"
        ok = True
        n = 0
        sums = summarise(f)
        for x in sums:
            differ = x.has(f"{U2} == {U1}", False) or x.has(f"{U1} == {U2}", False)
            same = x.has(f"{U2} == {U1}", True) or x.has(f"{U1} == {U2}", True)
            if differ:
                n += 1
                ok &= x.kind == "return" and x.value == "False"
            else:
                ok &= same and x.kind == "return" and f"np.{h}._implementation" in x.value
        res.check(ok and n >= 1, f"{h}:units-first", f.where(), f"np.{h} answers False when the units differ (compared with !=) and compares data otherwise", found=[(sorted(x.facts), x.value) for x in sums][:3], rid=r3)


def testing_helpers(repo, res):
    r3 = "C19-R3"
    t = repo.mod(TST)
    fn = t.func("assert_allclose_units")
    res.fn(fn)
    p = fn.params
    from engine.sem import summarise

    verdict = f"allclose_units({p[0]}, {p[1]}, {p[2]}, {p[3]}, **{fn.kwarg})"
    sums = summarise(fn)
    ok = len(sums) == 2
    for x in sums:
        if x.kind == "raise":
            ok &= x.has(verdict, False) and x.value.startswith("AssertionError")
        else:
            ok &= x.has(verdict, True) and x.kind in ("fall", "return") and (x.value in (None, "None"))
    res.check(ok, "assert_allclose_units", fn.where(), "the assertion forwards all five arguments and raises AssertionError exactly on a False verdict", verdict, [(sorted(x.facts), x.kind) for x in sums], rid=r3)
    q = t.imports.get("allclose_units")
    res.check(q == "unyt.array.allclose_units", "assert_allclose_units:target", TST, "the assertion uses unyt.array.allclose_units", found=q, rid=r3)
    fn = t.func("assert_array_equal_units")
    res.fn(fn)
    x, y = fn.params[:2]
    from engine.sem import summarise

    UX, UY = f"getattr({x}, 'units', NULL_UNIT)", f"getattr({y}, 'units', NULL_UNIT)"
    ok = True
    n_raise = n_ok = 0
    sums = summarise(fn)
    for s_ in sums:
        cmp_called = any(e.startswith(f"assert_array_equal({x}, {y}") for e in s_.effects)
        differ = s_.has(f"{UX} == {UY}", False) or s_.has(f"{UY} == {UX}", False)
        if s_.kind == "raise":
            n_raise += 1
            ok &= differ and s_.value.startswith("AssertionError(")
        else:
            n_ok += 1
            # passing requires that the units were actually found equal (by Unit.__eq__), not merely "not found different"
            same = s_.has(f"{UX} == {UY}", True) or s_.has(f"{UY} == {UX}", True)
            ok &= cmp_called and not differ and same
    res.check(ok and n_raise >= 1 and n_ok >= 1, "assert_array_equal_units", fn.where(), "values are compared with NumPy and units with ==; a difference raises AssertionError", found=[(sorted(s_.facts), s_.kind, s_.effects) for s_ in sums][:3], rid=r3)


def decorators(repo, res):
    r4 = res.rule("C19-R4", "accepts/returns: dimension compared with ==, unit-less = dimensionless, TypeError before/without altering the call", floor=6)
    d = repo.mod(DIM)
    fn = d.func("_has_dimensions")
    res.fn(fn)
    quant, dim = fn.params
    # value flow with locals substituted: the normal path compares the value's own dimensions, the AttributeError path
    # (no .units) compares `dimensionless`; both with ==
    from engine.sem import summarise as _summ

    vals = [x.value for x in _summ(fn) if x.kind == "return"]
    own = {f"{quant}.units.dimensions == {dim}", f"{dim} == {quant}.units.dimensions"}
    bare = {f"dimensionless == {dim}", f"{dim} == dimensionless"}
    all_ret = all(x.kind == "return" for x in _summ(fn))
    res.check(all_ret and bool(vals) and set(vals) <= own | bare and bool(set(vals) & own), "_has_dimensions:equality", fn.where(), "dimensions must be compared with == (identity would reject equal but rebuilt dimension expressions)", f"{quant}.units.dimensions == {dim}", vals, rid=r4)
    tr = [n for n in fn.body if isinstance(n, ast.Try)]
    ok = len(tr) == 1 and len(tr[0].handlers) == 1 and norm(tr[0].handlers[0].type) == "AttributeError" and bool(set(vals) & bare)
    res.check(ok, "_has_dimensions:unitless", fn.where(), "a value without units counts as dimensionless", rid=r4)
    # accepts: nested new_f
    acc = d.func("accepts")
    res.fn(acc)
    newf = [n for n in ast.walk(acc.node) if isinstance(n, ast.FunctionDef) and n.name == "new_f"]
    if len(newf) != 1:
        raise AnalysisError(f"{acc.where()}: wrapper new_f not found")
    nf = newf[0]
    calls_f = [c for c in ast.walk(nf) if isinstance(c, ast.Call) and norm(c.func) == "f"]
    raises = [n for n in ast.walk(nf) if isinstance(n, ast.Raise)]
    ok = len(calls_f) == 1 and norm(calls_f[0]) == "f(*args, **kwargs)" and all(is_raise_of(r, "TypeError") for r in raises) and raises and all(r.lineno < calls_f[0].lineno for r in raises)
    last = [s for s in nf.body if not (isinstance(s, ast.Expr) and isinstance(s.value, ast.Constant))][-1]
    ok = ok and isinstance(last, ast.Return) and last.value is calls_f[0]
    res.check(ok, "accepts:check-before-call", acc.where(nf), "every TypeError precedes the single call f(*args, **kwargs) whose result is returned unchanged", rid=r4)
    loop = [n for n in nf.body if isinstance(n, ast.For)]
    from engine.core import FuncInfo
    from engine.sem import canon_expr, summarise

    nfi = FuncInfo(d, "accepts.new_f", nf)
    ok = len(loop) == 1 and canon_expr(loop[0].iter, nfi) in ("chain(zip(names_of_args, args), kwargs.items())",) and isinstance(loop[0].target, ast.Tuple) and len(loop[0].target.elts) == 2
    found = None
    if ok:
        an, av = [norm(e) for e in loop[0].target.elts]
        sums = summarise(nfi, body=loop[0].body, keep={an, av, "arg_units"})
        found = [(sorted(x.facts), x.kind) for x in sums]
        n_raise = 0
        for x in sums:
            declared = x.has(f"{an} in arg_units", True)
            wrong = x.has(f"_has_dimensions({av}, arg_units[{an}])", False)
            if x.kind == "raise":
                n_raise += 1
                ok &= declared and wrong and x.value.startswith("TypeError(")
            else:
                ok &= not (declared and wrong)
        ok &= n_raise >= 1
    res.check(ok, "accepts:all-arguments", acc.where(nf), "positional and keyword arguments are both checked against the declared dimension: a declared argument whose value does not have that dimension raises TypeError, nothing else does", found=found, rid=r4)
    ret = d.func("returns")
    res.fn(ret)
    newf = [n for n in ast.walk(ret.node) if isinstance(n, ast.FunctionDef) and n.name == "new_f"]
    if len(newf) != 1:
        raise AnalysisError(f"{ret.where()}: wrapper new_f not found")
    nf = newf[0]
    calls_f = [c for c in ast.walk(nf) if isinstance(c, ast.Call) and norm(c.func) == "f"]
    rets = [n for n in ast.walk(nf) if isinstance(n, ast.Return)]
    ok = len(calls_f) == 1 and norm(calls_f[0]) == "f(*args, **kwargs)" and len(rets) == 1 and norm(rets[0].value) == "results"
    asg = [n for n in ast.walk(nf) if isinstance(n, ast.Assign) and norm(n.targets[0]) == "results"]
    ok = ok and len(asg) == 1 and asg[0].value is calls_f[0]
    res.check(ok, "returns:result-unchanged", ret.where(nf), "the wrapped function is called once with the caller's arguments and its own result object is returned", rid=r4)
    loop = [n for n in nf.body if isinstance(n, ast.For)]
    ok = len(loop) == 1 and norm(loop[0].iter) == "zip(result_tuple, r_units)"
    if ok:
        txt = norm(loop[0])
        ok = "if not _has_dimensions(result, dimension)" in txt and "raise TypeError" in txt
    res.check(ok, "returns:pairwise", ret.where(nf), "each returned value is checked against its declared dimension and a mismatch raises TypeError", rid=r4)


MUTANTS = [
    Mutant("isclose-atol-not-converted", AF, "isclose", '    args, kwargs = _comp_tolerances(getattr(a, "units", NULL_UNIT), args, kwargs)\n', "", ("C19-R1",)),
    Mutant("tolerance-helper-forgets-keyword", AF, "_comp_tolerances", 'kwargs = dict(kwargs, atol=kwargs["atol"].to_value(units))', 'kwargs = dict(kwargs)', ("C19-R1",)),
    Mutant("desired-not-converted", ARR, "allclose_units", "        des = des.in_units(act.units)", "        des.in_units(act.units)", ("C19-R1",)),
    Mutant("strip-before-convert", ARR, "allclose_units", "    try:\n        at = at.in_units(act.units)\n    except (UnitOperationError, UnitConversionError):\n        return False\n", "    at = at\n", ("C19-R1", "C19-R3")),
    Mutant("isclose-skips-helper", AF, "isclose", "    a, b = _array_comp_helper(a, b)\n", "", ("C19-R1", "C06-R3")),
    Mutant("comp-helper-wrong-direction", AF, "_array_comp_helper", "        b = b.in_units(au)", "        b = b.in_units(bu)", ("C19-R1",)),
    Mutant("handler-too-broad", ARR, "allclose_units", "        des = des.in_units(act.units)\n    except (UnitOperationError, UnitConversionError):", "        des = des.in_units(act.units)\n    except Exception:", ("C19-R3",)),
    Mutant("rtol-units-ignored", ARR, "allclose_units", "    if not rt.units.is_dimensionless:", "    if False:", ("C19-R3",)),
    Mutant("assert-swallows", TST, "assert_allclose_units", "    if not allclose_units(actual, desired, rtol, atol, **kwargs):", "    if not allclose_units(actual, desired, rtol, **kwargs):", ("C19-R3",)),
    Mutant("array-equal-ignores-units", AF, "array_equal", "    if u2 != u1:\n        return False\n", "", ("C19-R3",)),
    Mutant("has-dimensions-identity", DIM, "_has_dimensions", "return arg_dim == dim", "return arg_dim is dim", ("C19-R4",)),
    Mutant("accepts-calls-first", DIM, "accepts", "            return f(*args, **kwargs)\n\n        return new_f", "            return out\n\n        return new_f", ("C19-R4",)),
    Mutant("returns-alters", DIM, "returns", "            return results\n", "            return result_tuple\n", ("C19-R4",)),
    Mutant("pop-is-crackle", "unyt/dimensions.py", None, "pop = length / time**6", "pop = length / time**5", ("C19-R5",)),
    Mutant("rtol-stripped-not-reduced", ARR, "allclose_units", 'rt = rt.in_units("dimensionless").value', "rt = rt.value", ("C19-R1",)),
]
