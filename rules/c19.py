"""C19 - unit-checking helpers decide by physical equality, not by spelling."""

from __future__ import annotations

import ast

from engine.core import AnalysisError, Repo, is_raise_of, kwarg_of, norm, walk_no_nested
from engine.flow import enum_paths, path_calls, path_facts
from engine.mutate import Mutant
from engine.report import Result

TECHNIQUE = "reaching-definition and path rules over allclose_units / _array_comp_helper / array_equal handlers / testing helpers / accepts-returns decorators: convert-before-compare, which definition of `des` reaches the bare-atol unit, exception discipline, check-before-call"
LEVEL_TEXT = """Static: (R1) every unit-carrying argument of the final np.allclose in allclose_units has passed
.in_units(actual's unit) and is stripped only afterwards; np.isclose/allclose convert the second operand into the first
operand's unit when both carry units; (R2) the unit given to a bare atol is the unit of the *desired* argument as passed in
(reaching-definition rule: the definition of `des` that reaches the unyt_quantity(atol, ...) site must be the one made
from `desired`, not the one already converted); (R3) only UnitOperationError/UnitConversionError are turned into a False
verdict, rtol with units raises, assert_allclose_units forwards all arguments and raises AssertionError exactly on a False
verdict, array_equal/array_equiv/assert_array_equal_units compare units with ==/!= and refuse on difference; (R4) the
accepts/returns decorators compare dimensions with == (never identity), treat unit-less values as dimensionless, raise
TypeError before the wrapped function is called (accepts) and return exactly what it returned (returns)."""
LEVEL_NOTE = """Undecided: the tolerance arithmetic of np.allclose itself and the verdict on concrete numbers."""
EXPLANATION = LEVEL_TEXT
ASSUMPTIONS = ["np.allclose / np.testing.assert_array_equal behave as documented"]

ARR = "unyt/array.py"
AF = "unyt/_array_functions.py"
TST = "unyt/testing.py"
DIM = "unyt/dimensions.py"


def check(repo: Repo) -> Result:
    res = Result("C19")
    allclose_rules(repo, res)
    comparison_handlers(repo, res)
    testing_helpers(repo, res)
    decorators(repo, res)
    return res


def allclose_rules(repo, res):
    r1 = res.rule("C19-R1", "values are converted into a common unit before they are compared, and stripped only afterwards", floor=6)
    r2 = res.rule("C19-R2", "a bare atol is given the unit of the desired argument as passed in", floor=1)
    r3 = res.rule("C19-R3", "error discipline of the comparison helpers", floor=8)
    fn = repo.mod(ARR).func("allclose_units")
    res.fn(fn)
    actual, desired, rtol, atol = fn.params[:4]
    body = fn.body
    # linear sequence of top-level statements with their index
    idx = {id(s): i for i, s in enumerate(body)}

    def top_assigns(name):
        out = []
        for i, s in enumerate(body):
            for n in ast.walk(s):
                if isinstance(n, ast.Assign) and norm(n.targets[0]) == name:
                    out.append((i, n))
        return out

    act_defs = top_assigns("act")
    des_defs = top_assigns("des")
    at_defs = top_assigns("at")
    ok = act_defs and norm(act_defs[0][1].value) == f"unyt_array({actual})" and des_defs and norm(des_defs[0][1].value) == f"unyt_array({desired})"
    res.check(ok, "wrap-inputs", fn.where(), "both inputs are wrapped as unyt arrays first (bare data become dimensionless)", rid=r1)
    conv_des = [(i, n) for i, n in des_defs if norm(n.value) in ("des.in_units(act.units)", "des.to(act.units)")]
    res.check(len(conv_des) == 1, "desired-converted", fn.where(), "desired must be converted into actual's unit before the comparison", found=[norm(n.value) for _, n in des_defs], rid=r1)
    conv_at = [(i, n) for i, n in at_defs if norm(n.value) in ("at.in_units(act.units)", "at.to(act.units)")]
    res.check(len(conv_at) == 1, "atol-converted", fn.where(), "atol must be converted into actual's unit before the comparison", found=[norm(n.value) for _, n in at_defs], rid=r1)
    strips = {}
    for name in ("act", "des", "rt", "at"):
        for i, n in top_assigns(name):
            if norm(n.value) in (f"{name}.value", f"{name}.v", f"{name}.d"):
                strips[name] = i
    last_conv = max([i for i, _ in conv_des + conv_at] or [-1])
    res.check(set(strips) == {"act", "des", "rt", "at"} and min(strips.values()) > last_conv, "strip-after-convert", fn.where(), "units are stripped only after all conversions", found=strips, rid=r1)
    rets = [n for n in body if isinstance(n, ast.Return)]
    ok = len(rets) == 1 and norm(rets[0].value) == "np.allclose(act, des, rt, at, **kwargs)"
    res.check(ok, "final-compare", fn.where(), "the verdict is np.allclose(actual, desired, rtol, atol, **kwargs) on the converted values", found=norm(rets[0].value) if rets else None, rid=r1)

    # R2: which definition of des reaches unyt_quantity(atol, des.units)?
    site = None
    for i, s in enumerate(body):
        for n in ast.walk(s):
            if isinstance(n, ast.Call) and norm(n.func) == "unyt_quantity" and n.args and norm(n.args[0]) == atol:
                site = (i, n)
    if site is None:
        raise AnalysisError(f"{fn.where()}: bare-atol wrapping site not found")
    uarg = site[1].args[1] if len(site[1].args) > 1 else kwarg_of(site[1], "units")
    utxt = norm(uarg) if uarg is not None else ""
    ok = False
    why = utxt
    if utxt.endswith(".units"):
        base = utxt[: -len(".units")]
        if base == desired:
            ok = True  # unit of a unit-carrying desired as passed in ... only valid if desired has units
            ok = False
            why = "desired may be bare; use the wrapped value"
        else:
            defs = [(i, n) for i, n in top_assigns(base) if i < site[0]]
            if defs:
                reaching = defs[-1][1]
                ok = norm(reaching.value) == f"unyt_array({desired})"
                why = f"{base} = {norm(reaching.value)}"
    elif isinstance(uarg, ast.Name):
        defs = [(i, n) for i, n in top_assigns(uarg.id) if i < site[0]]
        if defs:
            v = norm(defs[-1][1].value)
            if v.endswith(".units"):
                b2 = v[: -len(".units")]
                d2 = [(i, n) for i, n in top_assigns(b2) if i < defs[-1][0]]
                ok = bool(d2) and norm(d2[-1][1].value) == f"unyt_array({desired})"
                why = f"{uarg.id} = {v}, {b2} = {norm(d2[-1][1].value) if d2 else '?'}"
    res.check(ok, "bare-atol-unit", fn.where(site[1]), "a bare atol is documented to be in the units of `desired`, but the unit used is taken after `desired` has been converted to actual's unit", f"unit of unyt_array({desired})", why, rid=r2)

    # R3: error discipline in allclose_units
    handlers = [h for n in ast.walk(fn.node) if isinstance(n, ast.Try) for h in n.handlers]
    ok = len(handlers) == 2
    for h in handlers:
        names = {norm(e) for e in (h.type.elts if isinstance(h.type, ast.Tuple) else [h.type])} if h.type is not None else {"bare"}
        ok &= names == {"UnitOperationError", "UnitConversionError"} and len(h.body) == 1 and norm(h.body[0]) == "return False"
    res.check(ok, "allclose:handlers", fn.where(), "exactly the unit errors are turned into a False verdict", rid=r3)
    rt = [n for n in body if isinstance(n, ast.If) and "rt.units.is_dimensionless" in norm(n.test)]
    ok = len(rt) == 1 and norm(rt[0].test) == "not rt.units.is_dimensionless" and is_raise_of(rt[0].body[0], "RuntimeError")
    rdef = top_assigns("rt")
    ok = ok and rdef and norm(rdef[0][1].value) == f"unyt_array({rtol})"
    res.check(ok, "allclose:rtol", fn.where(), "an rtol with units must raise RuntimeError", rid=r3)
    ib = [n for n in body if isinstance(n, ast.If) and norm(n.test) == f"not isinstance({atol}, unyt_array)"]
    ok = len(ib) == 1 and any(norm(s) == f"at = {atol}" for s in ib[0].orelse)
    res.check(ok, "allclose:atol-with-units", fn.where(), "an atol that carries units is used in its own unit", rid=r3)


def comparison_handlers(repo, res):
    r1 = "C19-R1"
    r3 = "C19-R3"
    af = repo.mod(AF)
    fn = af.func("_array_comp_helper")
    res.fn(fn)
    a, b = fn.params
    good = True
    n = 0
    defs = {norm(s.targets[0]): norm(s.value) for s in fn.body if isinstance(s, ast.Assign)}
    good &= defs.get("au") == f"getattr({a}, 'units', NULL_UNIT)" and defs.get("bu") == f"getattr({b}, 'units', NULL_UNIT)"
    for p in enum_paths(fn.body):
        fm = dict((t, tr) for t, tr, _ in path_facts(p))
        stm = [norm(ev[1]) for ev in p if ev[0] == "stmt"]
        if fm.get("bu != au") is True and fm.get("au != NULL_UNIT") is True and fm.get("bu != NULL_UNIT") is True:
            n += 1
            good &= f"{b} = {b}.in_units(au)" in stm or f"{b} = {b}.to(au)" in stm
        good &= p[-1][0] == "return" and norm(p[-1][1].value) == f"({a}, {b})"
    res.check(good and n == 1, "_array_comp_helper", fn.where(), "when both operands carry different units the second is converted into the first operand's unit; operands are returned in order", rid=r1)
    for h in ("isclose", "allclose"):
        f = af.func(h)
        res.fn(f)
        first = f.body[0]
        ok = isinstance(first, ast.Assign) and norm(first) == f"({f.params[0]}, {f.params[1]}) = _array_comp_helper({f.params[0]}, {f.params[1]})".replace("(a, b) =", "a, b =")
        ok = isinstance(first, ast.Assign) and norm(first.value) == f"_array_comp_helper({f.params[0]}, {f.params[1]})" and norm(first.targets[0]) == f"({f.params[0]}, {f.params[1]})"
        res.check(ok, f"{h}:helper-first", f.where(), f"np.{h} must bring its operands to a common unit before comparing", rid=r1)
    for h in ("array_equal", "array_equiv"):
        f = af.func(h)
        res.fn(f)
        a1, a2 = f.params[:2]
        ok = True
        n = 0
        for p in enum_paths(f.body):
            fm = dict((t, tr) for t, tr, _ in path_facts(p))
            end = p[-1]
            if fm.get("u2 != u1") is True or fm.get("u1 != u2") is True:
                n += 1
                ok &= end[0] == "return" and norm(end[1].value) == "False"
            else:
                ok &= end[0] == "return" and f"np.{h}._implementation" in norm(end[1].value)
        defs = {norm(s.targets[0]): norm(s.value) for s in f.body if isinstance(s, ast.Assign)}
        ok &= defs.get("u1") == f"getattr({a1}, 'units', NULL_UNIT)" and defs.get("u2") == f"getattr({a2}, 'units', NULL_UNIT)"
        res.check(ok and n == 1, f"{h}:units-first", f.where(), f"np.{h} answers False when the units differ (compared with !=) and compares data otherwise", rid=r3)


def testing_helpers(repo, res):
    r3 = "C19-R3"
    t = repo.mod(TST)
    fn = t.func("assert_allclose_units")
    res.fn(fn)
    p = fn.params
    ok = len(fn.body) == 1 and isinstance(fn.body[0], ast.If)
    if ok:
        st = fn.body[0]
        ok = norm(st.test) == f"not allclose_units({p[0]}, {p[1]}, {p[2]}, {p[3]}, **{fn.kwarg})" and len(st.body) == 1 and is_raise_of(st.body[0], "AssertionError") and not st.orelse
    res.check(ok, "assert_allclose_units", fn.where(), "the assertion forwards all five arguments and raises AssertionError exactly on a False verdict", rid=r3)
    q = t.imports.get("allclose_units")
    res.check(q == "unyt.array.allclose_units", "assert_allclose_units:target", TST, "the assertion uses unyt.array.allclose_units", found=q, rid=r3)
    fn = t.func("assert_array_equal_units")
    res.fn(fn)
    x, y = fn.params[:2]
    calls = [norm(c) for c in ast.walk(fn.node) if isinstance(c, ast.Call)]
    ok = f"assert_array_equal({x}, {y}, **{fn.kwarg})" in calls
    ifs = [n for n in fn.body if isinstance(n, ast.If)]
    ok &= len(ifs) == 1 and is_raise_of(ifs[0].body[0], "AssertionError")
    if ifs:
        tt = norm(ifs[0].test)
        ok &= tt == f"not (xu := getattr({x}, 'units', NULL_UNIT)) == (yu := getattr({y}, 'units', NULL_UNIT))"
    res.check(ok, "assert_array_equal_units", fn.where(), "values are compared with NumPy and units with ==; a difference raises AssertionError", rid=r3)


def decorators(repo, res):
    r4 = res.rule("C19-R4", "accepts/returns: dimension compared with ==, unit-less = dimensionless, TypeError before/without altering the call", floor=6)
    d = repo.mod(DIM)
    fn = d.func("_has_dimensions")
    res.fn(fn)
    quant, dim = fn.params
    rets = [n for n in walk_no_nested(fn.node) if isinstance(n, ast.Return)]
    ok = len(rets) == 1 and isinstance(rets[0].value, ast.Compare) and isinstance(rets[0].value.ops[0], ast.Eq) and {norm(rets[0].value.left), norm(rets[0].value.comparators[0])} == {"arg_dim", dim}
    res.check(ok, "_has_dimensions:equality", fn.where(), "dimensions must be compared with == (identity would reject equal but rebuilt dimension expressions)", "arg_dim == dim", norm(rets[0].value) if rets else None, rid=r4)
    tr = [n for n in fn.body if isinstance(n, ast.Try)]
    ok = len(tr) == 1 and norm(tr[0].body[0]) == f"arg_dim = {quant}.units.dimensions" and len(tr[0].handlers) == 1 and norm(tr[0].handlers[0].type) == "AttributeError" and norm(tr[0].handlers[0].body[0]) == "arg_dim = dimensionless"
    res.check(ok, "_has_dimensions:unitless", fn.where(), "a value without units counts as dimensionless", rid=r4)
    # accepts: nested new_f
    acc = d.func("accepts")
    res.fn(acc)
    newf = [n for n in ast.walk(acc.node) if isinstance(n, ast.FunctionDef) and n.name == "new_f"]
    if len(newf) != 1:
        raise AnalysisError(f"{acc.where()}: wrapper new_f not found")
    nf = newf[0]
    calls_f = [c for c in ast.walk(nf) if isinstance(c, ast.Call) and norm(c.func) == "f"]
    raises = [n for n in ast.walk(nf) if isinstance(n, ast.Raise)]
    ok = len(calls_f) == 1 and norm(calls_f[0]) == "f(*args, **kwargs)" and all(is_raise_of(r, "TypeError") for r in raises) and raises and all(r.lineno < calls_f[0].lineno for r in raises)
    last = [s for s in nf.body if not (isinstance(s, ast.Expr) and isinstance(s.value, ast.Constant))][-1]
    ok = ok and isinstance(last, ast.Return) and last.value is calls_f[0]
    res.check(ok, "accepts:check-before-call", acc.where(nf), "every TypeError precedes the single call f(*args, **kwargs) whose result is returned unchanged", rid=r4)
    loop = [n for n in nf.body if isinstance(n, ast.For)]
    ok = len(loop) == 1 and norm(loop[0].iter) == "chain(zip(names_of_args, args), kwargs.items())"
    if ok:
        txt = norm(loop[0])
        ok = "if arg_name in arg_units" in txt and "dimension = arg_units[arg_name]" in txt and "if not _has_dimensions(arg_value, dimension)" in txt
    res.check(ok, "accepts:all-arguments", acc.where(nf), "positional and keyword arguments are both checked against the declared dimension", rid=r4)
    ret = d.func("returns")
    res.fn(ret)
    newf = [n for n in ast.walk(ret.node) if isinstance(n, ast.FunctionDef) and n.name == "new_f"]
    if len(newf) != 1:
        raise AnalysisError(f"{ret.where()}: wrapper new_f not found")
    nf = newf[0]
    calls_f = [c for c in ast.walk(nf) if isinstance(c, ast.Call) and norm(c.func) == "f"]
    rets = [n for n in ast.walk(nf) if isinstance(n, ast.Return)]
    ok = len(calls_f) == 1 and norm(calls_f[0]) == "f(*args, **kwargs)" and len(rets) == 1 and norm(rets[0].value) == "results"
    asg = [n for n in ast.walk(nf) if isinstance(n, ast.Assign) and norm(n.targets[0]) == "results"]
    ok = ok and len(asg) == 1 and asg[0].value is calls_f[0]
    res.check(ok, "returns:result-unchanged", ret.where(nf), "the wrapped function is called once with the caller's arguments and its own result object is returned", rid=r4)
    loop = [n for n in nf.body if isinstance(n, ast.For)]
    ok = len(loop) == 1 and norm(loop[0].iter) == "zip(result_tuple, r_units)"
    if ok:
        txt = norm(loop[0])
        ok = "if not _has_dimensions(result, dimension)" in txt and "raise TypeError" in txt
    res.check(ok, "returns:pairwise", ret.where(nf), "each returned value is checked against its declared dimension and a mismatch raises TypeError", rid=r4)


MUTANTS = [
    Mutant("desired-not-converted", ARR, "allclose_units", "        des = des.in_units(act.units)", "        des.in_units(act.units)", ("C19-R1",)),
    Mutant("strip-before-convert", ARR, "allclose_units", "    try:\n        at = at.in_units(act.units)\n    except (UnitOperationError, UnitConversionError):\n        return False\n", "    at = at\n", ("C19-R1", "C19-R3")),
    Mutant("isclose-skips-helper", AF, "isclose", "    a, b = _array_comp_helper(a, b)\n", "", ("C19-R1", "C06-R3")),
    Mutant("comp-helper-wrong-direction", AF, "_array_comp_helper", "        b = b.in_units(au)", "        b = b.in_units(bu)", ("C19-R1",)),
    Mutant("handler-too-broad", ARR, "allclose_units", "        des = des.in_units(act.units)\n    except (UnitOperationError, UnitConversionError):", "        des = des.in_units(act.units)\n    except Exception:", ("C19-R3",)),
    Mutant("rtol-units-ignored", ARR, "allclose_units", "    if not rt.units.is_dimensionless:", "    if False:", ("C19-R3",)),
    Mutant("assert-swallows", TST, "assert_allclose_units", "    if not allclose_units(actual, desired, rtol, atol, **kwargs):", "    if not allclose_units(actual, desired, rtol, **kwargs):", ("C19-R3",)),
    Mutant("array-equal-ignores-units", AF, "array_equal", "    if u2 != u1:\n        return False\n", "", ("C19-R3",)),
    Mutant("has-dimensions-identity", DIM, "_has_dimensions", "return arg_dim == dim", "return arg_dim is dim", ("C19-R4",)),
    Mutant("accepts-calls-first", DIM, "accepts", "            return f(*args, **kwargs)\n\n        return new_f", "            return out\n\n        return new_f", ("C19-R4",)),
    Mutant("returns-alters", DIM, "returns", "            return results\n", "            return result_tuple\n", ("C19-R4",)),
]
