"""Memo-layer rules shared by C05, C11, C12, C13 and C20 (engine: engine/memo.py).

Each generator yields obligations as tuples (key, ok, where, message, expected, found); the calling property
module records them under its own rule id, so that the property whose statement is broken reports the violation.
"""

from __future__ import annotations

import ast

from engine import memo
from engine.core import AnalysisError, Repo, norm, walk_no_nested

REG = "unyt/unit_registry.py"
UO = "unyt/unit_object.py"
ARR = "unyt/array.py"
US = "unyt/unit_systems.py"

REVIEWED_GLOBAL_WRITES = {
    # (module, function, container): why it is not a memo layer
    ("unyt/_array_functions.py", "implements", "_HANDLED_FUNCTIONS"): "decorator: runs at import, one entry per handled NumPy function",
    ("unyt/equivalencies.py", "_RegisteredEquivalence.__init__", "equivalence_registry"): "metaclass: runs at class creation, registers the equivalence under its name",
    ("unyt/unit_systems.py", "UnitSystem.__init__", "unit_system_registry"): "documented registration of a named unit system (looked up by that name only)",
}


def unit_cache_writers(repo: Repo, only_functions=None):
    """every write to a registry's unit-string cache, by kind.  Entries are Unit objects bound to the registry and
    table state they were parsed against: the cache may be created empty, filled by Unit.__new__ with the unit it
    has just built for that registry, and emptied - nothing else."""
    n_w = 0
    for w in memo.attr_writes(repo, "_unit_object_cache"):
        n_w += 1
        if only_functions is not None and w.qual not in only_functions:
            continue
        key = f"unit-cache-writer:{w.mod.rel.split('/')[-1]}:{w.qual}:{w.kind}"
        if w.kind == "clear":
            yield (key, True, w.where, "", "", "")
        elif w.kind == "init-empty":
            yield (key, w.mod.rel == REG and w.qual == "UnitRegistry.__init__", w.where, "the unit-string cache is created empty by the registry constructor only", "", w.text)
        elif w.kind == "store":
            ok = w.mod.rel == UO and w.qual == "Unit.__new__" and w.text == "registry._unit_object_cache[unit_cache_key] = obj"
            yield (key, ok, w.where, "the unit-string cache may only be filled by Unit.__new__ with the unit it has just built for that registry", "registry._unit_object_cache[unit_cache_key] = obj in Unit.__new__", w.text)
        else:
            yield (key, False, w.where, f"{w.qual} fills or rebinds a registry's unit-string cache ({w.text}): the entries are Unit objects bound to the registry (and table state) they were parsed against, so another registry - or the same one after an edit - would serve them as its own, and edits made through one registry reach units resolved through the other", "created empty, filled by Unit.__new__, emptied by clear()", w.text)
    if n_w < 2:
        raise AnalysisError("the creation and the filling of _unit_object_cache were not both found (anchor moved)")
    if only_functions is None:
        newf = repo.mod(UO).func("Unit.__new__")
        binds = [norm(n) for n in walk_no_nested(newf.node) if isinstance(n, ast.Assign) and norm(n.targets[0]) == "obj.registry"]
        yield ("unit-cache-owner", binds == ["obj.registry = registry"], newf.where(), "the unit stored in registry._unit_object_cache is bound to that same registry", "obj.registry = registry", binds)


def _string_typed(expr, fn):
    """is the expression certainly text?  (literal, f-string, str(...), or a local bound only to those)"""
    if isinstance(expr, ast.Constant):
        return isinstance(expr.value, (str, bytes))
    if isinstance(expr, ast.JoinedStr):
        return True
    if isinstance(expr, ast.Call) and norm(expr.func) in ("str", "repr"):
        return True
    if isinstance(expr, ast.BinOp) and isinstance(expr.op, (ast.Add, ast.Mod)):
        return _string_typed(expr.left, fn) or _string_typed(expr.right, fn)
    if isinstance(expr, ast.Name):
        ds = [n.value for n in walk_no_nested(fn.node) if isinstance(n, ast.Assign) and any(norm(t) == expr.id for t in n.targets)]
        return bool(ds) and all(_string_typed(d, fn) for d in ds)
    return False


def explicit_values(repo: Repo):
    """Unit.__new__ consults and fills the per-registry cache whenever the expression is text - also when the
    caller supplies base_value / dimensions itself.  Such a call stores values that were *not* looked up in the
    table under the text (and is answered from the cache, ignoring the values given).  Rule: no in-package
    construction passes text together with explicit values."""
    n = 0
    for mod in repo.mods(only_anchor=False):
        for q, fns in mod.funcs.items():
            for f in fns:
                for c in walk_no_nested(f.node):
                    if not (isinstance(c, ast.Call) and norm(c.func) in ("Unit", "cls")):
                        continue
                    if norm(c.func) == "cls" and not (mod.rel == UO and q.startswith("Unit.")):
                        continue
                    explicit = len(c.args) >= 2 or any(k.arg in ("base_value", "dimensions") for k in c.keywords)
                    if not explicit or not c.args:
                        continue
                    n += 1
                    key = f"explicit-values:{mod.rel.split('/')[-1]}:{q}"
                    yield (key, not _string_typed(c.args[0], f), f.where(c), f"{q} constructs a Unit from text together with explicit scale/dimension: Unit.__new__ memoises it under that text in the registry, so later Unit(text) calls get these values instead of the table's (e.g. the copy of a unit made before modify())", "expression object (not text) when values are given", norm(c)[:90])
    if n < 5:
        raise AnalysisError(f"only {n} Unit constructions with explicit values found (7 on the reviewed tree)")
    # ... and at the root: Unit.__new__ itself touches the per-registry text cache only when the caller gave no explicit
    # scale - on every path a cached unit is returned, or the text is noted as cache key, under `base_value is None`
    from engine.flow import enum_paths, fact_get, path_facts

    new = repo.mod(UO).func("Unit.__new__")
    bv = new.params[2] if len(new.params) > 2 else "base_value"
    bad, n_sites = None, 0
    for path in enum_paths(new.body):
        seen_facts = []
        for ev in path:
            if ev[0] == "cond":
                seen_facts.append(ev)
                continue
            node = ev[1] if len(ev) > 1 else None
            if node is None or ev[0] not in ("stmt", "return"):
                continue
            touches = False
            if isinstance(node, ast.Return) and node.value is not None and "_unit_object_cache" in norm(node.value):
                touches = True
            if isinstance(node, ast.Assign) and norm(node.targets[0]) == "unit_cache_key" and not (isinstance(node.value, ast.Constant) and node.value.value is None):
                touches = True
            if not touches:
                continue
            n_sites += 1
            fm = {t: tr for t, tr, _ in path_facts(seen_facts)}
            if fact_get(fm, f"{bv} is None") is not True:
                bad = bad or node
    if n_sites == 0:
        raise AnalysisError(f"{new.where()}: no use of the unit-string cache found in Unit.__new__")
    yield ("explicit-values:unit_object.py:Unit.__new__:cache-guard", bad is None, new.where(bad) if bad is not None else new.where(), "Unit.__new__ answers from / files into the registry's text cache although the caller supplied an explicit scale: Unit('m', base_value=5.0, dimensions=length, registry=r) makes every later Unit('m', registry=r) - and every conversion to 'm' - use 5.0, and a cached 'm' silently overrides the values given", f"cache read and cache key only under `{bv} is None`", norm(bad)[:80] if bad is not None else "")


def _enclosing_tests(root, target):
    """tests of the if / while statements and iterables of the for loops that enclose `target` inside `root`"""
    out = []

    def rec(node, acc):
        if node is target:
            out.extend(acc)
            return True
        for field, val in ast.iter_fields(node):
            kids = val if isinstance(val, list) else [val]
            for k in kids:
                if not isinstance(k, ast.AST):
                    continue
                acc2 = acc
                if isinstance(node, (ast.If, ast.While)) and field in ("body", "orelse"):
                    acc2 = acc + [node.test]
                elif isinstance(node, ast.For) and field in ("body", "orelse"):
                    acc2 = acc + [node.iter]
                if rec(k, acc2):
                    return True
        return False

    rec(root, [])
    return out


def calltime_globals(repo: Repo, only_functions=None):
    """A module-level container written from inside a function body is state that outlives the call.  The reviewed
    registrations are listed above; anything else is treated as a memo layer and its key is analysed."""
    seen = set()
    for w in memo.global_calltime_writes(repo, only_anchor=True):
        ident = (w.mod.rel, w.qual, w.target)
        key = f"global-state:{w.mod.rel.split('/')[-1]}:{w.qual}:{w.target}"
        if ident in REVIEWED_GLOBAL_WRITES:
            if ident not in seen and only_functions is None:
                yield (key, True, w.where, "", "", "")
            seen.add(ident)
            continue
        if only_functions is not None and w.qual not in only_functions:
            continue
        if w.kind == "store" and isinstance(w.node, ast.Assign):
            t = w.node.targets[0]
            kexpr = t.slice
            # what is remembered is the value *and* the fact that the store was reached: the tests that guard the store
            # (and the iterables of the loops around it) are part of what the key has to determine
            guards = _enclosing_tests(w.fn.node, w.node)
            v = memo.key_coverage(w.fn, kexpr, ast.Tuple(elts=[w.node.value] + guards, ctx=ast.Load()))
            if not v.covered:
                why = "; ".join([f"{r} reaches the key only as {p} (part of it is dropped)" for r, p in v.lossy] + [f"{r} does not reach the key" for r in v.missing])
                yield (key, False, w.where, f"{w.qual} remembers results in the process-global {w.target} under a key that does not determine them: {why}. A later call with a different input that has the same key is served the earlier result, so the outcome depends on call history", "key built from everything the stored value depends on", w.text[:100])
                continue
            roles = memo.param_roles(repo, w.fn)
            ident_keyed = [r for r in memo.roots(kexpr, memo.local_defs(w.fn)[0], set(w.fn.params)) if roles.get(r, set()) & {"registry", "unit_system"}]
            if ident_keyed:
                yield (key, False, w.where, f"{w.qual} remembers results in the process-global {w.target} keyed by the identity of a mutable {sorted(ident_keyed)}: edits of that object do not change the key", "content-derived key or invalidation on edit", w.text[:100])
                continue
        raise AnalysisError(f"{w.where}: unreviewed process-global state {w.target} written at call time ({w.text[:80]}); the analysis has no model of it")
    if len(seen) < 3:
        raise AnalysisError("reviewed call-time registrations not found (anchor moved)")


def _unit_system_mutators_invalidate(repo, f):
    us = repo.mod(US)
    fn = us.func("UnitSystem.__setitem__")
    return any(isinstance(c, ast.Call) and norm(c.func).endswith(f"{f.name}.cache_clear") for c in ast.walk(fn.node))


def cached_identity_params(repo: Repo, only_functions=None):
    """lru_cache keys its entries by argument hash/equality.  A UnitRegistry or UnitSystem argument hashes by
    identity, so an edit of the object leaves the key unchanged and the value computed from the old table is
    returned.  A registry argument is acceptable when every caller passes the .registry of a Unit argument: the
    Unit's hash carries the registry's content id, which is recomputed after every edit."""
    from rules.common import bind_call

    uo = repo.mod(UO)
    units_is_self = uo.has_func("Unit.units") and [norm(n) for n in uo.func("Unit.units").body if isinstance(n, ast.Return)] == ["return self"]
    for f in memo.cached_functions(repo):
        if only_functions is not None and f.qualname not in only_functions:
            continue
        mod, q = f.mod, f.qualname
        roles = memo.param_roles(repo, f)
        unit_params = [p for p, r in roles.items() if "unit" in r]
        for p, r in roles.items():
            if "registry" in r and memo.class_hashes_by_identity(repo, REG, "UnitRegistry"):
                sites = memo.call_sites(repo, f)
                tied = bool(sites) and bool(unit_params)
                detail = []
                for m2, f2, c in sites:
                    b = bind_call(c, f, skip_self=False)
                    ra = b.get(p)
                    ok_site = False
                    for up in unit_params:
                        ua = b.get(up)
                        if ra is None or ua is None:
                            continue
                        ut = norm(ua)
                        cands = {ut + ".registry"}
                        if units_is_self and ut.endswith(".units") and f2 is not None and f2.cls == "Unit":
                            cands.add(ut[: -len(".units")] + ".registry")
                        if norm(ra) in cands:
                            ok_site = True
                    if not ok_site:
                        tied = False
                        detail.append(f"{m2.rel}:{c.lineno} passes {norm(ra) if ra is not None else 'nothing'}")
                yield (f"{mod.rel.split('/')[-1]}:{q}:registry-param:{p}", tied, f.where(), f"cached function {q} takes the registry {p!r}, which hashes by identity: after registry.add/modify/remove the same key still hits and the value computed from the old table is returned" + (" (" + "; ".join(detail) + ")" if detail else ""), "no registry parameter, or always the .registry of a Unit argument (whose hash follows the table)", f"{len(sites)} call sites")
            if "unit_system" in r and not memo.class_hashes_by_identity(repo, US, "UnitSystem"):
                # the class compares by value: two objects that compare equal share one cache entry, so the comparison
                # must read everything the cached computation reads from the object
                usm = repo.mod(US)
                eq_attrs = set()
                for mname in ("UnitSystem.__eq__", "UnitSystem.__hash__"):
                    for ff in usm.funcs.get(mname, []):
                        eq_attrs |= {n.attr for n in ast.walk(ff.node) if isinstance(n, ast.Attribute) and isinstance(n.value, ast.Name) and n.value.id == "self"}
                reads = set()
                for n in ast.walk(f.node):
                    if isinstance(n, ast.Attribute) and isinstance(n.value, ast.Name) and n.value.id == p:
                        reads.add(n.attr)
                    if isinstance(n, ast.Subscript) and isinstance(n.value, ast.Name) and n.value.id == p:
                        reads.add("units_map")  # unit_system[dimension] answers from (and fills) the table
                missing = sorted(reads - eq_attrs)
                yield (f"{mod.rel.split('/')[-1]}:{q}:unit-system-key-equality:{p}", not missing, f.where(), f"cached function {q} is keyed by the unit system {p!r}, whose __eq__/__hash__ read only {sorted(eq_attrs)}, but the cached value is computed from {sorted(reads)}: a unit system that compares equal (e.g. a user system redefined under the same name) is served the answer computed for the other one", "equality covers every attribute the cached value depends on (or identity semantics)", f"not covered: {missing}")
            if "unit_system" in r and memo.class_hashes_by_identity(repo, US, "UnitSystem"):
                yield (f"{mod.rel.split('/')[-1]}:{q}:unit-system-key-equality:{p}", True, f.where(), "UnitSystem has identity semantics: two unit systems never share a cache entry", "", "")
                inval = _unit_system_mutators_invalidate(repo, f)
                yield (f"{mod.rel.split('/')[-1]}:{q}:unit-system-param:{p}", inval, f.where(), f"cached function {q} takes the unit system {p!r}, which hashes by identity, and reads its table: after unit_system[dimension] = unit the memoised answer for the old table is still returned", "UnitSystem.__setitem__ invalidates the cache, or the unit system is not part of a cached computation", "no invalidation")


def reachable_functions(repo: Repo, rel: str, roots, depth=3):
    """simple-name call closure inside one module (used to restrict a memo rule to the code behind one API)."""
    mod = repo.mod(rel)
    seen = set(roots)
    frontier = list(roots)
    for _ in range(depth):
        nxt = []
        for q in frontier:
            for f in mod.funcs.get(q, []):
                for c in ast.walk(f.node):
                    if isinstance(c, ast.Call):
                        name = None
                        if isinstance(c.func, ast.Name):
                            name = c.func.id
                        elif isinstance(c.func, ast.Attribute) and isinstance(c.func.value, ast.Name) and c.func.value.id == "self" and f.cls:
                            name = f"{f.cls}.{c.func.attr}"
                        if name and name in mod.funcs and name not in seen:
                            seen.add(name)
                            nxt.append(name)
        frontier = nxt
    return seen
