"""Helpers shared by several property modules."""

from __future__ import annotations

import ast

from engine.core import AnalysisError, FuncInfo, Repo, norm
from engine.flow import enum_paths, path_calls, path_facts

ARR = "unyt/array.py"
UO = "unyt/unit_object.py"


def bind_call(call: ast.Call, fn: FuncInfo, skip_self=True):
    """map formal parameter names of ``fn`` to the actual argument nodes of
    ``call``.  '*' / '**' keys hold starred actuals.  Raises AnalysisError when
    the call cannot be bound positionally."""
    a = fn.node.args
    pos = [x.arg for x in a.posonlyargs + a.args]
    if skip_self and pos and pos[0] in ("self", "cls"):
        pos = pos[1:]
    out = {}
    i = 0
    for arg in call.args:
        if isinstance(arg, ast.Starred):
            out["*"] = arg.value
            continue
        if i < len(pos):
            out[pos[i]] = arg
        else:
            out.setdefault("*extra", []).append(arg)
        i += 1
    for k in call.keywords:
        if k.arg is None:
            out["**"] = k.value
        else:
            out[k.arg] = k.value
    return out


def method_calls(node, recv_text, meth):
    for c in ast.walk(node):
        if (
            isinstance(c, ast.Call)
            and isinstance(c.func, ast.Attribute)
            and c.func.attr == meth
            and norm(c.func.value) == recv_text
        ):
            yield c


def forwards_equivalence(repo: Repo):
    """C03-R1 / C09-R6(f): keyword threading of (units, equivalence, **kwargs)
    through the conversion entry points.  Yields (key, ok, where, msg)."""
    arr = repo.mod(ARR)
    spec = [
        # (caller, callee, required binding {formal: actual text}, path fact selecting the route)
        ("to", "in_units", {"units": "units", "equivalence": "equivalence", "**": "kwargs"}, None),
        ("to_value", "in_units", {"units": "units", "equivalence": "equivalence", "**": "kwargs"}, ("units is None", False)),
        ("in_units", "to_equivalent", {"unit": "units", "equivalence": "equivalence", "**": "kwargs"}, ("equivalence is None", False)),
        ("convert_to_units", "convert_to_equivalent", {"unit": "units", "equivalence": "equivalence", "**": "kwargs"}, ("equivalence is None", False)),
        ("convert_to_base", "convert_to_units", {"units": "self.units.get_base_equivalent(unit_system)", "equivalence": "equivalence", "**": "kwargs"}, None),
        ("convert_to_cgs", "convert_to_units", {"units": "self.units.get_cgs_equivalent()", "equivalence": "equivalence", "**": "kwargs"}, None),
        ("convert_to_mks", "convert_to_units", {"units": "self.units.get_mks_equivalent()", "equivalence": "equivalence", "**": "kwargs"}, None),
    ]
    for caller, callee, want, fact in spec:
        fn = arr.func(f"unyt_array.{caller}")
        cal = arr.func(f"unyt_array.{callee}")
        paths = enum_paths(fn.body)
        sel = []
        for p in paths:
            if fact is None:
                sel.append(p)
            else:
                facts = dict((t, tr) for t, tr, _ in path_facts(p))
                if facts.get(fact[0]) is fact[1]:
                    sel.append(p)
        if not sel:
            pname = fact[0].split(" ")[0]
            truthy = any(t == pname for p in paths for t, tr, _ in path_facts(p))
            if truthy:
                # the route is chosen by the truth value of the argument instead of `is None`: an empty-string target (the
                # dimensionless unit) or any other falsy-but-given argument is treated as not given
                yield (f"thread:{caller}->{callee}", False, fn.where(), f"{caller} decides whether `{pname}` was given by its truth value: {caller}('' ...) - the dimensionless target - takes the no-argument route and the request is not forwarded to {callee}")
                continue
            raise AnalysisError(f"{fn.where()}: route {fact} not found")
        ok = True
        found = ""
        for p in sel:
            cs = [c for c in path_calls(p) if isinstance(c.func, ast.Attribute) and c.func.attr == callee and norm(c.func.value) == "self"]
            if len(cs) != 1:
                ok = False
                found = f"{len(cs)} calls of self.{callee}"
                continue
            b = bind_call(cs[0], cal)
            got = {k: norm(v) for k, v in b.items() if not isinstance(v, list)}
            # local single-assignment aliases are resolved one step
            for k, v in list(got.items()):
                for st in fn.body:
                    if isinstance(st, ast.Assign) and len(st.targets) == 1 and norm(st.targets[0]) == v and not any(norm(t2) == v for s2 in fn.body if s2 is not st and isinstance(s2, ast.Assign) for t2 in s2.targets):
                        if v not in fn.params:
                            got[k] = norm(st.value)
            if got != want:
                ok = False
                found = got
            # result must be what is returned for the copying routes
            end = p[-1]
            if caller in ("to", "in_units") and not (end[0] == "return" and end[1].value is cs[0]):
                ok = False
                found = "result of delegate is not returned as is"
            if caller == "to_value":
                # the value returned derives from .value of the converted array
                user = [n for n in ast.walk(fn.node) if isinstance(n, ast.Attribute) and n.value is cs[0]]
                if not (user and user[0].attr in ("value", "v", "d")):
                    ok = False
                    found = "converted array not stripped with .value"
        yield (f"thread:{caller}->{callee}", ok, fn.where(), f"{caller} must forward (units, equivalence, **kwargs) to {callee}: expected {want}, found {found}")


def unit_operators_returning_operand(repo: Repo):
    """(method FuncInfo, [return statements that hand back self / a parameter]) for the Unit operators whose
    results the library passes to the in-place simplify()."""
    from engine.core import walk_no_nested

    uo = repo.mod(UO)
    for meth in ("Unit.__mul__", "Unit.__truediv__", "Unit.__pow__", "Unit.__rmul__", "Unit.__rtruediv__"):
        mf = uo.func(meth)
        shared = []
        names = {"self"} | set(mf.params)
        for n in walk_no_nested(mf.node):
            if isinstance(n, ast.Return) and n.value is not None:
                v = n.value
                if isinstance(v, ast.Name) and v.id in names:
                    shared.append(norm(n))
                elif isinstance(v, ast.IfExp) and any(isinstance(x, ast.Name) and x.id in names for x in (v.body, v.orelse)):
                    shared.append(norm(n))
        yield mf, shared


def share(res, rid, prop, runner, src_rules, want=None, prefix="", min_keys=1):
    """Obligations of another property's rule that are also necessary for this property: run that rule function into a
    scratch Result and copy the obligations (discharged or violated) of `src_rules` whose key satisfies `want` into
    `res` under rule `rid`.  The analysis is the other rule's; only the report is filed here as well."""
    from engine.report import Result

    tmp = Result(prop)
    try:
        runner(tmp)
    except AnalysisError as e:
        # the sibling's analysis gave up (typically because the tree is broken in a way this property's own rules have
        # already reported): that must not hide those reports behind an analysis error
        if res.findings:
            res.note(f"shared obligations of {src_rules} not evaluated: {e}")
            return 0
        raise
    bad = {f.key: f for f in tmp.findings}
    n = 0
    for sr in src_rules:
        if sr not in tmp.rules:
            raise AnalysisError(f"shared rule {sr} was not produced")
        for k in tmp.rules[sr]["keys"]:
            if want is not None and not want(k):
                continue
            n += 1
            full = f"{sr}/{k}"
            if full in bad:
                f = bad[full]
                res.bad(prefix + k, f.where, f.msg, f.expected, f.found, path=f.path, rid=rid)
            else:
                res.ok(prefix + k, rid)
    res.analysed_functions |= tmp.analysed_functions
    if n < min_keys:
        raise AnalysisError(f"shared rule(s) {src_rules} produced {n} matching obligations, expected at least {min_keys}")
    return n
