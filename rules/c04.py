"""C04 - arithmetic results do not depend on the units the operands are written in."""

from __future__ import annotations

import ast

from engine.core import AnalysisError, Repo, kwarg_of, norm
from engine.flow import enum_paths, path_calls, path_facts, path_stmts
from engine.mutate import Mutant
from engine.report import Result
from engine.symb import Expander
from rules.ufunc import ARR, UfuncAnchors, dot_method_units, out_target_scaled, registry, rule_type, unit_rule_results
from spec import ufunc_signatures as SPEC

TECHNIQUE = "typed table check of _ufunc_registry against ufunc homogeneity signatures (unit rules interpreted as monomials) plus path rules in __array_ufunc__: rescale direction, coefficient application, reduce/trig/power gates"
LEVEL_TEXT = """Static: every entry of the per-ufunc unit-rule table (87 incl. the gated vecdot) is typed by interpreting the
rule function it points to as a unit monomial and compared with the homogeneity type NumPy's semantics give that ufunc
(sqrt: U^1/2, matmul: U1*U2, copysign: U1, comparisons: none, ...). Path rules over __array_ufunc__ then show the
mechanism that makes results representation-independent: the right operand is rescaled with the factor u1->u0 on every
path where units differ and the ufunc is evaluated on (left, rescaled right); the simplification coefficient returned
by the unit rule multiplies the result (and out=) on every exit; reductions of multiply/divide use the exponent map n
and 2-n; sin/cos/tan convert angles to radian first; power accepts only a dimensionless, effectively scalar exponent
when the base has units.
(R2, extended) the rescaling block is entered whenever the units differ by value; (R9) that decision rests on Unit.__eq__ comparing scale and offset with a purely relative tolerance (shared with C05-R2).
(R13) a quantity exponent in a scaled dimensionless unit (percent) is re-expressed as a pure number before float() and NumPy read it, on every accepting path of the power block."""
LEVEL_NOTE = """Undecided: numerical equality of results; sympy's simplify/_cancel_mul internals (only the coefficient
hand-over is checked, C05-R4). The rounding family, frexp/modf/spacing, divmod, heaviside, nextafter are outside the
claim exactly as in the property statement (only their C01 class is checked there)."""
EXPLANATION = LEVEL_TEXT
ASSUMPTIONS = ["NumPy routes operators, in-place operators and reduce/accumulate/outer through __array_ufunc__", "spec/ufunc_signatures.py"]


def check(repo: Repo) -> Result:
    res = Result("C04")
    anchors = UfuncAnchors(repo)
    res.fn(anchors.fn)
    signatures(repo, res)
    rescale(repo, res, anchors)
    coefficient(repo, res, anchors)
    reductions(repo, res, anchors)
    trig(repo, res, anchors)
    power_gate(repo, res, anchors)
    common_unit(repo, res, anchors)
    r7 = res.rule("C04-R7", "ndarray.dot override: result and out= carry the full product of the operands' units", floor=3)
    for key, ok, where, msg, exp, found in dot_method_units(repo):
        res.check(ok, key, where, msg, exp, found, rid=r7)
    from rules import c05
    from rules.common import share

    r9 = res.rule("C04-R9", "whether the second operand is rescaled is decided by Unit.__eq__: scale and offset compared with a purely relative tolerance, dimensions exactly", floor=1)
    share(res, r9, "C05", lambda t: t.__dict__.update(c05.check(repo).__dict__), ["C05-R2"], want=lambda k: k == "eq-shape")
    from rules import c17

    r10 = res.rule("C04-R10", "the rescaled second operand keeps its own kind: complex data stay complex (a real cast drops the imaginary part, so the result depends on whether the operand needed rescaling)", floor=1)
    share(res, r10, "C17", lambda t: t.__dict__.update(c17.check(repo).__dict__), ["C17-R1"], want=lambda k: k.startswith("ufunc"))
    from rules.ufunc import missing_unit_rule

    from rules import c02

    r12 = res.rule("C04-R12", "the coefficient the multiply / divide unit rules split off belongs to the unit it was split from: as_coeff_unit returns (c, u') with scale(u') = scale(u) / c computed from the unit's own scale, not looked up again in a registry whose definition may differ (shared with C02-R3)", floor=4)
    share(res, r12, "C02", lambda t: c02.homomorphism(repo, t), ["C02-R3"], want=lambda k: k.startswith("as_coeff_unit:"), min_keys=4)
    from rules import c01

    r14 = res.rule("C04-R14", "every ufunc that adds, compares or otherwise combines its two operands as numbers of one kind (add, subtract, hypot, maximum, less, arctan2, ...) maps to a unit rule of the set for which the second operand is rescaled into the first operand's unit: a rule outside that set - however careful about dimensions - evaluates on the raw numbers (np.hypot(3 km, 4000 m) near 4000 km) (shared with C01-R1)", floor=15)
    share(res, r14, "C01", lambda t: c01.classification(repo, t, anchors), ["C01-R1"], want=lambda k: "->" in k or k == "lookup", min_keys=15)
    r11 = res.rule("C04-R11", "an operand without units is given the null unit (scale 1, dimensionless), never the other operand's unit", floor=4)
    missing_unit_rule(anchors, res, r11)
    return res


def common_unit(repo, res, a: UfuncAnchors):
    """C04-R8: remainder-like and floor-dividing ufuncs are evaluated with both operands in one unit."""
    r8 = res.rule("C04-R8", "binary ufuncs that are not jointly homogeneous (remainders, floor division, divmod) see commensurable operands in one unit", floor=5)
    reg = registry(repo)
    for name in sorted(SPEC.NEEDS_COMMON_UNIT):
        if name not in reg:
            raise AnalysisError(f"ufunc {name} is not in _ufunc_registry")
        rule, gate = reg[name]
        # accepted alternative: the branch rescales the second operand explicitly for this ufunc
        explicit = False
        for n in ast.walk(ast.Module(body=a.binary, type_ignores=[])):
            if isinstance(n, ast.If) and any(isinstance(x, ast.Name) and x.id in (name, name + "_") for x in ast.walk(n.test)):
                if any(isinstance(st, ast.Assign) and norm(st.targets[0]) == "inp1" for st in ast.walk(n)):
                    explicit = True
        res.check(rule in a.checked or explicit, f"{name}:rescaled", f"{ARR} _ufunc_registry[{name}] -> {rule}", f"np.{name} is not homogeneous in its operands jointly, but its unit rule {rule} is not among the rules whose second operand is rescaled into the first operand's unit before evaluation {sorted(a.checked)}: for commensurable operands in different units the numbers are computed on mismatched scales and a scale factor is applied afterwards (1 km // 300 m gives 0 instead of 3)", "rule in the rescaled set", rule, rid=r8)
    if "divmod" in reg:
        rt = rule_type(repo, reg["divmod"][0])
        res.check(False if set(rt.kinds) == {"U1"} else True, "divmod:quotient-unit", f"{ARR} _ufunc_registry[divmod] -> {reg['divmod'][0]}", f"divmod returns (quotient, remainder) of type {SPEC.DIVMOD_OUTPUTS}; the single rule {reg['divmod'][0]} labels both outputs with the first operand's unit, so the quotient of 7 m by 2 m comes back as 3 m", str(SPEC.DIVMOD_OUTPUTS), sorted(rt.kinds), rid=r8)


def signatures(repo, res):
    r1 = res.rule("C04-R1", "unit rule of every registered ufunc has the homogeneity type of the ufunc", floor=80)
    reg = registry(repo)
    cache = {}
    for name, (rule, gate) in sorted(reg.items()):
        if name not in SPEC.UFUNCS:
            res.note(f"ufunc {name} has no signature row (unverified)")
            continue
        inputs, want = SPEC.UFUNCS[name]
        if rule not in cache:
            cache[rule] = rule_type(repo, rule)
        rt = cache[rule]
        kinds = set(rt.kinds)
        where = f"{ARR} _ufunc_registry[{name}] -> {rule}"
        if want == "unspecified":
            res.ok(f"{name}:outside-claim", r1)
            continue
        ok = False
        if want in ("U1", "U"):
            if inputs == "same":
                ok = kinds <= {"U1", "U2", "raises"} and "U1" in kinds
            else:
                ok = kinds == {"U1"}
        elif want == "DIFF":
            ok = "U1" in kinds and all(k in ("U1", "U2", "raises") or k.startswith("CONST:delta_") for k in kinds)
        elif want in ("U1*U2", "U1/U2"):
            ok = kinds == {want} and rt.has_coeff
        elif want.startswith("U^"):
            ok = kinds == {want}
        elif want in ("U1^x2", "1", "none", "raises"):
            ok = kinds == {want}
        else:
            raise AnalysisError(f"spec type {want} not understood")
        res.check(ok, f"{name}->{rule}", where, f"ufunc {name} needs a unit rule of type {want} but {rule} yields {sorted(kinds)}" + ("" if rt.has_coeff or "*" not in want and "/" not in want else " without the simplification coefficient"), want, sorted(kinds), rid=r1)
    for name, (inputs, want) in SPEC.UFUNCS.items():
        if name not in reg and want not in ("raises", "unspecified"):
            res.note(f"ufunc {name} is not registered (calls raise KeyError)")


def rescale(repo, res, a: UfuncAnchors):
    r2 = res.rule("C04-R2", "second operand is rescaled by the factor u1->u0 on every path where units differ; the ufunc is evaluated on (left, rescaled right)", floor=5)
    fn = a.fn
    body = a.differ_if.body
    conv = [st for st in body if isinstance(st, ast.Assign) and isinstance(st.value, ast.Call) and isinstance(st.value.func, ast.Attribute) and st.value.func.attr == "get_conversion_factor"]
    if len(conv) != 1:
        raise AnalysisError(f"{fn.where(a.differ_if)}: conversion-factor statement not found")
    c = conv[0].value
    ok = norm(c.func.value) == "u1" and c.args and norm(c.args[0]) == "u0"
    res.check(ok, "factor-direction", fn.where(conv[0]), "the conversion factor must take the right operand's unit into the left operand's unit", "u1.get_conversion_factor(u0, ...)", norm(c), rid=r2)
    tgt = conv[0].targets[0]
    cname = norm(tgt.elts[0]) if isinstance(tgt, ast.Tuple) else None
    # the rescale statement
    resc = [st for st in body if isinstance(st, ast.Assign) and norm(st.targets[0]) == "inp1"]
    ok = False
    if len(resc) == 1 and isinstance(resc[0].value, ast.BinOp) and isinstance(resc[0].value.op, ast.Mult):
        l, r = resc[0].value.left, resc[0].value.right
        sides = [norm(l), norm(r)]
        data = [x for x in (l, r) if isinstance(x, ast.Call) and norm(x.func) == "np.asarray" and norm(x.args[0]) == "inp1"]
        ok = cname in sides and len(data) == 1
    res.check(ok, "rescale-stmt", fn.where(resc[0]) if resc else fn.where(), "inp1 must be replaced by inp1 * factor", "inp1 = np.asarray(inp1, ...) * conv", [norm(s) for s in resc], rid=r2)
    # conv may only be re-bound by a dtype cast of itself
    reb = [st for st in body if isinstance(st, ast.Assign) and norm(st.targets[0]) == cname]
    res.check(all(isinstance(st.value, ast.Call) and [norm(x) for x in st.value.args] == [cname] for st in reb), "factor-cast", fn.where(), "the factor may only be cast to the operand dtype between computation and use", found=[norm(s) for s in reb], rid=r2)
    # must-pass: every path through the differing-units block that continues passes the rescale
    n = 0
    bad = None
    for p in enum_paths(body):
        if p[-1][0] != "fall":
            continue
        n += 1
        if resc and not any(ev[0] == "stmt" and ev[1] is resc[0] for ev in p):
            bad = p
    res.check(n > 0 and bad is None, "rescale-on-all-paths", fn.where(a.differ_if), "a path through the differing-units block reaches evaluation without rescaling the right operand", found=[f"{t}={tr}" for t, tr, _ in path_facts(bad)] if bad else "", rid=r2)
    # ... and that block is entered whenever the units differ by value (not merely by spelling)
    from rules.ufunc import differ_entry

    ok_e, bad_e = differ_entry(a)
    res.check(ok_e, "rescale-entry", fn.where(a.differ_if), "the rescaling block is skipped for some operands whose units differ: the entry test has a conjunct that can be false although scale or dimension differ (e.g. the same symbol in two registries, or spellings compared instead of values)", "only comparisons of the two unit objects (is not / !=)", bad_e, rid=r2)
    # evaluation call
    call = a.eval_stmt.value
    args = [norm(x) for x in call.args]
    res.check(args == ["inp0.view(np.ndarray)", "inp1.view(np.ndarray)"] and norm(kwarg_of(call, "out")) == "out_func", "evaluation-operands", fn.where(a.eval_stmt), "the ufunc must be evaluated on (left data, rescaled right data) with the out view", found=norm(call), rid=r2)
    # order: rescale block precedes the evaluation, unit rule is applied to (u0, u1)
    pos = {id(st): i for i, st in enumerate(a.binary)}
    res.check(pos[id(a.checked_if)] < pos[id(a.unit_stmt)] < pos[id(a.eval_stmt)], "order", fn.where(a.eval_stmt), "dimension check / rescale, then unit rule, then evaluation", rid=r2)


def coefficient(repo, res, a: UfuncAnchors):
    r3 = res.rule("C04-R3", "the simplification coefficient `mul` is applied on every exit (and to out=); dimensionless-ratio shortcut scales data and resets the unit together", floor=5)
    fn = a.fn
    post = a.post
    nret = 0
    for p in enum_paths(post, limit=20000):
        end = p[-1]
        if end[0] != "return":
            continue
        facts = dict((t, tr) for t, tr, _ in path_facts(p))
        val = norm(end[1].value)
        nret += 1
        # `mul = 1` may be re-bound after out was scaled in place and shares memory
        rebound = any(ev[0] == "stmt" and isinstance(ev[1], ast.Assign) and norm(ev[1]) == "mul = 1" for ev in p)
        if val == "out_arr":
            ok = facts.get("mul == 1") is True
            if ok and rebound:
                # allowed only when out was multiplied and out_arr shares its memory
                from rules.ufunc import scaling_call

                ok = any(scaling_call(c, fn.node) is not None for c in path_calls(p)) and facts.get("np.shares_memory(out_arr, out)") is True
            if not ok:
                res.bad(f"exit:{val}", fn.where(end[1]), "a result is returned without the simplification coefficient being applied", "mul == 1 or mul * out_arr", [f"{t}={tr}" for t, tr in facts.items()][-4:], rid=r3)
                break
        elif val in ("mul * out_arr", "out_arr * mul"):
            pass
        else:
            res.bad(f"exit:{val}", fn.where(end[1]), "unexpected return expression at the end of __array_ufunc__", "out_arr | mul * out_arr", val, rid=r3)
            break
    else:
        res.check(nret > 0, "exits", fn.where(), "every exit applies the coefficient", rid=r3)
    # out= is scaled as well (typestate along every path through the wrap-up block; rules/ufunc.py)
    ok, where, conds = out_target_scaled(a)
    res.check(ok, "out-scaled", where, "on a path where out= is given and the simplification coefficient differs from 1 the out target is never multiplied by it: the caller's buffer keeps the unscaled numbers while the returned value is scaled", "multiply(out, mul, out=out) on every such path", conds, path=conds, rid=r3)
    # ... on the bare buffer: through unyt's own multiply the out array is an operand that still carries its *previous*
    # unit, whose own simplification coefficient is applied to the numbers again - and again (a = [1, 2] m**2/cm; a *= 2.0
    # recursed until the stack was exhausted, leaving inf in a)
    from rules.ufunc import scaling_call as _sc

    kinds = [(_sc(c, fn.node), c) for c in ast.walk(ast.Module(body=a.post, type_ignores=[])) if isinstance(c, ast.Call)]
    kinds = [(k, c) for k, c in kinds if k is not None]
    if not kinds:
        raise AnalysisError(f"{fn.where()}: the call that scales the out target was not found")
    disp = [c for k, c in kinds if k == "dispatching"]
    res.check(not disp, "out-scaled-on-bare-buffer", fn.where(disp[0]) if disp else fn.where(), "the simplification coefficient is applied to the out target through unyt's own multiply: the out array enters __array_ufunc__ again as an operand with its previous unit, and when that unit simplifies with a coefficient of its own (m**2/cm = 100 m) the numbers are scaled again, recursively - a *= 2.0 on [1, 2] m**2/cm raises RecursionError and leaves inf", "np.multiply(<bare view of out>, mul, out=<the same view>)", norm(disp[0]) if disp else "", rid=r3)
    # `mul` definitions come from the unit rule (element 0 of its result), the power mapping, or are the literal 1
    bad_defs, n_rule = [], 0
    for node, kind, detail in unit_rule_results(a, "mul"):
        if kind == "rule" and detail[0] == 0 and detail[1] in (["u"], ["u0", "u1"]):
            n_rule += 1
        elif kind == "power-mapping" and detail[0] == 0 and detail[1] == {"ufunc": "ufunc", "in_unit": "u", "in_size": "inp.size", "in_shape": "inp.shape", "input_kwarg_dict": "kwargs"}:
            pass
        elif kind == "literal" and detail == 1:
            pass
        else:
            bad_defs.append((kind, detail))
    res.check(not bad_defs and n_rule >= 2, "mul-defs", fn.where(), "the coefficient must be element 0 of what the ufunc's unit rule returned for the operand unit(s) (or of the power mapping for reductions), or the literal 1", "rule(u) | rule(u0, u1) | _apply_power_mapping(ufunc, u, inp.size, inp.shape, kwargs) | 1", bad_defs, rid=r3)
    # dimensionless-ratio shortcut
    # (the test `u0.dimensions == u1.dimensions` may stand alone in a nest of ifs or be one conjunct of a merged condition)
    def _conjuncts(t):
        return [norm(v) for v in t.values] if isinstance(t, ast.BoolOp) and isinstance(t.op, ast.And) else [norm(t)]

    sc = [n for n in ast.walk(ast.Module(body=a.binary, type_ignores=[])) if isinstance(n, ast.If) and "u0.dimensions == u1.dimensions" in _conjuncts(n.test) and not n.orelse]
    ok = False
    if len(sc) == 1:
        stm = [norm(s) for s in sc[0].body]
        ok = len(stm) == 2 and stm[0].replace(" ", "") == "out_arr=np.multiply(out_arr.view(np.ndarray),unit.base_value,out=out_func)".replace(" ", "") and stm[1] == "unit = Unit(registry=unit.registry)"
    res.check(ok, "ratio-shortcut", fn.where(sc[0]) if sc else fn.where(), "for a dimensionless ratio of commensurable units the data are multiplied by the ratio's scale and the unit reset, both or neither", found=[norm(s) for s in sc[0].body] if sc else None, rid=r3)
    if sc:
        # guards: only under dimensionless unit with base_value != 1
        # every test that must hold for the shortcut's statements to run: the conjuncts of all enclosing if-tests (body arms)
        guards_ = set(_conjuncts(sc[0].test))

        def _enclosing(stmts, target):
            for st in stmts:
                if st is target:
                    return []
                if isinstance(st, ast.If):
                    r_ = _enclosing(st.body, target)
                    if r_ is not None:
                        return _conjuncts(st.test) + r_
                    r_ = _enclosing(st.orelse, target)
                    if r_ is not None:
                        return r_
                for fld in ("body", "orelse", "finalbody"):
                    if not isinstance(st, ast.If) and isinstance(getattr(st, fld, None), list):
                        r_ = _enclosing(getattr(st, fld), target)
                        if r_ is not None:
                            return r_
            return None

        enc = _enclosing(a.binary, sc[0])
        guards_ |= set(enc or [])
        res.check(enc is not None and "unit.is_dimensionless" in guards_ and ("unit.base_value != 1.0" in guards_ or "unit.base_value != 1" in guards_), "ratio-shortcut-guard", fn.where(), "the shortcut applies only to a dimensionless result unit whose scale is not 1", "unit.is_dimensionless and unit.base_value != 1.0 among the enclosing tests", sorted(guards_), rid=r3)


def reductions(repo, res, a: UfuncAnchors):
    r4 = res.rule("C04-R4", "reduce of multiply/divide uses the exponent map n -> n and n -> 2-n", floor=4)
    fn = a.fn
    # path rule over the unary branch: the pair (mul, unit) comes from the power mapping exactly on the paths where the
    # ufunc is multiply/divide AND the call form is reduce; from the registry rule on every other path
    from engine.sem import atomise, canon_facts, split_ifexp

    kinds = {id(node): kind for node, kind, detail in unit_rule_results(a, "mul")}
    ok, found, n_pm, n_rule = True, [], 0, 0
    for p in enum_paths(atomise(split_ifexp(list(a.unary)))):
        got = [kinds[id(ev[1])] for ev in p if ev[0] == "stmt" and id(ev[1]) in kinds]
        if p[-1][0] == "raise":
            continue
        facts = canon_facts(p, fn)
        is_reduce_product = ("ufunc in (multiply, divide)", True) in facts and ("method == 'reduce'", True) in facts
        found.append((sorted(t for t, tr in facts if "ufunc in" in t or "method" in t), got))
        if is_reduce_product:
            n_pm += 1
            ok &= got == ["power-mapping"]
        else:
            n_rule += 1
            ok &= got == ["rule"]
    res.check(ok and n_pm >= 1 and n_rule >= 1, "selector", fn.where(), "the power mapping is used exactly for reduce of multiply/divide, the registry rule otherwise", "power-mapping iff (ufunc in (multiply, divide)) and method == 'reduce'", found[:6], rid=r4)
    mod = repo.mod(ARR)
    pm = mod.assign("POWER_MAPPING")
    got = {}
    if isinstance(pm, ast.Dict):
        for k, v in zip(pm.keys, pm.values):
            got[norm(k)] = norm(v)
    res.check(got.get("multiply") == "lambda x: x", "map:multiply", ARR, "a product of n factors has the unit to the power n", "lambda x: x", got.get("multiply"), rid=r4)
    res.check(got.get("divide") in ("lambda x: 2 - x",), "map:divide", ARR, "a/b/c/... over n elements has the unit to the power 2-n", "lambda x: 2 - x", got.get("divide"), rid=r4)
    pf = mod.func("_apply_power_mapping")
    res.fn(pf)
    ufunc, in_unit, in_size, in_shape, kw = pf.params
    from engine.sem import summarise

    sums = [x for x in summarise(pf) if x.kind != "fall" or True]
    if not sums:
        raise AnalysisError(f"{pf.where()}: no path")
    # which axis value does the function use?  kw.get("axis", D): D is what an absent keyword means, and
    # ufunc.reduce reduces over axis 0 when no axis is given (NumPy: "axis=0").
    gets = [c for c in ast.walk(pf.node) if isinstance(c, ast.Call) and isinstance(c.func, ast.Attribute) and c.func.attr == "get" and norm(c.func.value) == kw and c.args and isinstance(c.args[0], ast.Constant) and c.args[0].value == "axis"]
    if not gets:
        raise AnalysisError(f"{pf.where()}: lookup of the axis keyword not found")
    defaults = {norm(c.args[1]) if len(c.args) > 1 else "None" for c in gets}
    res.check(defaults == {"0"}, "default-axis", pf.where(gets[0]), "ufunc.reduce without an axis argument reduces over axis 0 (not over all elements): np.multiply.reduce(a) of a 2-d array multiplies shape[0] factors, so treating an absent axis like axis=None attaches unit**size", "kwargs.get('axis', 0)", sorted(defaults), rid=r4)
    ax = f"{kw}.get('axis', {sorted(defaults)[0]})"
    want_all = f"(1, {in_unit} ** POWER_MAPPING[{ufunc}]({in_size}))"
    want_axis = f"(1, {in_unit} ** POWER_MAPPING[{ufunc}]({in_shape}[{ax}]))"
    ok = True
    found = []
    n_axis = n_all = 0
    for x in sums:
        found.append((sorted(x.facts), x.value))
        if x.kind != "return":
            ok = False
            continue
        axis_none = x.has(f"{ax} is None", True)
        axis_given = x.has(f"{ax} is None", False)
        scalar = x.has(in_shape, False)
        if axis_given and not scalar:
            n_axis += 1
            ok &= x.value == want_axis
        elif axis_none or scalar:
            n_all += 1
            ok &= x.value == want_all
        else:
            ok = False
    ok &= n_axis >= 1 and n_all >= 1
    res.check(ok, "exponent", pf.where(), "the exponent is the number of reduced elements (length of the reduced axis, or size for axis=None / 0-d input) mapped through POWER_MAPPING[ufunc], and the coefficient is 1", [want_axis, want_all], found, rid=r4)


def trig(repo, res, a: UfuncAnchors):
    r5 = res.rule("C04-R5", "sin/cos/tan of an angle convert to radian before evaluation", floor=3)
    mod = repo.mod(ARR)
    t = mod.assign("trigonometric_operators")
    names = {mod.qual(e).split(".")[-1] for e in t.elts} if isinstance(t, ast.Tuple) else set()
    res.check(SPEC.ANGLE_AWARE <= names, "operators", ARR, "sin, cos and tan must be angle aware", sorted(SPEC.ANGLE_AWARE), sorted(names), rid=r5)
    fn = a.fn
    guard = [st for st in a.unary if isinstance(st, ast.If) and "trigonometric_operators" in norm(st.test)]
    ok = False
    if len(guard) == 1:
        g = guard[0]
        ok = norm(g.test) in ("u.dimensions is angle and ufunc in trigonometric_operators", "ufunc in trigonometric_operators and u.dimensions is angle", "(u.dimensions is angle or u.dimensions == angle) and ufunc in trigonometric_operators", "u.dimensions == angle and ufunc in trigonometric_operators") and len(g.body) == 1 and norm(g.body[0]) in ("inp = inp.in_units('radian').v", "inp = inp.in_units('radian').value", "inp = inp.to('radian').v", "inp = inp.to_value('radian')")
    res.check(ok, "conversion", fn.where(guard[0]) if guard else fn.where(), "an angle input of a trigonometric ufunc must be converted to radian", found=norm(guard[0]) if guard else None, rid=r5)
    # and the conversion precedes the evaluation, which uses `inp`
    ev = [i for i, st in enumerate(a.unary) if isinstance(st, ast.Assign) and norm(st.targets[0]) == "out_arr"]
    gi = [i for i, st in enumerate(a.unary) if guard and st is guard[0]]
    ok = bool(ev and gi) and gi[0] < ev[0] and norm(a.unary[ev[0]].value).startswith("func(np.asarray(inp)")
    res.check(ok, "order", fn.where(), "the converted input is what gets evaluated", rid=r5)


def power_gate(repo, res, a: UfuncAnchors):
    r6 = res.rule("C04-R6", "power: a unit-carrying or non-constant array exponent (with a unit-carrying base) is refused on every path; the exponent used for the unit is the exponent's own value", floor=4)
    fn = a.fn
    blk = None
    for st in a.binary:
        if isinstance(st, ast.If):
            cur = st
            while cur is not None:
                if norm(cur.test) == "ufunc is power":
                    blk = cur
                    break
                cur = cur.orelse[0] if len(cur.orelse) == 1 and isinstance(cur.orelse[0], ast.If) else None
    if blk is None:
        raise AnalysisError(f"{fn.where()}: `ufunc is power` block not found")
    unitful = "isinstance(u1, unyt_array) and (not u1.units.is_dimensionless)"
    n = 0
    for i, p in enumerate(enum_paths(blk.body)):
        end = p[-1]
        if end[0] == "raise":
            continue
        n += 1
        facts = [(t, tr) for t, tr, _ in path_facts(p)]
        fm = dict(facts)
        key = "path:" + ",".join(f"{t}={tr}" for t, tr in facts)[:150]
        # (a) the unit-carrying-exponent test was passed with outcome False
        tested_units = any("u1.units.is_dimensionless" in t for t, tr in facts)
        # (b) final u1 derives from the exponent's own value
        last = None
        for ev in p:
            if ev[0] == "stmt" and isinstance(ev[1], ast.Assign) and norm(ev[1].targets[0]) == "u1":
                last = ev[1].value
        derived = last is not None and isinstance(last, ast.Call) and norm(last.func) == "float" and "u1" in norm(last.args[0])
        # (c) a non-scalar exponent is shown constant whenever the base may carry units
        scalar = fm.get("u1.shape == ()") is True
        const_checked = fm.get("np.ptp(u1) != 0") is False
        base_dimless = any(
            (t == "u0.is_dimensionless" and tr is True)
            or ("not u0.is_dimensionless" in t and "u0.units.is_dimensionless" not in t.replace("not u0.units.is_dimensionless", "") and tr is False)
            for t, tr in facts
        ) and not any(t == "u0.is_dimensionless" and tr is False for t, tr in facts)
        # the "dimensionless base: unit stays as it is" shortcut is for array exponents only (no single exponent exists):
        # a 0-d exponent is always applied to the unit, otherwise (50 %) ** 3 is labelled % instead of %**3
        nonscalar_known = fm.get("u1.shape == ()") is False or fm.get("inp0.shape == () or inp1.shape == ()") is False
        shortcut_ok = base_dimless and (derived or nonscalar_known)
        ok = tested_units and ((derived and (scalar or const_checked)) or shortcut_ok)
        why = []
        if base_dimless and not derived and not nonscalar_known:
            why.append("a scalar exponent is not applied to the unit of a dimensionless (possibly scaled: percent, mol) base")
        if not tested_units:
            why.append("exponent units not tested")
        if not derived and not base_dimless:
            why.append(f"unit exponent is {norm(last) if last is not None else None}, not the exponent's own value")
        if not (scalar or const_checked or base_dimless):
            why.append("array exponent not shown to be constant although the base may carry units")
        res.check(ok, key, fn.where(blk), "power: " + "; ".join(why), rid=r6)
    res.check(n >= 2, "paths", fn.where(blk), "power gate has accepting paths", rid=r6)
    exponent_reduced(res, fn, blk)


def exponent_reduced(res, fn, blk):
    """The exponent's *number* is what float(u1) and NumPy's power read.  A quantity exponent in a scaled dimensionless
    unit (50 percent) must therefore be re-expressed as a pure number before either reads it: on every accepting path of
    the power block the data operand was re-bound to a conversion of itself, or the path knows that it is not a quantity,
    that its unit has scale 1, or that it carries a dimension (refused by the gate, C04-R6)."""
    r13 = res.rule("C04-R13", "power: an exponent given as a quantity in a scaled dimensionless unit (percent) is reduced to a pure number before its value is read - by the unit exponent and by NumPy alike", floor=2)
    CONV = ("in_units", "to", "in_base", "to_value")
    bad = []
    n = n_conv = 0
    for p in enum_paths(blk.body):
        if p[-1][0] == "raise":
            continue
        n += 1
        data = None  # the name the exponent's data is read from: the right-hand side of the first `u1 = <name>`
        converted = set()
        for ev in p:
            if ev[0] != "stmt" or not isinstance(ev[1], ast.Assign) or len(ev[1].targets) != 1:
                continue
            tgt, val = norm(ev[1].targets[0]), ev[1].value
            if isinstance(val, ast.Call) and isinstance(val.func, ast.Attribute) and val.func.attr in CONV and norm(val.func.value) == tgt:
                if data is None:
                    converted.add(tgt)
            elif tgt == "u1" and data is None and isinstance(val, ast.Name):
                data = val.id
        if data is None:
            raise AnalysisError(f"{fn.where(blk)}: power block no longer binds u1 to the exponent operand")
        facts = [(t, tr) for t, tr, _ in path_facts(p)]
        def lit(t, tr):
            for nm in (data, "u1"):
                if t == f"isinstance({nm}, unyt_array)" and tr is False:
                    return True
                if t == f"{nm}.units.is_dimensionless" and tr is False:
                    return True
                if t in (f"{nm}.units.base_value != 1.0", f"{nm}.units.base_value != 1", f"({nm}.units.base_value != 1.0)") and tr is False:
                    return True
                if t in (f"{nm}.units.base_value == 1.0", f"{nm}.units.base_value == 1") and tr is True:
                    return True
            return False

        excused = False
        for t, tr in facts:
            if lit(t, tr):
                excused = True
                continue
            try:
                e = ast.parse(t, mode="eval").body
            except SyntaxError:
                continue
            # a conjunction known to be false: one conjunct fails - excused when the failure of each of them excuses
            if isinstance(e, ast.BoolOp) and isinstance(e.op, ast.And) and tr is False and all(lit(norm(c), False) for c in e.values):
                excused = True
        if data in converted:
            n_conv += 1
        elif not excused:
            bad.append(",".join(f"{t}={tr}" for t, tr in facts)[:160])
    res.check(not bad and n >= 2, "exponent:reduced", fn.where(blk), "power: the exponent operand may be a quantity in percent (scale 0.01) whose raw magnitude is read as the exponent: 2.0 ** (50 percent) evaluates 2**50, (4 m) ** (50 percent) is labelled m**50", f"`{'<exponent>'} = <exponent>.in_units(<null unit>)` before the exponent is read, on every accepting path that does not exclude a scaled dimensionless quantity", bad[:3], rid=r13)
    res.check(n_conv >= 1, "exponent:conversion-present", fn.where(blk), "power: no path re-expresses a quantity exponent as a pure number", rid=r13)


UO = "unyt/unit_object.py"

MUTANTS = [
    Mutant("bare-operand-borrows-unit", ARR, "unyt_array.__array_ufunc__", '            if u1 is None and ufunc is not power:\n                u1 = Unit(registry=getattr(u0, "registry", None))', "            if u1 is None and ufunc is not power:\n                u1 = u0", ("C04-R11",)),
    Mutant("cbrt-as-sqrt", ARR, None, "cbrt: _cbrt_unit,", "cbrt: _sqrt_unit,", ("C04-R1",)),
    Mutant("matmul-preserve", ARR, None, "matmul: _multiply_units,", "matmul: _preserve_units,", ("C04-R1",)),
    Mutant("copysign-mult", ARR, None, "copysign: _passthrough_unit,", "copysign: _multiply_units,", ("C04-R1",)),
    Mutant("sqrt-exponent", ARR, "_sqrt_unit", "unit**0.5", "unit**0.25", ("C04-R1",)),
    Mutant("abs-no-unit", ARR, None, "absolute: _passthrough_unit,", "absolute: _return_without_unit,", ("C04-R1",)),
    Mutant("divide-no-coeff", ARR, "_divide_units", "return ret.as_coeff_unit()", "return 1, ret", ("C04-R1",)),
    Mutant("factor-direction", ARR, "unyt_array.__array_ufunc__", "u1.get_conversion_factor(u0, inp1.dtype)", "u0.get_conversion_factor(u1, inp1.dtype)", ("C04-R2",)),
    Mutant("no-rescale", ARR, "unyt_array.__array_ufunc__", "inp1 = np.asarray(inp1, dtype=new_dtype) * conv", "inp1 = np.asarray(inp1, dtype=new_dtype)", ("C04-R2",)),
    Mutant("eval-swapped", ARR, "unyt_array.__array_ufunc__", "inp0.view(np.ndarray), inp1.view(np.ndarray), out=out_func", "inp1.view(np.ndarray), inp0.view(np.ndarray), out=out_func", ("C04-R2",)),
    Mutant("coeff-dropped", ARR, "unyt_array.__array_ufunc__", "        return mul * out_arr", "        return out_arr", ("C04-R3",)),
    Mutant("out-not-scaled", ARR, "unyt_array.__array_ufunc__", "                np.multiply(out_data, mul, out=out_data)\n", "                pass\n", ("C04-R3",)),
    Mutant("out-scaled-through-unyt-multiply", ARR, "unyt_array.__array_ufunc__", "                out_data = np.asarray(out)\n                np.multiply(out_data, mul, out=out_data)\n", "                multiply(out, mul, out=out)\n", ("C04-R3",)),
    Mutant("twin-out-scaled-on-view", ARR, "unyt_array.__array_ufunc__", "                out_data = np.asarray(out)\n", "                out_data = out.view(np.ndarray)\n", (), benign=True),
    Mutant("shortcut-half", ARR, "unyt_array.__array_ufunc__", "                            unit = Unit(registry=unit.registry)\n", "", ("C04-R3",)),
    Mutant("divide-map", ARR, None, "divide: lambda x: 2 - x", "divide: lambda x: 1 - x", ("C04-R4",)),
    Mutant("reduce-selector", ARR, "unyt_array.__array_ufunc__", 'if ufunc in (multiply, divide) and method == "reduce":', 'if ufunc in (multiply,) and method == "reduce":', ("C04-R4",)),
    Mutant("power-map-size", ARR, "_apply_power_mapping", "unit = in_unit ** (power_map(in_size))", "unit = in_unit ** (in_size)", ("C04-R4",)),
    Mutant("trig-drop-tan", ARR, None, "trigonometric_operators = (sin, cos, tan)", "trigonometric_operators = (sin, cos)", ("C04-R5",)),
    Mutant("trig-degree", ARR, "unyt_array.__array_ufunc__", 'inp.in_units("radian").v', 'inp.in_units("degree").v', ("C04-R5",)),
    Mutant("power-exponent-raw-percent", ARR, "unyt_array.__array_ufunc__", "                    inp1 = inp1.in_units(Unit(registry=inp1.units.registry))\n", "                    pass\n", ("C04-R13",)),
    Mutant("power-exponent-reduced-after-read", ARR, "unyt_array.__array_ufunc__", "                    inp1 = inp1.in_units(Unit(registry=inp1.units.registry))\n                u1 = inp1\n", "                    u1 = inp1\n                    inp1 = inp1.in_units(Unit(registry=inp1.units.registry))\n                else:\n                    u1 = inp1\n", ("C04-R13", "C04-R6")),
    Mutant("twin-power-exponent-to", ARR, "unyt_array.__array_ufunc__", "                    inp1 = inp1.in_units(Unit(registry=inp1.units.registry))\n", "                    inp1 = inp1.to(Unit(registry=inp1.units.registry))\n", (), benign=True),
    Mutant("power-units-unchecked", ARR, "unyt_array.__array_ufunc__", "                elif inp0.shape == inp1.shape:\n                    if isinstance(u1, unyt_array) and not u1.units.is_dimensionless:\n                        raise UnitOperationError(ufunc, u0, getattr(u1, \"units\", None))\n", "                elif inp0.shape == inp1.shape:\n", ("C04-R6",)),
    Mutant("twin-reg-order", ARR, None, "        sqrt: _sqrt_unit,\n        cbrt: _cbrt_unit,\n", "        cbrt: _cbrt_unit,\n        sqrt: _sqrt_unit,\n", (), benign=True),
    Mutant("twin-sqrt-rational", ARR, "_sqrt_unit", "unit**0.5", "unit ** (1 / 2)", (), benign=True),
    Mutant("rescale-entry-by-spelling", ARR, "unyt_array.__array_ufunc__", "if u0 is not u1 and u0 != u1:", "if u0 is not u1 and u0.expr != u1.expr:", ("C04-R2",)),
    Mutant("entry-without-identity-shortcut", ARR, "unyt_array.__array_ufunc__", "if u0 is not u1 and u0 != u1:", "if u0 != u1:", (), benign=True),
    Mutant("unit-eq-absolute-tolerance", UO, "Unit.__eq__", "math.isclose(self.base_value, u.base_value)", "np.isclose(self.base_value, u.base_value)", ("C04-R9",)),
    Mutant("rescale-kind-of-left-operand", ARR, "unyt_array.__array_ufunc__", 'new_dtypekind = "c" if inp1.dtype.kind == "c" else "f"', 'new_dtypekind = "c" if inp0.dtype.kind == "c" else "f"', ("C04-R10",)),
    Mutant("dot-drops-second-unit", ARR, "unyt_array.dot", 'res_units = self.units * getattr(b, "units", NULL_UNIT)', "res_units = self.units", ("C04-R7",)),
    Mutant("remainder-unchecked-rule", ARR, None, "        remainder: _preserve_units,", "        remainder: _passthrough_unit,", ("C04-R8",)),
]
