"""C10 - unit-system base conversion stays inside the system and preserves the quantity."""

from __future__ import annotations

import ast

from engine.core import AnalysisError, Repo, is_raise_of, kwarg_of, norm, walk_no_nested
from engine.flow import enum_paths, path_calls, path_facts
from engine.fold import DimVec, Tables
from engine.mutate import Mutant
from engine.report import Result

TECHNIQUE = "constant folding of the built-in UnitSystem definitions and overrides with dimension typing of every unit string; must-precede rule (validation before registration) in the constructor; error-discipline rule (MKS/CGS errors -> UnitsNotReducible); structural rule for the synthesis of derived-dimension units"
LEVEL_TEXT = """Static: (R1) the seven built-in unit systems and their 30 per-dimension overrides are folded from the source;
every base unit must have exactly the base dimension of its slot and every override expression - typed with the folded
unit table - must have the dimension it is declared for, so in_base() can neither leave the system nor fail a dimension
check for those dimensions; (R2) the constructor checks the dimension of every base unit in both the with-registry and the
without-registry arm and raises IllDefinedUnitSystem before the system is registered under its name; (R3) in
get_base_equivalent / in_base every call that can raise MKSCGSConversionError or MissingMKSCurrent is wrapped so that the
caller sees UnitsNotReducible, and item access raises MissingMKSCurrent when the system has no current unit; (R4) the unit
synthesised for a derived dimension is the product of the system's base units with the dimension's own exponents, and the
memoised expression and the returned unit come from the same string.
(R3, extended) _sanitize_unit_system(None, obj) is decided over closed abstract records of the classes actually passed (array, Unit, None; attribute inventories read from the class bodies): arrays and units resolve to their registry's system, None to mks; the base-equivalent unit is re-created in the unit's own registry; (R5) the CGS<->SI pairing table is closed under reversal with reciprocal factors (shared with C03-R4)."""
LEVEL_NOTE = """Undecided: idempotence, round trip and 'atoms are a subset of the system's units' for arbitrary compound inputs
(depend on sympy's factoring of dimension expressions) and the numerical conversion factors. Delegation of in_cgs/in_mks/
get_*_equivalent/convert_to_* is decided under C03-R1."""
EXPLANATION = LEVEL_TEXT
ASSUMPTIONS = ["sympy .expand()/.as_ordered_factors()/.as_base_exp() decompose a dimension into base-dimension powers"]

US = "unyt/unit_systems.py"
UO = "unyt/unit_object.py"
ARR = "unyt/array.py"
REG = "unyt/unit_registry.py"

SLOTS = [
    ("length_unit", "length"),
    ("mass_unit", "mass"),
    ("time_unit", "time"),
    ("temperature_unit", "temperature"),
    ("angle_unit", "angle"),
    ("current_mks_unit", "current_mks"),
    ("luminous_intensity_unit", "luminous_intensity"),
    ("logarithmic_unit", "logarithmic"),
]
EXPECTED_SYSTEMS = {"cgs", "mks", "imperial", "galactic", "solar", "geometrized", "planck"}


def check(repo: Repo) -> Result:
    res = Result("C10")
    t = Tables(repo)
    mod = repo.mod(US)
    init = mod.func("UnitSystem.__init__")
    res.fn(init)
    a = init.node.args
    params = [x.arg for x in a.args][1:]  # without self
    defaults = dict(zip(params[::-1], [d for d in a.defaults[::-1]]))
    # signature agrees with the slot table
    res_sig = params[:9] == ["name"] + [s for s, _ in SLOTS]
    r1 = res.rule("C10-R1", "built-in unit systems: every base unit has its slot's base dimension; every override has the dimension it is declared for", floor=80)
    res.check(res_sig, "signature", init.where(), "UnitSystem(name, length, mass, time, temperature, angle, current_mks, luminous_intensity, logarithmic)", found=params, rid=r1)
    # units_map pairs slots with dimensions in the same order
    um = [n for n in walk_no_nested(init.node) if isinstance(n, ast.Assign) and norm(n.targets[0]) == "self.units_map"]
    ok = False
    if len(um) == 1 and isinstance(um[0].value, ast.Call) and um[0].value.args and isinstance(um[0].value.args[0], ast.List):
        pairs = [(norm(e.elts[0]), norm(e.elts[1])) for e in um[0].value.args[0].elts]
        ok = pairs == [(f"dimensions.{d}", s) for s, d in SLOTS]
    res.check(ok, "slot-map", init.where(), "each constructor argument is stored under its own base dimension", rid=r1)

    systems = {}
    for st in mod.tree.body:
        if isinstance(st, ast.Assign) and isinstance(st.value, ast.Call) and norm(st.value.func) == "UnitSystem":
            c = st.value
            vals = {}
            for i, arg in enumerate(c.args):
                vals[params[i]] = arg
            for k in c.keywords:
                vals[k.arg] = k.value
            for p in params:
                if p not in vals and p in defaults:
                    vals[p] = defaults[p]
            try:
                name = vals["name"].value
            except Exception:
                raise AnalysisError(f"{US}:{st.lineno}: UnitSystem name is not a literal")
            systems[norm(st.targets[0])] = (name, vals, st)
    names = {v[0] for v in systems.values()}
    res.check(names == EXPECTED_SYSTEMS, "systems", US, "the documented built-in unit systems are defined", sorted(EXPECTED_SYSTEMS), sorted(names), rid=r1)
    has_current = {}
    for var, (name, vals, st) in sorted(systems.items()):
        for slot, dim in SLOTS:
            v = vals.get(slot)
            if isinstance(v, ast.Constant) and v.value is None:
                has_current[var] = has_current.get(var, True) and slot != "current_mks_unit"
                res.check(slot == "current_mks_unit", f"{name}:{dim}:none", f"{US}:{st.lineno}", "only the current unit may be absent (Gaussian systems)", rid=r1)
                continue
            if not (isinstance(v, ast.Constant) and isinstance(v.value, str)):
                raise AnalysisError(f"{US}:{st.lineno}: base unit for {slot} is not a literal string")
            try:
                sc, dv = t.unit_string(v.value)
                ok = dv == DimVec({dim: 1})
                found = repr(dv)
            except AnalysisError as e:
                ok, found = False, str(e)
            res.check(ok, f"{name}:{dim}={v.value}", f"{US}:{st.lineno}", f"unit system {name!r}: base unit {v.value!r} for {dim} does not have that dimension", dim, found, rid=r1)
        has_current.setdefault(var, True)
    # overrides
    n_over = 0
    for st in mod.tree.body:
        if isinstance(st, ast.Assign) and isinstance(st.targets[0], ast.Subscript) and norm(st.targets[0].value) in systems:
            var = norm(st.targets[0].value)
            name = systems[var][0]
            k, v = st.targets[0].slice, st.value
            if not (isinstance(k, ast.Constant) and isinstance(v, ast.Constant)):
                raise AnalysisError(f"{US}:{st.lineno}: override is not literal")
            n_over += 1
            dimname = k.value
            want = t.dims.get(dimname)
            if not isinstance(want, DimVec):
                res.bad(f"{name}[{dimname}]", f"{US}:{st.lineno}", f"override key {dimname!r} is not a dimension of unyt.dimensions", rid=r1)
                continue
            try:
                sc, dv = t.unit_string(v.value)
                ok = dv == want
                found = repr(dv)
            except AnalysisError as e:
                ok, found = False, str(e)
            res.check(ok, f"{name}[{dimname}]={v.value}", f"{US}:{st.lineno}", f"unit system {name!r} declares {v.value!r} for {dimname}, but that unit has dimension {found}: in_base would raise or leave the system", repr(want), found, rid=r1)
            if not has_current.get(var, True):
                res.check("current_mks" not in want.e, f"{name}[{dimname}]:no-current", f"{US}:{st.lineno}", "a system without a current unit cannot declare units for dimensions containing current", rid=r1)
    res.check(n_over >= 28, "override-count", US, "overrides located", found=n_over, rid=r1)

    constructor(repo, res, init)
    error_discipline(repo, res)
    synthesis(repo, res)
    from rules import c03
    from rules.common import share

    r5 = res.rule("C10-R5", "CGS <-> SI electromagnetic counterparts convert back to the original numbers: the pairing table is closed under reversal with reciprocal factors and pairs the em_dimensions partners (the absolute Gaussian-SI values are C03-R4)", floor=20)
    share(res, r5, "C03", lambda t: c03.em_table(repo, t), ["C03-R4"], want=lambda k: not k.endswith(":factor"), min_keys=20)

    from rules import c11

    r6 = res.rule("C10-R6", "a deep copy of a registry keeps its default unit system, so in_base() on a copied quantity stays inside that system (shared with C11-R3)", floor=1)
    share(res, r6, "C11", lambda t: c11.rebuilt_from_table(repo, t), ["C11-R3"], want=lambda k: k == "__deepcopy__:unit-system")
    r8 = res.rule("C10-R8", "the cgs / mks shorthands name their system: in_cgs / in_mks / convert_to_cgs / convert_to_mks / get_cgs_equivalent / get_mks_equivalent reach the base conversion with the literal 'cgs' / 'mks' (never the registry's default system) and convert_to_base threads its unit_system (shared with C03-R1)", floor=6)
    share(res, r8, "C03", lambda t: c03.delegation(repo, t), ["C03-R1"], want=lambda k: k in ("thread:convert_to_base->convert_to_units", "thread:convert_to_cgs->convert_to_units", "thread:convert_to_mks->convert_to_units", "in_cgs->in_base(cgs)", "in_mks->in_base(mks)", "get_cgs_equivalent->get_base_equivalent(cgs)", "get_mks_equivalent->get_base_equivalent(mks)", "in_base-target"), min_keys=6)
    from rules import memo_rules

    r7 = res.rule("C10-R7", "the memoised electromagnetic route keeps unit systems apart: a cached function keyed by a unit system either sees it by identity or by an equality that covers everything the cached answer is computed from (a user system redefined under the same name must not be served the old system's base units)", floor=1)
    for key, ok, where, msg, exp, found in memo_rules.cached_identity_params(repo):
        if ":unit-system-key-equality:" in key:
            res.check(ok, key, where, msg, exp, found, rid=r7)
    return res


def constructor(repo, res, init):
    r2 = res.rule("C10-R2", "UnitSystem.__init__ rejects inconsistent base units (both arms) before registering the system", floor=3)
    raises = [n for n in walk_no_nested(init.node) if isinstance(n, ast.Raise)]
    ok = len(raises) == 2 and all(is_raise_of(r, "IllDefinedUnitSystem") for r in raises)
    res.check(ok, "raises", init.where(), "both validation arms raise IllDefinedUnitSystem", found=[norm(r)[:60] for r in raises], rid=r2)
    regst = [n for n in walk_no_nested(init.node) if isinstance(n, ast.Assign) and norm(n.targets[0]) == "unit_system_registry[name]"]
    ok = len(regst) == 1 and all(r.lineno < regst[0].lineno for r in raises) and norm(regst[0].value) == "self"
    res.check(ok, "validate-before-register", init.where(), "a rejected system must not be registered: validation precedes unit_system_registry[name] = self", rid=r2)
    loop = [n for n in init.body if isinstance(n, ast.For) and norm(n.iter) == "self.units_map.items()" and any(isinstance(x, ast.Raise) for x in ast.walk(n))]
    ok = False
    if len(loop) == 1 and isinstance(loop[0].target, ast.Tuple):
        from engine.sem import summarise

        dimv, unitv = [norm(e) for e in loop[0].target.elts]
        # the unit as stored, or with a numeric coefficient split off first
        uforms = (unitv, f"{unitv}.as_coeff_Mul()[1]")
        # identity / equality of the two dimensions, in either operand order
        def both(a_, b_):
            return [f"{a_} {op_} {b_}" for op_ in ("is", "==")] + [f"{b_} {op_} {a_}" for op_ in ("is", "==")]

        with_reg = [t_ for u_ in uforms for t_ in both(f"self.registry[str({u_})][1]", dimv)]
        no_reg = [t_ for u_ in uforms for t_ in both(f"default_lut[inv_name_alternatives[_split_prefix(str({u_}), default_lut)[1]]][1]", dimv)]
        sums = summarise(init, body=loop[0].body, keep={dimv, unitv})
        ok = True
        n_r = {"reg": 0, "noreg": 0}
        for x in sums:
            has_reg = x.has("self.registry is None", False)
            mism_reg = any(x.has(t_, False) for t_ in with_reg)
            mism_no = any(x.has(t_, False) for t_ in no_reg)
            if x.kind == "raise":
                ok &= x.value.startswith("IllDefinedUnitSystem(") and ((has_reg and mism_reg) or (x.has("self.registry is None", True) and mism_no))
                n_r["reg" if has_reg else "noreg"] += 1
            else:
                ok &= not ((has_reg and mism_reg) or mism_no)
                # a unit that was looked at at all (not the optional missing current) had its dimension compared
                if not x.has(f"{unitv} is None", True) or not x.has(f"{dimv} is dimensions.current_mks", True):
                    ok &= any(x.has(t_, True) for t_ in with_reg + no_reg)
        ok &= n_r["reg"] >= 1 and n_r["noreg"] >= 1
    res.check(ok, "dimension-tests", init.where(), "with a registry the unit's table dimension, without one the default table's dimension (after prefix and alias resolution) is compared with the slot's dimension", rid=r2)


def base_equivalent_in_own_registry(repo):
    """every value returned by Unit.get_base_equivalent is a Unit(...) call whose registry argument is self.registry"""
    from rules.common import bind_call

    uo = repo.mod(UO)
    fn = uo.func("Unit.get_base_equivalent")
    new = uo.func("Unit.__new__")
    rets = [n for n in walk_no_nested(fn.node) if isinstance(n, ast.Return)]
    if not rets:
        raise AnalysisError(f"{fn.where()}: no return statement")
    bad = []
    for r in rets:
        v = r.value
        ok = isinstance(v, ast.Call) and norm(v.func) == "Unit"
        if ok:
            b = bind_call(v, new, skip_self=True)
            ok = b.get("registry") is not None and norm(b["registry"]) == "self.registry"
        elif v is not None and norm(v) in ("self", "self.copy()"):
            ok = True  # the unit itself / its copy (Unit.copy keeps the registry: C11-R4)
        if not ok:
            bad.append(norm(r)[:80])
    return not bad, bad


def class_instance_attrs(mod, cls):
    """names an instance of `cls` answers to, from the source: everything defined in the class body (methods,
    properties, class attributes) plus every attribute stored on self / obj / ret inside its methods"""
    cd = [n for n in mod.tree.body if isinstance(n, ast.ClassDef) and n.name == cls]
    if len(cd) != 1:
        raise AnalysisError(f"{mod.rel}: class {cls} not found")
    out = set()
    for st in cd[0].body:
        if isinstance(st, (ast.FunctionDef, ast.ClassDef)):
            out.add(st.name)
            for n in ast.walk(st):
                if isinstance(n, ast.Attribute) and isinstance(n.ctx, ast.Store) and isinstance(n.value, ast.Name) and n.value.id in ("self", "obj", "ret"):
                    out.add(n.attr)
        elif isinstance(st, ast.Assign):
            out |= {t.id for t in st.targets if isinstance(t, ast.Name)}
        elif isinstance(st, ast.AnnAssign) and isinstance(st.target, ast.Name):
            out.add(st.target.id)
    return out


def default_system_resolution(repo, res, rid):
    """_sanitize_unit_system(None, obj): what the `unit_system is None` branch binds, decided for each kind of object
    the library passes as obj (found from the call sites: an array, a Unit, None).  The objects are closed abstract
    records holding exactly the attributes their class defines in the source, so a read of an attribute the class
    does not have raises AttributeError abstractly and a getattr default is taken - as at run time."""
    from engine.dtable import Folder, Rec, Tok, _Raised

    reg = repo.mod(REG)
    fn = reg.func("_sanitize_unit_system")
    res.fn(fn)
    p_sys, p_obj = fn.params[:2]
    branch = [st for st in fn.body if isinstance(st, ast.If) and norm(st.test) in (f"{p_sys} is None", f"None is {p_sys}") and not st.orelse]
    if len(branch) != 1:
        raise AnalysisError(f"{fn.where()}: `if {p_sys} is None:` branch not found")
    # kinds of obj, from the call sites
    kinds = set()
    for mod in repo.mods(only_anchor=False):
        for q, fns in mod.funcs.items():
            for f in fns:
                for c in walk_no_nested(f.node):
                    if isinstance(c, ast.Call) and norm(c.func).split(".")[-1] == fn.name and len(c.args) >= 2:
                        a = c.args[1]
                        if isinstance(a, ast.Constant) and a.value is None:
                            kinds.add("None")
                        elif isinstance(a, ast.Name) and a.id == "self" and "." in q:
                            kinds.add(q.split(".")[0])
                        else:
                            raise AnalysisError(f"{f.where(c)}: cannot tell what kind of object is passed as obj: {norm(a)}")
    if not {"unyt_array", "Unit"} <= kinds:
        raise AnalysisError(f"{fn.where()}: call sites passing an array and a Unit not found ({sorted(kinds)})")
    arr_attrs = class_instance_attrs(repo.mod(ARR), "unyt_array")
    unit_attrs = class_instance_attrs(repo.mod(UO), "Unit")
    reg_attrs = class_instance_attrs(reg, "UnitRegistry")
    OWN, DEFAULT = Tok("the-registry's-unit-system"), Tok("mks-default")
    if "unit_system" not in reg_attrs or "registry" not in unit_attrs or "units" not in unit_attrs or "units" not in arr_attrs:
        raise AnalysisError(f"{fn.where()}: attribute inventory lacks units/registry/unit_system")
    def closed(label, names):
        r = Rec(label)
        r.attrs = {k: Tok(k) for k in names}
        r.attrs["__closed__"] = True
        return r

    registry = closed("registry", reg_attrs)
    registry.attrs["unit_system"] = OWN
    unit = closed("unit", unit_attrs)
    unit.attrs["registry"] = registry
    unit.attrs["units"] = unit
    array = closed("array", arr_attrs)
    array.attrs["units"] = unit
    objs = {"unyt_array": (array, OWN), "Unit": (unit, OWN), "None": (None, DEFAULT)}
    for k in sorted(kinds):
        if k not in objs:
            raise AnalysisError(f"{fn.where()}: obj of class {k} is not modelled")
        o, want = objs[k]
        f = Folder(reg, fn, {p_sys: None, p_obj: o}, {"mks_unit_system": DEFAULT})
        try:
            r = f.run(branch[0].body)
        except _Raised as ex:
            r = ex.outcome
        got = f.env.get(p_sys) if r is None else r
        res.check(got is want, f"default-system:{k}", fn.where(branch[0]), f"with unit_system=None and obj {'= None' if k == 'None' else 'a ' + k}, the system used must be {want}: the branch yields {got} (an attribute the class does not define is read, or a fallback hides it) - e.g. in_base() of an array in a cgs registry converts to mks", str(want), str(got), rid=rid)


def error_discipline(repo, res):
    r3 = res.rule("C10-R3", "irreducibility is reported as UnitsNotReducible; missing current as MissingMKSCurrent", floor=5)
    uo = repo.mod(UO)
    fn = uo.func("Unit.get_base_equivalent")
    res.fn(fn)
    ok = True
    for c in walk_no_nested(fn.node):
        if isinstance(c, ast.Call) and norm(c.func) == "_check_em_conversion":
            tr = [t for t in ast.walk(fn.node) if isinstance(t, ast.Try) and any(x is c for x in ast.walk(ast.Module(body=t.body, type_ignores=[])))]
            ok &= len(tr) == 1 and any(norm(h.type) == "MKSCGSConversionError" and is_raise_of(h.body[-1], "UnitsNotReducible") for h in tr[0].handlers)
    sub = [s for s in walk_no_nested(fn.node) if isinstance(s, ast.Subscript) and norm(s) == "unit_system[self.dimensions]"]
    for s in sub:
        tr = [t for t in ast.walk(fn.node) if isinstance(t, ast.Try) and any(x is s for x in ast.walk(ast.Module(body=t.body, type_ignores=[])))]
        ok &= len(tr) == 1 and any(norm(h.type) == "MissingMKSCurrent" and is_raise_of(h.body[-1], "UnitsNotReducible") for h in tr[0].handlers)
    res.check(ok and len(sub) == 1, "get_base_equivalent", fn.where(), "MKS/CGS conversion errors and a missing current unit surface as UnitsNotReducible", rid=r3)
    ok_reg, found_reg = base_equivalent_in_own_registry(repo)
    res.check(ok_reg, "get_base_equivalent:result", fn.where(), "the base-equivalent unit is built in the unit's own registry (a unit system's own units live in the default registry: their scales are not the caller's after a registry edit)", "every return is Unit(..., registry=self.registry)", found_reg, rid=r3)
    default_system_resolution(repo, res, r3)
    # in_base hands back the array unchanged only when its unit IS the system's unit for that dimension (same
    # expression): equality of units compares scale and dimension only, so `Sv` (= J/kg), `Ba`, `psf` would stay outside
    # the system although they are equal in value to its unit
    from engine.sem import summarise

    ibf = repo.mod(ARR).func("unyt_array.in_base")
    res.fn(ibf)
    unchanged = [x for x in summarise(ibf) if x.kind == "return" and x.value in ("self.copy()", "self", "self.copy(order='C')")]
    loose = [sorted(f"{t}={tr}" for t, tr in x.facts) for x in unchanged if not any(tr and ".expr ==" in t.replace("self.units.expr ==", ".expr ==") and "units_map" in t for t, tr in x.facts)]
    res.check(not loose, "in_base:unchanged-only-if-system-unit", ibf.where(), "in_base returns the array as it is on a path that does not establish that its unit expression is the system's unit for that dimension: a unit that is merely equal in value (Sv vs m**2/s**2, Ba vs dyn/cm**2) stays outside the unit system and disagrees with get_base_equivalent / convert_to_base", "self.units.expr == <system>.units_map[self.units.dimensions]", loose[:2], rid=r3)
    sanit = [norm(n.value) for n in walk_no_nested(fn.node) if isinstance(n, ast.Assign) and norm(n.targets[0]) == "unit_system"]
    res.check(sanit == ["_sanitize_unit_system(unit_system, self)"], "get_base_equivalent:system", fn.where(), "the unit system argument (name, object, None, 'code') is resolved by _sanitize_unit_system", found=sanit, rid=r3)
    ib = repo.mod(ARR).func("unyt_array.in_base")
    res.fn(ib)
    tr = [t for t in ib.body if isinstance(t, ast.Try)]
    ok = len(tr) == 1 and any(isinstance(c, ast.Call) and norm(c.func) == "_check_em_conversion" for c in ast.walk(ast.Module(body=tr[0].body, type_ignores=[]))) and any(norm(h.type) == "MKSCGSConversionError" and is_raise_of(h.body[-1], "UnitsNotReducible") for h in tr[0].handlers)
    res.check(ok, "in_base", ib.where(), "in_base turns MKSCGSConversionError into UnitsNotReducible", rid=r3)
    us = repo.mod(US)
    for m in ("__getitem__", "__setitem__"):
        f = us.func(f"UnitSystem.{m}")
        res.fn(f)
        # on paths (whatever the layout of the guard): a dimension with current in a system without a current unit
        # always ends in MissingMKSCurrent, and that refusal happens only then
        ok = True
        n_ref = 0
        for p_ in enum_paths(f.body):
            fm_ = dict((t, tr) for t, tr, _ in path_facts(p_))
            both = fm_.get("cmks in key.free_symbols") is True and fm_.get("self.units_map[cmks] is None") is True
            refused = p_[-1][0] == "raise" and is_raise_of(p_[-1][1], "MissingMKSCurrent")
            if both:
                n_ref += 1
                ok &= refused
            elif refused:
                ok = False
        ok &= n_ref >= 1
        res.check(ok, f"UnitSystem.{m}", f.where(), "a dimension containing current in a system without a current unit raises MissingMKSCurrent", rid=r3)


def synthesis(repo, res):
    r4 = res.rule("C10-R4", "synthesised unit = product of the system's base units with the dimension's own exponents; memo and result from one string", floor=4)
    us = repo.mod(US)
    fn = us.func("_get_system_unit_string")
    res.fn(fn)
    dims, base = fn.params
    loop = [n for n in fn.body if isinstance(n, ast.For)]
    ok = len(loop) == 1 and norm(loop[0].iter) == "my_dims.as_ordered_factors()"
    if ok:
        txt = norm(loop[0])
        fv = norm(loop[0].target)
        ok = f"dim = list({fv}.free_symbols)[0]" in txt and f"unit_string = str({base}[dim])" in txt and f"{fv}.as_base_exp()[1]" in txt and "units.append(f'({unit_string}){power_string}')" in txt
    res.check(ok, "factors", fn.where(), "every factor of the expanded dimension contributes (base unit of its dimension) ** (its own exponent)", rid=r4)
    md = [norm(n.value) for n in fn.body if isinstance(n, ast.Assign) and norm(n.targets[0]) == "my_dims"]
    rets = [norm(n.value) for n in walk_no_nested(fn.node) if isinstance(n, ast.Return)]
    res.check(md == [f"{dims}.expand()"] and sorted(rets) == ["' * '.join(units)", "''"], "shape", fn.where(), "the dimension is expanded first; the parts are joined as a product; dimensionless gives the empty string", found=(md, rets), rid=r4)
    gi = us.func("UnitSystem.__getitem__")
    res.fn(gi)
    ok = True
    n = 0
    for p in enum_paths(gi.body):
        if p[-1][0] != "return":
            continue
        fm = dict((t, tr) for t, tr, _ in path_facts(p))
        stm = [norm(ev[1]) for ev in p if ev[0] == "stmt"]
        val = norm(p[-1][1].value)
        if "units = _get_system_unit_string(key, self.units_map)" in stm:
            n += 1
            ok &= "self.units_map[key] = parse_unyt_expr(units)" in stm and val == "Unit(units, registry=self.registry)"
        else:
            ok &= val == "Unit(self.units_map[key], registry=self.registry)"
    res.check(ok and n >= 1, "getitem:memo", gi.where(), "the memoised expression and the returned unit are parsed from the same synthesised string; declared units are returned as declared", rid=r4)
    kd = [norm(n) for n in walk_no_nested(gi.node) if isinstance(n, ast.Assign) and norm(n.targets[0]) == "key"]
    res.check(kd == ["key = getattr(dimensions, key)"], "getitem:key", gi.where(), "string keys are resolved to unyt.dimensions attributes", found=kd, rid=r4)
    si = us.func("UnitSystem.__setitem__")
    st = [norm(n) for n in walk_no_nested(si.node) if isinstance(n, ast.Assign) and norm(n.targets[0]) == "self.units_map[key]"]
    res.check(st == ["self.units_map[key] = parse_unyt_expr(str(value))"], "setitem", si.where(), "a declared unit is stored as the parsed expression of the given value", found=st, rid=r4)


MUTANTS = [
    Mutant("unit-system-equal-by-name", US, None, "    def __str__(self):\n        return self.name\n", "    def __str__(self):\n        return self.name\n\n    def __eq__(self, other):\n        return isinstance(other, UnitSystem) and self.name == other.name\n\n    def __hash__(self):\n        return hash(self.name)\n", ("C10-R7",)),
    Mutant("cgs-pressure-wrong", US, None, 'cgs_unit_system["pressure"] = "dyne/cm**2"', 'cgs_unit_system["pressure"] = "dyne/cm"', ("C10-R1",)),
    Mutant("imperial-energy-wrong", US, None, 'imperial_unit_system["energy"] = "ft*lbf"', 'imperial_unit_system["energy"] = "ft*lb"', ("C10-R1",)),
    Mutant("galactic-time-wrong", US, None, 'UnitSystem("galactic", "kpc", "Msun", "Myr")', 'UnitSystem("galactic", "kpc", "Msun", "Mpc")', ("C10-R1",)),
    Mutant("planck-temperature-slot", US, None, '"planck", "l_pl", "m_pl", "t_pl", temperature_unit="T_pl"', '"planck", "l_pl", "m_pl", "t_pl", temperature_unit="E_pl"', ("C10-R1",)),
    Mutant("mks-override-key", US, None, 'mks_unit_system["magnetic_field"] = "T"', 'mks_unit_system["magnetic_flux"] = "T"', ("C10-R1",)),
    Mutant("slot-map-swapped", US, "UnitSystem.__init__", "                (dimensions.length, length_unit),\n                (dimensions.mass, mass_unit),", "                (dimensions.length, mass_unit),\n                (dimensions.mass, length_unit),", ("C10-R1",)),
    Mutant("register-before-validate", US, "UnitSystem.__init__", "        self.registry = registry\n        self.units_map = OrderedDict(", "        self.registry = registry\n        unit_system_registry[name] = self\n        self.units_map = OrderedDict(", ("C10-R2",)),
    Mutant("no-registry-arm-skipped", US, "UnitSystem.__init__", "                if inferred_dimension is not dimension:\n                    raise IllDefinedUnitSystem(self.units_map)", "                if inferred_dimension is not dimension:\n                    pass", ("C10-R2",)),
    Mutant("missing-current-escapes", UO, "Unit.get_base_equivalent", "            except MissingMKSCurrent:\n                raise UnitsNotReducible(self.units, unit_system)", "            except MissingMKSCurrent:\n                raise", ("C10-R3",)),
    Mutant("synthesis-drops-exponent", US, "_get_system_unit_string", 'power_string = f"**({factor.as_base_exp()[1]})"', 'power_string = ""', ("C10-R4",)),
    Mutant("memo-differs", US, "UnitSystem.__getitem__", "            self.units_map[key] = parse_unyt_expr(units)", "            self.units_map[key] = parse_unyt_expr(str(key))", ("C10-R4",)),
    Mutant("default-system-from-missing-attribute", REG, "_sanitize_unit_system", "        try:\n            unit_system = obj.units.registry.unit_system\n        except AttributeError:\n            unit_system = mks_unit_system", "        registry = getattr(obj, \"registry\", None)\n        unit_system = getattr(registry, \"unit_system\", mks_unit_system)", ("C10-R3",)),
    Mutant("default-system-getattr-chain", REG, "_sanitize_unit_system", "        try:\n            unit_system = obj.units.registry.unit_system\n        except AttributeError:\n            unit_system = mks_unit_system", "        units = getattr(obj, \"units\", None)\n        registry = getattr(units, \"registry\", None)\n        unit_system = getattr(registry, \"unit_system\", mks_unit_system)", (), benign=True),
    Mutant("em-one-direction-changed", UO, None, '        "statV",\n        1.0e-8 * speed_of_light_cm_per_s,', '        "statV",\n        1.0e8 / speed_of_light_cm_per_s,', ("C10-R5",)),
    Mutant("in-base-unchanged-on-equal-value", ARR, "unyt_array.in_base", "            to_units = self.units.get_base_equivalent(unit_system)\n", "            to_units = self.units.get_base_equivalent(unit_system)\n            if to_units == self.units:\n                return self.copy()\n", ("C10-R3",)),
    Mutant("deepcopy-drops-unit-system", REG, "UnitRegistry.__deepcopy__", "add_default_symbols=False, lut=lut, unit_system=self.unit_system", "add_default_symbols=False, lut=lut", ("C10-R6",)),
]
