"""C11 - persisted quantities and units come back meaning and behaving the same."""

from __future__ import annotations

import ast

from engine.core import AnalysisError, Repo, kwarg_of, norm, walk_no_nested
from engine.mutate import Mutant
from engine.report import Result
from rules import c20

TECHNIQUE = "typestate rule for dimension objects (Singleton vs Equal-not-identical): every identity comparison against a dimension singleton is enumerated and every restoration route must return singletons; writer/reader layout agreement for pickle; sibling rule for registry reconstruction from a saved table"
LEVEL_TEXT = """Static necessary conditions for 'restored objects behave the same': (R1) the library decides by identity (`is`)
whether a unit is an angle, a temperature, logarithmic or dimensionless; all such comparison sites are enumerated (17 on
the current tree) and, since pickle and deepcopy produce sympy symbols that are equal to but not identical with unyt's
dimension symbols (the one axiom about sympy used here), every restoration route - unpickling, Unit.copy / deepcopy,
UnitRegistry deep copy, JSON - is required to hand back the singletons: the table fixer swaps base-dimension symbols for
both entry formats, Unit.copy and the registry deep copy do not deep-copy sympy objects, JSON text is re-read against the
dimensions module; (R2) __reduce__ prepends exactly one (unit text, table) pair to ndarray's state and __setstate__
consumes exactly that; (R3) every registry rebuilt from a complete saved table is built from that table only
(add_default_symbols=False) and deep copies carry the unit system; (R4) the text that is persisted is the printer's output,
which C20-R3 shows to be readable.
(R3, extended) to_json writes one entry for every row of the table; every restoration route is asked for the registry's unit system (pickle, JSON and HDF5 do not carry it: known findings); (R5) savetxt / loadtxt pair every column with its own unit: one unit text per array in order, the header joined from them, and with usecols the unit list is re-indexed by walking usecols."""
LEVEL_NOTE = """Undecided: behavioural equivalence of arbitrary follow-up programs on restored objects beyond these
necessary conditions; identity of *compound* dimension expressions (sympy's expression cache decides which of two equal
symbols a rebuilt product contains) - only UnitRegistry.list_same_dimensions and UnitSystem.__init__ depend on it and
they are listed in the evidence notes."""
EXPLANATION = LEVEL_TEXT
ASSUMPTIONS = ["axiom (sympy 1.14): pickle and copy.deepcopy of a Symbol give an equal but not identical Symbol; S.One is preserved"]

REG = "unyt/unit_registry.py"
UO = "unyt/unit_object.py"
ARR = "unyt/array.py"
SINGLETON_NAMES = {"temperature", "angle", "logarithmic", "current_mks", "mass", "length", "time", "luminous_intensity"}


def identity_sites(repo):
    """(module, function, text) of every `is` / `is not` comparison whose one side
    resolves to a base-dimension symbol of unyt.dimensions"""
    out = []
    for mod in repo.mods():
        dim_names = set()
        for local, q in mod.imports.items():
            if q.startswith("unyt.dimensions.") and q.split(".")[-1] in SINGLETON_NAMES:
                dim_names.add(local)
        dim_mods = {local for local, q in mod.imports.items() if q == "unyt.dimensions"}
        cmks_alias = {k for k, v in mod.assigns.items() if any(norm(x) in {f"{m}.current_mks" for m in dim_mods} for x in v)}

        def is_singleton(e):
            if isinstance(e, ast.Name) and (e.id in dim_names or e.id in cmks_alias):
                return True
            if isinstance(e, ast.Attribute) and isinstance(e.value, ast.Name) and e.value.id in dim_mods and e.attr in SINGLETON_NAMES:
                return True
            return False

        for q, fns in mod.funcs.items():
            for f in fns:
                for n in walk_no_nested(f.node):
                    if isinstance(n, ast.Compare) and len(n.ops) == 1 and isinstance(n.ops[0], (ast.Is, ast.IsNot)):
                        l, r = n.left, n.comparators[0]
                        if is_singleton(l) or is_singleton(r):
                            out.append((mod.rel, q, norm(n), f.where(n)))
                        elif "dimension" in norm(l) and "dimension" in norm(r):
                            out.append((mod.rel, q, norm(n), f.where(n)))
    return out


def check(repo: Repo) -> Result:
    res = Result("C11")
    r1a = res.rule("C11-R1a", "identity comparisons against dimension singletons (enumerated; each relies on restored dimensions being the singletons)", floor=15)
    sites = identity_sites(repo)
    r1b = res.rule("C11-R1b", "every restoration route returns unyt's dimension singletons", floor=5)
    routes_ok, problems = restoration_routes(repo, res, r1b)
    for rel, q, text, where in sites:
        # a site with an == fallback in the same condition is safe by itself
        key = f"{rel.split('/')[-1]}:{q}:{text}"
        if routes_ok:
            res.ok(key, r1a)
        else:
            res.bad(key, where, f"`{text}` decides by identity, but a restoration route does not return the dimension singletons ({problems[0]}): on a restored object this test silently takes the other branch", rid=r1a)

    layout(repo, res)
    rebuilt_from_table(repo, res)

    r4 = res.rule("C11-R4", "persisted unit text is the printer's output and is readable (C20-R3/R4)", floor=10)
    tmp = Result("C20")
    c20.printer_parser(repo, tmp)
    c20.persistence(repo, tmp)
    bad = {f.key.split("/", 1)[1]: f for f in tmp.findings}
    for rid in ("C20-R3", "C20-R4"):
        for k in tmp.rules[rid]["keys"]:
            if k.endswith(":expression"):
                continue  # identity of the expression / hash is C20's clause; C11 asks for equal units
            if k in bad:
                f = bad[k]
                res.bad(k, f.where, f.msg, f.expected, f.found, rid=r4)
            else:
                res.ok(k, r4)
    # Unit.copy: the copy's expression is the original's expression object or its printed text (read back by Unit())
    fn = repo.mod(UO).func("Unit.copy")
    ctor = [c for n in walk_no_nested(fn.node) if isinstance(n, ast.Return) and isinstance(n.value, ast.Call) and norm(n.value.func) == "Unit" for c in [n.value]]
    e = []
    for c in ctor:
        a = c.args[0] if c.args else None
        if isinstance(a, ast.Name):
            ds = [norm(n.value) for n in walk_no_nested(fn.node) if isinstance(n, ast.Assign) and norm(n.targets[0]) == a.id]
            e.extend(ds)
        elif a is not None:
            e.append(norm(a))
    unit_copy_values(repo, res, r4)
    res.check(bool(e) and all(x in ("self.expr", "str(self.expr)") for x in e), "Unit.copy:expr", fn.where(), "Unit.copy builds the copy from the original's expression (the object, or its printed text)", "self.expr | str(self.expr)", e, rid=r4)
    text_columns(repo, res)
    from rules import c13
    from rules.common import share

    r6 = res.rule("C11-R6", "a deep copy owns its registry, and a restored registry owns its memo: the same follow-up program (edit a registry, then resolve a unit name) gives the same result on the copy / the restored object as on the original (shared with C13-R1)", floor=2)
    share(res, r6, "C13", lambda t: c13.ownership(repo, t), ["C13-R1"], want=lambda k: k in ("unyt_array.__deepcopy__:deep-unit", "Unit.copy:deep-owns-registry", "Unit.__deepcopy__", "init", "unit_registry.py:UnitRegistry.__deepcopy__", "deepcopy-table") or k.endswith(":no-class-level-state"), min_keys=7)
    return res


def restoration_routes(repo, res, rid):
    ok_all = True
    problems = []

    def rec(ok, key, where, msg, **kw):
        nonlocal ok_all
        res.check(ok, key, where, msg, rid=rid, **kw)
        if not ok:
            ok_all = False
            problems.append(key)

    reg = repo.mod(REG)
    # (i) table fixer used by __setstate__
    fx = reg.func("_correct_old_unit_registry")
    res.fn(fx)
    loop = [n for n in fx.body if isinstance(n, ast.For)]
    if not loop:
        raise AnalysisError(f"{fx.where()}: entry loop not found")
    lp = loop[0]
    old = [n for n in lp.body if isinstance(n, ast.If) and norm(n.test) == "len(unsan_v) == 4"]
    ok_old = len(old) == 1 and "if base_dim == dim and base_dim is not dim" in norm(old[0]) and "for base_dim in unyt_dims.base_dimensions" in norm(old[0])
    rec(ok_old, "fixer:old-format", fx.where(), "entries in the old 4-tuple format have their dimension symbols swapped for the singletons")
    ok_new = False
    if len(old) == 1 and len(old[0].orelse) == 1 and isinstance(old[0].orelse[0], ast.If):
        e = old[0].orelse[0]
        body = [norm(s) for s in e.body]
        ok_new = "is_Symbol" in norm(e.test) and body == ["unsan_v[1] = _base_dimension_singletons.get(unsan_v[1].name, unsan_v[1])"]
    elif len(old) == 1:
        # alternative: the swap loop runs for every entry
        ok_new = any(isinstance(n, ast.For) and "as_ordered_factors" in norm(n.iter) for n in lp.body)
    rec(ok_new, "fixer:current-format", fx.where(), "entries in the current 5-tuple format keep dimension symbols that went through pickle: identity tests (is angle / is temperature / is logarithmic) fail on unpickled arrays", expected="base-dimension symbols swapped for unyt's singletons for every entry")
    sg = reg.assigns.get("_base_dimension_singletons")
    if ok_new and sg:
        rec(norm(sg[0]) == "{dim.name: dim for dim in unyt_dims.base_dimensions if dim.is_Symbol}", "fixer:singleton-map", REG, "the singleton map is built from unyt.dimensions.base_dimensions by name")
    wr = [n for n in lp.body if isinstance(n, ast.Assign) and norm(n.targets[0]) == "lut[k]"]
    rec(len(wr) == 1 and norm(wr[0].value) == "tuple(unsan_v)", "fixer:stores-fixed-entry", fx.where(), "the fixed entry is what is stored")
    ss = repo.mod(ARR).func("unyt_array.__setstate__")
    res.fn(ss)
    # the table that reaches the UnitRegistry constructor is the fixer's result: handed over directly, or through a local
    ctors_ = [c for c in walk_no_nested(ss.node) if isinstance(c, ast.Call) and norm(c.func) == "UnitRegistry"]
    uses_fixer = False
    for c in ctors_:
        la = kwarg_of(c, "lut") or (c.args[1] if len(c.args) > 1 else None)
        if la is None:
            continue
        if isinstance(la, ast.Call) and norm(la.func) == "_correct_old_unit_registry":
            uses_fixer = True
        elif isinstance(la, ast.Name):
            # on EVERY path that reaches the constructor the last binding of the table is the fixer's result (a fixer
            # call under a condition on the table's format leaves current-format tables with pickled dimension symbols)
            from engine.flow import enum_paths as _ep

            n_reach, all_fixed = 0, True
            for pth in _ep(ss.body, limit=20000):
                last, reached = None, False
                for ev in pth:
                    node_ = ev[1] if len(ev) > 1 and isinstance(ev[1], ast.AST) else None
                    if node_ is None:
                        continue
                    if any(x is c for x in ast.walk(node_)):
                        reached = True
                        break
                    if ev[0] == "stmt" and isinstance(node_, ast.Assign) and any(norm(t) == la.id for t in node_.targets):
                        last = node_.value
                if reached:
                    n_reach += 1
                    all_fixed &= last is not None and isinstance(last, ast.Call) and norm(last.func) == "_correct_old_unit_registry"
            uses_fixer = n_reach > 0 and all_fixed
    rec(len(ctors_) == 1 and uses_fixer, "setstate:uses-fixer", ss.where(), "the unpickled table passes through the fixer before the registry is built")
    # (ii) Unit.copy does not deep-copy sympy objects
    cp = repo.mod(UO).func("Unit.copy")
    res.fn(cp)
    ddef = [norm(n.value) for n in walk_no_nested(cp.node) if isinstance(n, ast.Assign) and norm(n.targets[0]) == "dimensions"]
    call = [c for c in walk_no_nested(cp.node) if isinstance(c, ast.Call) and norm(c.func) == "Unit"]
    dim_arg = None
    if call:
        a = call[0].args
        dim_arg = norm(a[3]) if len(a) > 3 else (norm(kwarg_of(call[0], "dimensions")) if kwarg_of(call[0], "dimensions") is not None else None)
    okc = dim_arg in ("dimensions", "self.dimensions") and (ddef in ([], ["self.dimensions"]))
    rec(okc, "Unit.copy:dimensions", cp.where(), "Unit.copy / deepcopy hands the copy a deep-copied dimension expression, which is not identical with unyt's dimension symbols", expected="dimensions = self.dimensions", found=ddef)
    # (iii) registry deep copy does not deep-copy rows
    dc = reg.func("UnitRegistry.__deepcopy__")
    res.fn(dc)
    deep = [norm(c) for c in walk_no_nested(dc.node) if isinstance(c, ast.Call) and norm(c.func) == "copy.deepcopy"]
    rec(not deep, "registry.__deepcopy__:rows", dc.where(), "deep-copying the table rows replaces the dimension singletons by equal but not identical symbols", expected="rows shared (immutable tuples)", found=deep)
    # (iv) JSON
    cs = reg.func("cached_sympify")
    rets = [norm(n.value) for n in walk_no_nested(cs.node) if isinstance(n, ast.Return)]
    rec(rets == ["sympify(u, locals=vars(unyt_dims))"], "json:sympify-locals", cs.where(), "dimension text from JSON is re-read against the names of unyt.dimensions (singletons)", found=rets)
    fj = reg.func("UnitRegistry.from_json")
    rec("lut = _correct_old_unit_registry(data, sympify=True)" in [norm(s) for s in fj.body], "json:route", fj.where(), "from_json sends every entry through the fixer with sympify=True")
    return ok_all, problems


def unit_copy_values(repo, res, rid):
    """Unit.copy / deepcopy hands the copy the original's scale, offset and dimension (an argument left out takes the
    constructor's default: offset 0, or values re-derived from the registry's current table)"""
    from engine.sem import summarise
    from rules.common import bind_call

    uo = repo.mod(UO)
    fn = uo.func("Unit.copy")
    new = uo.func("Unit.__new__")
    n = 0
    bad = []
    for x in summarise(fn):
        if x.kind != "return":
            continue
        v = ast.parse(x.value, mode="eval").body
        if not (isinstance(v, ast.Call) and norm(v.func) == "Unit"):
            raise AnalysisError(f"{fn.where()}: Unit.copy returns something that is not a Unit(...) call")
        n += 1
        b = bind_call(v, new, skip_self=True)
        for arg in ("base_value", "base_offset", "dimensions"):
            got = norm(b[arg]) if b.get(arg) is not None else None
            if got not in (f"self.{arg}", f"copy.deepcopy(self.{arg})", f"deepcopy(self.{arg})", f"float(self.{arg})"):
                bad.append(f"{arg}={got}")
    if n == 0:
        raise AnalysisError(f"{fn.where()}: no returning path in Unit.copy")
    res.check(not bad, "Unit.copy:values", fn.where(), "the copy of a unit must carry the original's scale, offset and dimension: an argument that is left out becomes the constructor's default (offset 0 for degC / lat) or is re-derived from the registry's current table", "base_value, base_offset, dimensions of self", sorted(set(bad)), rid=rid)


def text_columns(repo, res):
    """savetxt / loadtxt: every column comes back with the unit it was written with.  savetxt writes the header units
    and the data columns from one sequence in one order; loadtxt pairs the i-th array NumPy returns with the header
    unit of the i-th *requested* column: with usecols the arrays come in usecols order, so the unit list must be
    re-indexed by iterating over usecols (units[c] for c in usecols) - a selection that walks the header instead
    (filtering by `in usecols`) keeps file order and mislabels the columns of usecols=(2, 0)."""
    r5 = res.rule("C11-R5", "savetxt / loadtxt pair every column with its own unit, in the order the columns are written / requested", floor=4)
    arr = repo.mod(ARR)
    fn = arr.func("loadtxt")
    res.fn(fn)
    if "usecols" not in fn.params:
        raise AnalysisError(f"{fn.where()}: loadtxt has no usecols parameter")
    # the constructor call that wraps a column, and the zip that feeds it
    pair = None
    for n in ast.walk(fn.node):
        if isinstance(n, (ast.GeneratorExp, ast.ListComp)) and isinstance(n.elt, ast.Call) and norm(n.elt.func) == "unyt_array" and len(n.generators) == 1:
            g = n.generators[0]
            if isinstance(g.iter, ast.Call) and norm(g.iter.func) == "zip" and len(g.iter.args) == 2 and isinstance(g.target, ast.Tuple) and len(g.target.elts) == 2:
                tv = [norm(e) for e in g.target.elts]
                av = [norm(a) for a in n.elt.args[:2]]
                if av == tv:
                    pair = (g.iter.args[0], g.iter.args[1], n)
    if pair is None:
        raise AnalysisError(f"{fn.where()}: `unyt_array(col, unit) for col, unit in zip(columns, units)` not found in loadtxt")
    cols, units, node = pair
    if not isinstance(units, ast.Name) or not isinstance(cols, ast.Name):
        raise AnalysisError(f"{fn.where(node)}: zip operands are not plain names")
    U = units.id
    # the NumPy reader gets usecols, and its result is what is zipped
    npcall = [c for c in ast.walk(fn.node) if isinstance(c, ast.Call) and norm(c.func) == "np.loadtxt"]
    ok = len(npcall) == 1 and kwarg_of(npcall[0], "usecols") is not None and norm(kwarg_of(npcall[0], "usecols")) == "usecols"
    res.check(ok, "loadtxt:usecols-forwarded", fn.where(), "np.loadtxt receives the caller's usecols", rid=r5)
    # ... and every other format parameter loadtxt shares with np.loadtxt: unyt's own header scan and NumPy's reader must
    # agree on what a comment line and a column separator are
    for prm in ("comments", "delimiter", "dtype"):
        if prm in fn.params and len(npcall) == 1:
            v_ = kwarg_of(npcall[0], prm)
            res.check(v_ is not None and norm(v_) == prm, f"loadtxt:{prm}-forwarded", fn.where(npcall[0]), f"loadtxt does not hand its `{prm}` argument to np.loadtxt: the header is scanned with the caller's value while NumPy reads the numbers with its own default (a file written with comments='%' cannot be read back)", f"{prm}={prm}", norm(v_) if v_ is not None else None, rid=r5)
    up_ = kwarg_of(npcall[0], "unpack") if len(npcall) == 1 else None
    res.check(isinstance(up_, ast.Constant) and up_.value is True, "loadtxt:unpack", fn.where(), "np.loadtxt is asked for one array per column (unpack=True): the columns are paired with the header units", rid=r5)
    # ... and for a two-dimensional result whatever the file's shape: with ndmin < 2 a file of ONE ROW and several columns
    # comes back as one 1-d array (one entry per column), indistinguishable from a one-column file - the columns would be
    # returned as a single array carrying the first column's unit
    nd_ = kwarg_of(npcall[0], "ndmin") if npcall else None
    rewrap = [n for n in walk_no_nested(fn.node) if isinstance(n, ast.If) and "shape" in norm(n.test) and any(isinstance(x, ast.Assign) and isinstance(x.value, ast.List) for x in n.body)]
    res.check(isinstance(nd_, ast.Constant) and nd_.value == 2 and not rewrap, "loadtxt:one-array-per-column", fn.where(npcall[0]) if npcall else fn.where(), "loadtxt cannot tell a one-row file with several columns from a one-column file (np.loadtxt returns a 1-d array for both unless ndmin=2): savetxt of three one-element arrays in m, s, kg is read back as one array [1, 2, 3] m", "np.loadtxt(..., unpack=True, ndmin=2)", f"ndmin={norm(nd_) if nd_ is not None else None}, re-wrapping test: {[norm(n.test) for n in rewrap]}", rid=r5)
    # re-bindings of the unit list that depend on usecols
    from engine.sem import canon_node

    sel = []
    for st in walk_no_nested(fn.node):
        if isinstance(st, ast.Assign) and len(st.targets) == 1 and norm(st.targets[0]) == U and "usecols" in {x.id for x in ast.walk(st.value) if isinstance(x, ast.Name)} | _names_through_locals(fn, st.value):
            sel.append(st)
    if not sel:
        res.bad("loadtxt:unit-selection", fn.where(), "with usecols the arrays are a subset of the file's columns but the unit list is never re-indexed: columns get the units of the first len(usecols) header entries", f"{U} = [{U}[c] for c in usecols]", "no re-binding of the unit list that depends on usecols", rid=r5)
    for st in sel:
        v = st.value
        if isinstance(v, ast.Call) and norm(v.func) in ("list", "tuple") and len(v.args) == 1:
            v = v.args[0]
        if not (isinstance(v, (ast.ListComp, ast.GeneratorExp)) and len(v.generators) == 1):
            raise AnalysisError(f"{fn.where(st)}: the selection of column units is not a single comprehension: {norm(st)[:80]}")
        g = v.generators[0]
        iter_names = {x.id for x in ast.walk(g.iter) if isinstance(x, ast.Name)} | _names_through_locals(fn, g.iter)
        walks_request = "usecols" in iter_names and U not in iter_names
        elt_ok = isinstance(v.elt, ast.Subscript) and norm(v.elt.value) == U and isinstance(g.target, ast.Name) and norm(v.elt.slice) == g.target.id and not g.ifs
        if walks_request and elt_ok:
            res.ok("loadtxt:unit-selection", r5)
        elif U in iter_names:
            res.bad("loadtxt:unit-selection", fn.where(st), "the units of the requested columns are selected by walking the header (file order) and filtering by membership in usecols: NumPy returns the arrays in usecols order, so usecols=(2, 0) gets its two units swapped and a repeated column loses one", f"[{U}[c] for c in usecols]", norm(st)[:100], rid=r5)
        else:
            raise AnalysisError(f"{fn.where(st)}: unit selection not understood: {norm(st)[:80]}")
    # savetxt: header units and data columns from the same sequence
    sv = arr.func("savetxt")
    # writer and reader share their format parameters: a file written with the defaults must be readable with the
    # defaults (delimiter, comment marker)

    def _defaults(f_):
        a_ = f_.node.args
        names_ = [x.arg for x in a_.posonlyargs + a_.args]
        d_ = dict(zip(names_[::-1], a_.defaults[::-1]))
        return {k: v.value for k, v in d_.items() if isinstance(v, ast.Constant)}

    dw, dr = _defaults(sv), _defaults(fn)
    for prm in ("delimiter", "comments"):
        if prm in sv.params and prm in fn.params:
            res.check(prm in dw and prm in dr and dw[prm] == dr[prm], f"defaults-agree:{prm}", sv.where(), f"savetxt and loadtxt have different defaults for `{prm}` ({dw.get(prm)!r} vs {dr.get(prm)!r}): a file written with the defaults is not read back with the defaults (unit line not recognised / columns not split)", repr(dr.get(prm)), repr(dw.get(prm)), rid=r5)
    res.fn(sv)
    a = sv.params[1]
    loops = [n for n in sv.body if isinstance(n, ast.For) and norm(n.iter) == a]
    comps = [n for n in sv.body if isinstance(n, ast.Assign) and len(n.targets) == 1 and isinstance(n.targets[0], ast.Name) and isinstance(n.value, ast.ListComp) and len(n.value.generators) == 1 and norm(n.value.generators[0].iter) == a]
    units_list = None
    if len(loops) == 1 and not comps:
        apps = [c for c in ast.walk(loops[0]) if isinstance(c, ast.Call) and isinstance(c.func, ast.Attribute) and c.func.attr == "append"]
        units_list = {norm(c.func.value) for c in apps}
        ok = len(units_list) == 1 and all(len(c.args) == 1 for c in apps)
        # exactly one append per iteration: every arm of the loop body appends once
        from engine.flow import enum_paths

        for p in enum_paths(loops[0].body):
            n_app = sum(1 for ev in p if ev[0] == "stmt" and isinstance(ev[1], ast.Expr) and isinstance(ev[1].value, ast.Call) and isinstance(ev[1].value.func, ast.Attribute) and ev[1].value.func.attr == "append")
            ok &= n_app == 1
    elif len(comps) == 1 and not loops:
        # a comprehension over the arrays yields one element per array by construction (no filter)
        ok = not comps[0].value.generators[0].ifs
        units_list = {comps[0].targets[0].id}
    else:
        raise AnalysisError(f"{sv.where()}: how savetxt collects the unit texts is not understood (neither one loop nor one comprehension over {a})")
    res.check(ok, "savetxt:one-unit-per-array", sv.where(), "savetxt collects exactly one unit text per array, in the order of the arrays", rid=r5)
    npsv = [c for c in ast.walk(sv.node) if isinstance(c, ast.Call) and norm(c.func) == "np.savetxt"]
    ok = len(npsv) == 1 and len(npsv[0].args) >= 2 and norm(npsv[0].args[1]) in (f"np.transpose({a})", f"np.array({a}).T", f"np.asarray({a}).T")
    res.check(ok, "savetxt:columns-in-order", sv.where(), "the data columns are the arrays in the given order", found=[norm(c.args[1]) for c in npsv if len(c.args) > 1], rid=r5)
    if units_list and len(units_list) == 1:
        ul = next(iter(units_list))
        joined = [c for c in ast.walk(sv.node) if isinstance(c, ast.Call) and isinstance(c.func, ast.Attribute) and c.func.attr == "join" and len(c.args) == 1 and norm(c.args[0]) == ul]
        res.check(len(joined) == 1, "savetxt:header-units", sv.where(), "the header's unit line is the collected unit texts, in order", rid=r5)


def _names_through_locals(fn, node, depth=3):
    """parameters / names reachable from the names in `node` through single local assignments"""
    out = set()
    frontier = {x.id for x in ast.walk(node) if isinstance(x, ast.Name)}
    for _ in range(depth):
        nxt = set()
        for st in walk_no_nested(fn.node):
            if isinstance(st, ast.Assign) and len(st.targets) == 1 and isinstance(st.targets[0], ast.Name) and st.targets[0].id in frontier:
                nxt |= {x.id for x in ast.walk(st.value) if isinstance(x, ast.Name)}
        nxt -= out | frontier
        out |= frontier
        if not nxt:
            break
        frontier = nxt
    return out | frontier


def layout(repo, res):
    r2 = res.rule("C11-R2", "pickle layout: __reduce__ prepends one (unit text, table) pair; __setstate__ consumes exactly that", floor=4)
    arr = repo.mod(ARR)
    rd = arr.func("unyt_array.__reduce__")
    res.fn(rd)
    from engine.sem import summarise

    sums = summarise(rd)
    R = "super().__reduce__()"
    want = f"{R}[:2] + (((str(self.units), self.units.registry.lut),) + {R}[2][:],) + {R}[3:]"
    ok = len(sums) == 1 and sums[0].kind == "return" and sums[0].value in (want, want.replace(f"{R}[2][:]", f"{R}[2]"))
    res.check(ok, "reduce:state", rd.where(), "the pickled state is ndarray's state with one (unit text, registry table) pair prepended; the rest of ndarray's reduce tuple is reused unchanged", want, [x.value for x in sums], rid=r2)
    res.check(ok and sums[0].effects.count(R) == 1, "reduce:frame", rd.where(), "ndarray's __reduce__ is called once and only its state element is replaced", rid=r2)
    ss = arr.func("unyt_array.__setstate__")
    res.fn(ss)
    st = ss.params[1]
    sums = summarise(ss)
    eff = sums[0].effects if len(sums) == 1 else []
    res.check(f"super().__setstate__({st}[1:])" in eff, "setstate:ndarray-part", ss.where(), "ndarray receives the state without the prepended pair", found=eff, rid=r2)
    unit_store = [e for e in eff if e.startswith("self.units = ")]
    ok = len(unit_store) == 1 and unit_store[0].startswith(f"self.units = Unit({st}[0][0], registry=") and f"{st}[0][1]" in unit_store[0] and not any(f"{st}[0][{k}]" in " ".join(eff) for k in (2, 3))
    res.check(ok, "setstate:pair", ss.where(), "exactly two fields are taken from the prepended pair: the unit text (element 0) and the table (element 1)", found=unit_store, rid=r2)
    res.check(ok and "UnitRegistry(" in unit_store[0] and f"lut=_correct_old_unit_registry({st}[0][1])" in unit_store[0], "setstate:unit", ss.where(), "the unit is rebuilt from its text in a registry built from the saved table (after the legacy-format fixer)", found=unit_store, rid=r2)


def rebuilt_from_table(repo, res):
    r3 = res.rule("C11-R3", "a registry rebuilt from a complete saved table is built from that table only; deep copies keep the unit system", floor=4)
    sites = [(ARR, "unyt_array.__setstate__"), (ARR, "unyt_array.from_hdf5"), (REG, "UnitRegistry.from_json"), (REG, "UnitRegistry.__deepcopy__")]
    for rel, q in sites:
        fn = repo.mod(rel).func(q)
        res.fn(fn)
        calls = [c for c in walk_no_nested(fn.node) if isinstance(c, ast.Call) and norm(c.func) in ("UnitRegistry", "cls", "type(self)") and (kwarg_of(c, "lut") is not None)]
        ok = len(calls) == 1
        if ok:
            a = kwarg_of(calls[0], "add_default_symbols")
            ok = a is not None and isinstance(a, ast.Constant) and a.value is False
        res.check(ok, f"{q}:no-defaults", fn.where(), f"{q} rebuilds a registry from a saved table but lets the defaults overwrite it (add_default_symbols is not False): a modified built-in symbol is silently reset", "add_default_symbols=False", [norm(c) for c in calls], rid=r3)
    # ... and the saved table IS complete: to_json writes one entry for every row of the table (from_json does not add
    # the defaults, so a row that is left out is gone or - seen from a later default table - silently different)
    tj = repo.mod(REG).func("UnitRegistry.to_json")
    res.fn(tj)
    loops = [n for n in tj.body if isinstance(n, ast.For) and norm(n.iter) in ("self.lut.items()", "self.lut", "self.lut.keys()")]
    comps = [n for n in ast.walk(tj.node) if isinstance(n, ast.DictComp) and norm(n.generators[0].iter) in ("self.lut.items()", "self.lut", "self.lut.keys()")]
    if len(loops) == 1 and not comps:
        from engine.flow import enum_paths

        kvar = norm(loops[0].target.elts[0]) if isinstance(loops[0].target, ast.Tuple) else norm(loops[0].target)
        skipped = []
        n_p = 0
        for p_ in enum_paths(loops[0].body):
            n_p += 1
            stored = any(ev[0] == "stmt" and isinstance(ev[1], ast.Assign) and isinstance(ev[1].targets[0], ast.Subscript) and norm(ev[1].targets[0].slice) == kvar for ev in p_)
            if not stored and p_[-1][0] != "raise":
                skipped.append([f"{t}={tr}" for t, tr, _ in __import__("engine.flow", fromlist=["path_facts"]).path_facts(p_)])
        res.check(n_p >= 1 and not skipped, "to_json:complete-table", tj.where(), "to_json leaves rows of the table out: from_json rebuilds the registry from the dump alone, so a re-defined built-in symbol comes back with another definition (or not at all)", "one entry per row of self.lut", skipped[:2], rid=r3)
    elif len(comps) == 1 and not loops:
        res.check(not comps[0].generators[0].ifs, "to_json:complete-table", tj.where(), "to_json filters the rows it writes", rid=r3)
    else:
        raise AnalysisError(f"{tj.where()}: how to_json walks the table is not understood")
    # the registry's unit system decides what in_base() / convert_to_base() without argument do: a restored registry
    # must carry the original's.  (The deep copy passes it on; the pickle, JSON and HDF5 formats do not store it, so
    # their readers rebuild the registry with the default system - see known findings.)
    for rel, q in sites:
        if q == "UnitRegistry.__deepcopy__":
            continue
        fn = repo.mod(rel).func(q)
        calls = [c for c in walk_no_nested(fn.node) if isinstance(c, ast.Call) and norm(c.func) in ("UnitRegistry", "cls", "type(self)") and (kwarg_of(c, "lut") is not None)]
        us_ = kwarg_of(calls[0], "unit_system") if len(calls) == 1 else None
        res.check(us_ is not None, f"{q}:unit-system", fn.where(), f"{q} rebuilds the registry without its unit system: the restored registry falls back to mks, and in_base() / convert_to_base() / get_base_equivalent() without an argument give another result on the restored object than on the original whenever the original registry used cgs, galactic, code units ...", "unit_system=<the saved registry's system>", [norm(c)[:80] for c in calls], rid=r3)
    dc = repo.mod(REG).func("UnitRegistry.__deepcopy__")
    calls = [c for c in walk_no_nested(dc.node) if isinstance(c, ast.Call) and norm(c.func) == "type(self)"]
    us = kwarg_of(calls[0], "unit_system") if calls else None
    res.check(us is not None and norm(us) == "self.unit_system", "__deepcopy__:unit-system", dc.where(), "a deep copy of a registry must keep its unit system", "unit_system=self.unit_system", norm(us) if us is not None else None, rid=r3)
    # a restored / copied registry starts with its own, empty unit-string cache and no process-global memo sits
    # between the persisted (text, table) pair and the unit that is rebuilt from it
    from rules import memo_rules

    routes = {"unyt_array.__setstate__", "unyt_array.__reduce__", "unyt_array.from_hdf5", "unyt_array.__deepcopy__", "UnitRegistry.from_json", "UnitRegistry.__deepcopy__", "UnitRegistry.to_json", "Unit.copy", "Unit.__deepcopy__", "loadtxt", "savetxt"}
    n_m = 0
    for gen in (memo_rules.unit_cache_writers(repo, only_functions=routes), memo_rules.calltime_globals(repo, only_functions=routes)):
        for key, ok, where, msg, exp, found in gen:
            n_m += 1
            res.check(ok, "route:" + key, where, msg, exp, found, rid=r3)
    if not n_m:
        res.ok("routes-keep-no-state", r3)
    # from_hdf5: saved custom symbols override defaults (the file stores only non-default symbols)
    fh = repo.mod(ARR).func("unyt_array.from_hdf5")
    t = [norm(s) for s in fh.body]
    res.check("unit_lut = default_unit_symbol_lut.copy()" in t and "unit_lut.update(unit_lut_load)" in t and t.index("unit_lut = default_unit_symbol_lut.copy()") < t.index("unit_lut.update(unit_lut_load)"), "from_hdf5:merge-order", fh.where(), "HDF5 stores only non-default symbols: they are laid over a copy of the default table", rid=r3)


MUTANTS = [
    Mutant("loadtxt-one-row-file", ARR, "loadtxt", "        ndmin=2,\n    )\n", "        ndmin=0,\n    )\n    if len(arrays.shape) < 2:\n        arrays = [arrays]\n", ("C11-R5",)),
    Mutant("class-level-unit-cache", REG, None, "    _unit_system_id = None\n", "    _unit_system_id = None\n    _unit_object_cache = {}\n", ("C11-R6",)),
    Mutant("array-deepcopy-shares-registry", ARR, "unyt_array.__deepcopy__", "copy.deepcopy(self.units)", "self.units.copy()", ("C11-R6",), count=2),
    Mutant("fixer-skips-current-format", REG, "_correct_old_unit_registry", "            unsan_v[1] = _base_dimension_singletons.get(unsan_v[1].name, unsan_v[1])", "            pass", ("C11-R1a", "C11-R1b")),
    Mutant("copy-deepcopies-dimensions", UO, "Unit.copy", "        dimensions = self.dimensions\n", "        dimensions = copy.deepcopy(self.dimensions)\n", ("C11-R1a", "C11-R1b")),
    Mutant("registry-deepcopies-rows", REG, "UnitRegistry.__deepcopy__", "lut = dict(self.lut)", "lut = copy.deepcopy(self.lut)", ("C11-R1a", "C11-R1b")),
    Mutant("setstate-skips-fixer", ARR, "unyt_array.__setstate__", "        lut = _correct_old_unit_registry(lut)\n", "", ("C11-R1b",)),
    Mutant("reduce-extra-field", ARR, "unyt_array.__reduce__", "(str(self.units), self.units.registry.lut),", "(str(self.units), self.units.registry.lut, self.name),", ("C11-R2",)),
    Mutant("setstate-wrong-slice", ARR, "unyt_array.__setstate__", "super().__setstate__(state[1:])", "super().__setstate__(state[2:])", ("C11-R2",)),
    Mutant("setstate-default-registry", ARR, "unyt_array.__setstate__", "self.units = Unit(unit, registry=registry)", "self.units = Unit(unit)", ("C11-R2",)),
    Mutant("setstate-adds-defaults", ARR, "unyt_array.__setstate__", "registry = UnitRegistry(lut=lut, add_default_symbols=False)", "registry = UnitRegistry(lut=lut)", ("C11-R3",)),
    Mutant("deepcopy-drops-unit-system", REG, "UnitRegistry.__deepcopy__", "add_default_symbols=False, lut=lut, unit_system=self.unit_system", "add_default_symbols=False, lut=lut", ("C11-R3",)),
    Mutant("hdf5-defaults-win", ARR, "unyt_array.from_hdf5", "        unit_lut = default_unit_symbol_lut.copy()\n        unit_lut_load = pickle.loads(dataset.attrs[\"unit_registry\"].tobytes())\n        unit_lut.update(unit_lut_load)", "        unit_lut = pickle.loads(dataset.attrs[\"unit_registry\"].tobytes())\n        unit_lut.update(default_unit_symbol_lut)", ("C11-R3",)),
    Mutant("printer-unreadable", UO, "Unit.__str__", '            return "°C"', '            return "℃"', ("C11-R4",)),
    Mutant("loadtxt-units-in-file-order", ARR, "loadtxt", "units = [units[col] for col in usecols]", "units = [unit for col, unit in enumerate(units) if col in usecols]", ("C11-R5",)),
    Mutant("loadtxt-units-atleast1d", ARR, "loadtxt", "units = [units[col] for col in usecols]", "units = [units[col] for col in np.atleast_1d(usecols)]", (), benign=True),
    Mutant("savetxt-skips-bare-arrays", ARR, "savetxt", "        else:\n            units.append(\"dimensionless\")\n", "", ("C11-R5",)),
    Mutant("to-json-skips-default-names", REG, "UnitRegistry.to_json", "            san_v = list(v)\n", "            if k in default_unit_symbol_lut:\n                continue\n            san_v = list(v)\n", ("C11-R3",)),
    Mutant("unit-copy-drops-offset", UO, "Unit.copy", "return Unit(expr, base_value, base_offset, dimensions, registry)", "return Unit(expr, base_value=base_value, dimensions=dimensions, registry=registry)", ("C11-R4",)),
]
