"""C03 - unit conversion obeys identity, inverse and composition laws on every route."""

from __future__ import annotations

import ast
import copy

from engine.core import AnalysisError, Repo, norm, walk_no_nested
from engine.flow import enum_paths, path_calls, path_facts
from engine.fold import DimVec, Ev, Tables
from engine.mutate import Mutant
from engine.report import Result
from rules.common import forwards_equivalence
from rules.ufunc import ARR, UfuncAnchors

TECHNIQUE = "delegation-shape rules over resolved call bindings, apply-idiom sibling agreement, alpha-equivalence of the old/new halves of the affine rule, and closure + reference check of the folded EM conversion table"
LEVEL_TEXT = """Static, structural part of the conversion laws: (R1) every entry point that expresses the same request - to,
to_value, in_cgs/in_mks, convert_to_base/cgs/mks, get_cgs/mks_equivalent, Unit.get_conversion_factor - is shown to delegate
to the one primary computation with the designated unit system and with all of its own parameters forwarded, so all routes
are the same computation; (R2) the four consumers of a (factor, offset) pair apply it in one idiom: multiply by the factor,
then subtract the offset, both taken from the same call; (R3) the prefix-aware rescaling of the old and new offsets in
_get_conversion_factor is the same code up to renaming old<->new, which is what makes A->B and B->A mutually inverse affine
maps; (R4) the CGS<->SI electromagnetic table is closed under reversal with reciprocal factors, pairs the dimensions listed
in em_dimensions, and carries the Gaussian<->SI factors of the reference table.
(R1, extended) get_base_equivalent re-creates the target unit in the unit's own registry; (R5) units obtained by unit arithmetic keep the zero point of an offset scale (decision table of Unit.__mul__ / __truediv__)."""
LEVEL_NOTE = """Undecided: the identity / inverse / composition laws 'up to floating-point rounding' over all unit triples
are numerical statements about float arithmetic and are not decided; only the structure that makes them hold in exact
arithmetic is."""
EXPLANATION = LEVEL_TEXT
ASSUMPTIONS = ["Gaussian-SI factors: 1 C = c/10 statC, 1 A = c/10 statA, 1 T = 1e4 G, 1 V = 1e8/c statV, 1 ohm = 1e9/c^2 statohm (c in cm/s)"]

UO = "unyt/unit_object.py"


def check(repo: Repo) -> Result:
    res = Result("C03")
    delegation(repo, res)
    apply_idiom(repo, res)
    mirror(repo, res)
    em_table(repo, res)
    from rules import c08
    from rules.common import share

    r5 = res.rule("C03-R5", "units obtained by unit arithmetic keep the zero point of an offset scale (identity / inverse laws for degC built as 1 * degC)", floor=2)
    share(res, r5, "C08", lambda t: c08.refusal(repo, t), ["C08-R2"], want=lambda k: k.endswith(":surviving-offset"), min_keys=2)
    from rules import c11

    def _copy(t):
        t.rule("C11-R4", "x")
        c11.unit_copy_values(repo, t, "C11-R4")

    share(res, r5, "C11", _copy, ["C11-R4"], want=lambda k: k == "Unit.copy:values")

    from rules import c10

    r6 = res.rule("C03-R6", "in_base / convert_to_base agree with to(get_base_equivalent): in_base hands the array back unconverted only when its unit expression is the system's own (a scaled dimensionless or merely equal-valued unit still converts; shared with C10-R3)", floor=2)
    share(res, r6, "C10", lambda t: c10.error_discipline(repo, t), ["C10-R3"], want=lambda k: k in ("in_base", "in_base:unchanged-only-if-system-unit", "get_base_equivalent:result"), min_keys=2)
    from rules import c02

    r7 = res.rule("C03-R7", "the (factor, offset) pair every route applies is the affine map between the two scales: factor = old scale / new scale, offset = factor * old offset - new offset, and the offset is left out only when both units have none - equal non-zero offsets with different scales still need it, or A->B->C differs from A->C (shared with C02-R4)", floor=4)
    share(res, r7, "C02", lambda t: c02.ratio_direction(repo, t), ["C02-R4"], min_keys=4)
    from rules import c13

    r8 = res.rule("C03-R8", "a target given as text and a target given as a Unit of the array's registry are the same target: the registry's unit-string cache only ever holds units parsed against that registry (a copied registry does not inherit the original's cached Unit objects, whose scales are the original's) (shared with C13-R1)", floor=2)
    share(res, r8, "C13", lambda t: c13.ownership(repo, t), ["C13-R1"], want=lambda k: k in ("unit-cache-owner",) or k.startswith("unit-cache-writer:"), min_keys=2)
    return res


def _single_return_call(fn):
    rets = [n for n in walk_no_nested(fn.node) if isinstance(n, ast.Return)]
    if len(rets) == 1 and isinstance(rets[0].value, ast.Call):
        return rets[0].value
    return None


def delegation(repo, res):
    r1 = res.rule("C03-R1", "all conversion routes delegate to the primary computation with the designated system and all parameters forwarded", floor=13)
    arr = repo.mod(ARR)
    uo = repo.mod(UO)
    for key, ok, where, msg in forwards_equivalence(repo):
        res.check(ok, key, where, msg, rid=r1)
    for meth, system in (("in_cgs", "cgs"), ("in_mks", "mks")):
        fn = arr.func(f"unyt_array.{meth}")
        res.fn(fn)
        c = _single_return_call(fn)
        ok = c is not None and norm(c.func) == "self.in_base" and len(c.args) + len(c.keywords) == 1
        if ok:
            a = c.args[0] if c.args else c.keywords[0].value
            ok = isinstance(a, ast.Constant) and a.value == system and (not c.keywords or c.keywords[0].arg == "unit_system")
        res.check(ok, f"{meth}->in_base({system})", fn.where(), f"{meth} must be in_base({system!r})", f"self.in_base({system!r})", norm(c) if c is not None else None, rid=r1)
    for meth, system in (("get_cgs_equivalent", "cgs"), ("get_mks_equivalent", "mks")):
        fn = uo.func(f"Unit.{meth}")
        res.fn(fn)
        c = _single_return_call(fn)
        ok = c is not None and norm(c.func) == "self.get_base_equivalent" and len(c.args) + len(c.keywords) == 1
        if ok:
            a = c.args[0] if c.args else c.keywords[0].value
            ok = isinstance(a, ast.Constant) and a.value == system and (not c.keywords or c.keywords[0].arg == "unit_system")
        res.check(ok, f"{meth}->get_base_equivalent({system})", fn.where(), f"{meth} must be get_base_equivalent({system!r})", found=norm(c) if c is not None else None, rid=r1)
    fn = uo.func("Unit.get_conversion_factor")
    c = _single_return_call(fn)
    res.check(c is not None and norm(c) == f"_get_conversion_factor(self, {fn.params[1]}, {fn.params[2]})", "Unit.get_conversion_factor", fn.where(), "the method is the routine applied to (self, other, dtype)", rid=r1)
    # to_value: quantity -> float of the converted value; array -> the value (path summaries: locals substituted)
    fn = arr.func("unyt_array.to_value")
    res.fn(fn)
    from engine.sem import summarise

    ok = True
    seen = set()
    conv = "self.in_units(units, equivalence=equivalence, **kwargs).value"
    for x in summarise(fn):
        if x.kind != "return":
            ok = False
            continue
        base = "self.value" if x.has("units is None", True) else conv
        ok &= x.value in (base, f"float({base})")
        seen.add(base)
    ok &= seen == {"self.value", conv}
    res.check(ok, "to_value", fn.where(), "to_value returns the bare value of the same conversion (in_units with the same units, equivalence and keyword arguments)", found=sorted(seen), rid=r1)
    # the target of a conversion given as a Unit object is used as it is (its own scale, offset and registry): only text
    # is parsed against the array's registry
    sz = arr.func("_sanitize_units_convert")
    res.fn(sz)
    pu = sz.params[0]
    ok_s, n_s = True, 0
    for x in summarise(sz):
        if x.has(f"isinstance({pu}, Unit)", True):
            n_s += 1
            ok_s &= x.kind == "return" and x.value == pu
    res.check(ok_s and n_s >= 1, "target-unit-object-kept", sz.where(), "a conversion target given as a Unit object must be used unchanged: re-creating it from its expression in the array's registry replaces its scale by whatever that registry says for the same spelling (code units of another dataset)", f"isinstance({pu}, Unit) -> return {pu}", [(sorted(x.facts), x.value) for x in summarise(sz)][:3], rid=r1)
    # copying / in-place twins and aliases take the same parameters with the same defaults (a call that omits an argument
    # must mean the same request on either route)
    def _sig(f_):
        a_ = f_.node.args
        names_ = [x.arg for x in a_.posonlyargs + a_.args][1:]
        d_ = dict(zip(names_[::-1], [norm(x) for x in a_.defaults[::-1]]))
        return [(n_, d_.get(n_)) for n_ in names_], (a_.vararg.arg if a_.vararg else None), (a_.kwarg.arg if a_.kwarg else None)

    for m1, m2 in (("in_units", "convert_to_units"), ("to", "in_units"), ("in_base", "convert_to_base"), ("in_cgs", "convert_to_cgs"), ("in_mks", "convert_to_mks"), ("to_equivalent", "convert_to_equivalent")):
        f1, f2 = arr.func(f"unyt_array.{m1}"), arr.func(f"unyt_array.{m2}")
        s1, s2 = _sig(f1), _sig(f2)
        d1, d2 = dict(s1[0]), dict(s2[0])
        common = [n_ for n_, _ in s1[0] if n_ in d2]
        same = all(d1[n_] == d2[n_] for n_ in common) and [n_ for n_, _ in s2[0] if n_ in d1] == common
        res.check(same, f"twin-signature:{m1}/{m2}", f2.where(), f"{m1} and {m2} express the same request but the parameters they share differ in default or order: a call that leaves an argument out is a different conversion on the two routes", [(n_, d1[n_]) for n_ in common], [(n_, d2[n_]) for n_ in common], rid=r1)
    # in_base: same target as get_base_equivalent
    fn = arr.func("unyt_array.in_base")
    res.fn(fn)
    from engine.sem import cnorm

    calls = [cnorm(c) for c in ast.walk(fn.node) if isinstance(c, ast.Call)]
    res.check("self.units.get_base_equivalent(unit_system)" in calls and "_sanitize_unit_system(unit_system, self)" in calls, "in_base-target", fn.where(), "in_base converts into the unit get_base_equivalent reports for the same unit system argument", rid=r1)
    # ... and that target is re-created in the array's own registry: a unit system's units live in the registry the
    # system was built with (the default one for the built-in systems), so without this the base route would divide
    # by another registry's scale while to('Msun') uses the array's own (same analysis as C10-R3)
    from rules import c10

    ok_reg, found_reg = c10.base_equivalent_in_own_registry(repo)
    gbe = uo.func("Unit.get_base_equivalent")
    res.check(ok_reg, "base-route-registry", gbe.where(), "in_base / convert_to_base and to() must read the target unit's scale from the same (the array's own) registry: get_base_equivalent returns a unit that is not re-created in self.registry", "Unit(..., registry=self.registry)", found_reg, rid=r1)


SUBTRACT_FORMS = (
    "if __o:\n    np.subtract(__d, __o, __d)",
    "if __o:\n    __d = __d - __o",
    "if __o:\n    __d -= __o",
)


def _site(res, rid, key, fn, patterns, mul_pattern, where):
    """One consumer of a (factor, offset) pair, matched structurally with metavariables (local names are free):
    both names come from ONE call that yields the pair, the data are multiplied by the factor, and afterwards - under
    `if offset:` - the offset is subtracted from the same data.  Returns the binding (or None)."""
    from engine.pat import find, find_all

    if isinstance(mul_pattern, (tuple, list)):
        # alternative spellings of the scaling step: the first one present is the site's
        alts = list(mul_pattern)
        mul_pattern = next((m_ for m_ in alts if find_all(fn.node, patterns + [m_]) is not None), alts[0])
    b = find_all(fn.node, patterns + [mul_pattern])
    ok = b is not None
    found = ""
    if ok:
        subs = []
        for form in SUBTRACT_FORMS:
            subs += find(fn.node, form, b)
        muls = find(fn.node, mul_pattern, b)
        ok = len(subs) == 1 and len(muls) >= 1 and min(m.lineno for m, _ in muls) < subs[0][0].lineno
        found = norm(subs[0][0]) if subs else "no `if offset:` subtraction on the multiplied data"
    if ok:
        # path rule: on EVERY path that obtains the pair and ends normally, the data are multiplied by the factor and
        # afterwards the offset is tested (and subtracted when it is non-zero) - unless the path sets the offset to 0
        from engine.flow import enum_paths
        from engine.sem import atomise, split_ifexp

        src_lines = {n.lineno for pat_ in patterns for n, _ in find(fn.node, pat_, b) if "get_conversion_factor" in pat_ or "_em_conversion" in pat_}
        mul_lines = {m.lineno for m, _ in muls}
        sub_lines = {subs[0][0].body[0].lineno}
        o, f_ = b["__o"], b["__f"]
        for p in enum_paths(atomise(split_ifexp(list(fn.body))), limit=20000):
            if p[-1][0] == "raise":
                continue
            stl = [(ev[0], getattr(ev[1], "lineno", None), ev) for ev in p]
            if not any(k == "stmt" and ln in src_lines for k, ln, _ in stl):
                continue
            zeroed = any(k == "stmt" and isinstance(ev[1], ast.Assign) and norm(ev[1]) == f"{o} = 0" for k, ln, ev in stl)
            i_mul = next((i for i, (k, ln, ev) in enumerate(stl) if k == "stmt" and (ln in mul_lines or (f_ in {x.id for x in ast.walk(ev[1]) if isinstance(x, ast.Name)} and isinstance(ev[1], (ast.AugAssign, ast.Expr, ast.Assign)) and any(isinstance(x, (ast.Mult,)) or (isinstance(x, ast.Call) and norm(x.func) == "np.multiply") for x in ast.walk(ev[1]))))), None)
            if i_mul is None:
                ok = False
                found = "a path converts without multiplying the data by the factor"
                break
            tested = [(i, ev) for i, (k, ln, ev) in enumerate(stl) if k == "cond" and norm(ev[1]) == o and i > i_mul]
            if zeroed:
                continue
            if not tested:
                ok = False
                found = f"a path multiplies by the factor (line {stl[i_mul][1]}) and never looks at the offset: readings on offset scales (degC, degF, lat/lon) are converted as if they were differences"
                break
            if tested[0][1][2] is True and not any(k == "stmt" and ln in sub_lines for k, ln, _ in stl[tested[0][0]:]):
                ok = False
                found = "offset tested but not subtracted"
                break
    res.check(ok, key, where, "conversion must be applied as data*factor, then `- offset` on the same data under `if offset`, with factor and offset taken from the same call, on every path", "factor then - offset", found or "pair source / multiplication not found", rid=rid)
    return b if ok else None


def apply_idiom(repo, res):
    r2 = res.rule("C03-R2", "apply-idiom agreement of the consumers of (factor, offset)", floor=8)
    arr = repo.mod(ARR)
    from engine.pat import find, find_all
    from engine.sem import cnorm

    EM = "__new, (__f, __o) = _em_conversion(self.units, __cd, __u)"
    ORD = "__f, __o = self.units.get_conversion_factor(__new, self.dtype)"

    # in_units
    fn = arr.func("unyt_array.in_units")
    res.fn(fn)
    b = _site(res, r2, "in_units", fn, [EM, ORD], "__d = np.asarray(self.ndview * __f, dtype=___dt)", fn.where())
    res.check(b is not None, "in_units:source", fn.where(), "factor and offset come from the same call (EM route or ordinary route)", rid=r2)
    # offset zeroed only in the EM arm
    if b is not None:
        z = [n for n, _ in find(fn.node, "__o = 0", b)]
        em_calls = [n for n, _ in find(fn.node, EM, b)]
        # (pattern matches are nodes of a canonical copy: positions are compared by line)
        within = lambda node, body: bool(body) and body[0].lineno <= node.lineno <= body[-1].end_lineno
        em_arm = [n for n in ast.walk(fn.node) if isinstance(n, ast.If) and within(em_calls[0], n.body)] if em_calls else []
        inner = min(em_arm, key=lambda n: n.end_lineno - n.lineno) if em_arm else None
        ok = inner is not None and all(within(zz, inner.body) for zz in z)
        res.check(ok, "in_units:offset-zeroed-only-em", fn.where(), "an offset may be discarded only on the EM route (no EM unit has an offset)", rid=r2)
        ctor = [c for c in ast.walk(fn.node) if isinstance(c, ast.Call) and norm(c.func) == "type(self)"]
        res.check(bool(ctor) and all([norm(a_) for a_ in c.args[:2]] == [b["__d"], b["__new"]] for c in ctor), "in_units:result", fn.where(), "the converted data are wrapped with the target unit", rid=r2)

    # convert_to_units
    fn = arr.func("unyt_array.convert_to_units")
    res.fn(fn)
    b = _site(res, r2, "convert_to_units", fn, [EM, ORD, "__d = self.d"], "__d *= __f", fn.where())
    res.check(b is not None, "convert_to_units:view", fn.where(), "the in-place route operates on a view of the array's own buffer", rid=r2)
    if b is not None:
        us = [n for n in ast.walk(fn.node) if isinstance(n, ast.Assign) and norm(n.targets[0]) == "self.units"]
        res.check(len(us) == 1 and norm(us[0].value) == b["__new"], "convert_to_units:unit", fn.where(), "the array's unit becomes the target unit", rid=r2)

    # in_base
    fn = arr.func("unyt_array.in_base")
    res.fn(fn)
    b = _site(res, r2, "in_base", fn, ["__new, (__f, __o) = _em_conversion(__u0, __cd, unit_system=__us)", "__f, __o = self.units.get_conversion_factor(__new, self.dtype)"], ("__d = np.asarray(self.ndview * __f, dtype=___dt)", "__d = self.value * __f"), fn.where())
    if b is not None:
        rets = [n for n in fn.body if isinstance(n, ast.Return)]
        res.check(len(rets) == 1 and cnorm(rets[0].value) == f"type(self)({b['__d']}, {b['__new']})", "in_base:result", fn.where(), "in_base wraps the converted data with the target unit", rid=r2)

    # ufunc second operand: offset may be ignored only for delta_ left units (guard raises otherwise)
    a = UfuncAnchors(repo)
    body = a.differ_if.body
    conv = [st for st in body if isinstance(st, ast.Assign) and "get_conversion_factor" in norm(st.value)]
    ok = len(conv) == 1 and norm(conv[0].targets[0]) == "(conv, offset)"
    guard = [st for st in body if isinstance(st, ast.If) and "offset is not None" in norm(st.test)]
    ok = ok and len(guard) == 1 and "not repr(u0).startswith('delta_')" in norm(guard[0].test) and isinstance(guard[0].body[0], ast.Raise)
    res.check(ok, "ufunc-operand", a.fn.where(a.differ_if), "the binary-ufunc route ignores the offset only when the left unit is a delta unit and raises otherwise", rid=r2)


def _rename(node, mapping):
    n = copy.deepcopy(node)
    for sub in ast.walk(n):
        if isinstance(sub, ast.Name) and sub.id in mapping:
            sub.id = mapping[sub.id]
    return n


def mirror(repo, res):
    r3 = res.rule("C03-R3", "old/new halves of the prefix-aware offset rescaling are identical up to renaming", floor=2)
    fn = repo.mod(UO).func("_get_conversion_factor")
    res.fn(fn)
    old, new = fn.params[0], fn.params[1]
    # top-level value bindings
    tops = {norm(s.targets[0]): norm(s.value) for s in fn.body if isinstance(s, ast.Assign) and isinstance(s.targets[0], ast.Name)}
    pairs = [("old_basevalue", "new_basevalue"), ("old_baseoffset", "new_baseoffset")]
    ok = True
    for o, n_ in pairs:
        ok &= tops.get(o, "").replace(old, "§") == tops.get(n_, "").replace(new, "§") and tops.get(o, "") != ""
    res.check(ok, "bindings", fn.where(), "old_* and new_* locals must be the same fields of the two units", found=tops, rid=r3)
    temp = [n for n in ast.walk(fn.node) if isinstance(n, ast.If) and "temperature" in norm(n.test)]
    if len(temp) != 1:
        raise AnalysisError(f"{fn.where()}: temperature block not found")
    stm = temp[0].body
    if len(stm) % 2:
        res.bad("halves", fn.where(temp[0]), "the temperature block does not consist of two symmetric halves", rid=r3)
        return
    h = len(stm) // 2
    mapping = {"old_prefix": "new_prefix", "old_baseoffset": "new_baseoffset", "old_basevalue": "new_basevalue", old: new}
    a = [norm(_rename(s, mapping)) for s in stm[:h]]
    b = [norm(s) for s in stm[h:]]
    res.check(a == b, "halves", fn.where(temp[0]), "the prefix rescaling of the old offset and of the new offset must be the same computation (otherwise A->B and B->A are not inverse)", b, a, rid=r3)
    res.check(norm(temp[0].test) == f"{old}.dimensions == temperature", "scope", fn.where(temp[0]), "prefix-aware offset rescaling applies to temperature units", rid=r3)


# Gaussian <-> SI factors, c in cm/s  (number of target units per source unit)
def _em_reference(c):
    return {
        ("C", "statC"): 0.1 * c,
        ("statC", "C"): 10.0 / c,
        ("A", "statA"): 0.1 * c,
        ("statA", "A"): 10.0 / c,
        ("T", "G"): 1.0e4,
        ("G", "T"): 1.0e-4,
        ("V", "statV"): 1.0e8 / c,
        ("statV", "V"): 1.0e-8 * c,
        ("Ω", "statohm"): 1.0e9 / c**2,
        ("statohm", "Ω"): 1.0e-9 * c**2,
    }


def em_route(repo, res, r4):
    """How _check_em_conversion uses the table: on every path that answers with a (target, partner unit, factor) triple,
    either the unit stays in its own family (unit with a current in a system with a current unit: target from the
    system, the unit itself, factor exactly 1.0), or the partner unit is the table's partner symbol *with the source's
    SI prefix* and the factor is that same row's factor.  Path summaries with all locals substituted."""
    from engine.sem import summarise

    fn = repo.mod(UO).func("_check_em_conversion")
    res.fn(fn)
    unit = fn.params[0]
    n = {"own-family": 0, "partner": 0}
    bad = []
    for x in summarise(fn, limit=20000):
        if x.kind != "return" or x.value in ("()", "em_map"):
            continue
        v = ast.parse(x.value, mode="eval").body
        if not (isinstance(v, ast.Tuple) and len(v.elts) == 3):
            raise AnalysisError(f"{fn.where()}: _check_em_conversion returns something that is not a triple: {x.value[:80]}")
        tgt, partner, fac = v.elts
        if norm(tgt).startswith("unit_system") and "[" in norm(tgt):
            n["own-family"] += 1
            if not (norm(partner) == unit and isinstance(fac, ast.Constant) and fac.value == 1.0):
                bad.append(("own-family", x.value[:120]))
            continue
        n["partner"] += 1
        ok = isinstance(partner, ast.Call) and norm(partner.func) == "Unit" and partner.args
        row = None
        if ok:
            a0 = partner.args[0]
            atomic = x.has(f"{unit}.is_atomic", True)
            if isinstance(a0, ast.BinOp) and isinstance(a0.op, ast.Add):
                pre, name = a0.left, a0.right
            else:
                pre, name = None, a0
            ok = isinstance(name, ast.Subscript) and isinstance(name.slice, ast.Constant) and name.slice.value == 1 and norm(name.value).startswith("em_conversions[")
            if ok:
                row = norm(name.value)
                if atomic:
                    ok = pre is not None and norm(pre).startswith("_split_prefix(str(") and norm(pre).endswith(")[0]")
                else:
                    ok = pre is None or (isinstance(pre, ast.Constant) and pre.value == "")
        if ok:
            ok = isinstance(fac, ast.Subscript) and isinstance(fac.slice, ast.Constant) and fac.slice.value == 2 and norm(fac.value) == row
        if not ok:
            bad.append(("partner", x.value[:160]))
    if n["own-family"] < 1 or n["partner"] < 2:
        raise AnalysisError(f"{fn.where()}: the answering paths of _check_em_conversion were not found ({n})")
    res.check(not [b for b in bad if b[0] == "own-family"], "em-route:own-family", fn.where(), "a unit that carries a current, converted within a system that has a current unit, stays in its family: the answer is (the system's unit, the unit itself, 1.0) - a Gaussian factor here multiplies e.g. (1 mC).in_mks() and every charge constant of the imperial / planck systems by 3e9", "(unit_system[unit.dimensions], unit, 1.0)", [b[1] for b in bad if b[0] == "own-family"][:2], rid=r4)
    res.check(not [b for b in bad if b[0] == "partner"], "em-route:partner-unit", fn.where(), "the partner unit of a cross-system conversion is the table's partner symbol with the source's SI prefix, and the factor is that row's: without the prefix mT -> G is off by 1000 and mT -> G -> mT does not return", "(target, Unit(prefix + row[1]), row[2])", [b[1] for b in bad if b[0] == "partner"][:2], rid=r4)


def em_apply(repo, res, r4):
    """_em_conversion turns the triple of _check_em_conversion into (target unit, factor): the data are re-expressed as
    row factor x partner unit, and the target is the triple's own target (the partner unit when the triple names
    none), re-created in the array's registry; an explicit target of the caller is kept."""
    from engine.sem import summarise

    fn = repo.mod(UO).func("_em_conversion")
    res.fn(fn)
    ou, cd = fn.params[0], fn.params[1]
    tu = fn.params[2]
    bad = []
    n = 0
    for x in summarise(fn):
        if x.kind != "return":
            continue
        n += 1
        v = ast.parse(x.value, mode="eval").body
        if not (isinstance(v, ast.Tuple) and len(v.elts) == 2):
            raise AnalysisError(f"{fn.where()}: _em_conversion returns something that is not a pair")
        tgt, conv = norm(v.elts[0]), norm(v.elts[1])
        newu = f"Unit({cd}[2] * {cd}[1].expr, registry={ou}.registry)"
        if x.has("unit_system is None", True):
            want_t = tu
        elif x.has(f"{cd}[0] is None", True):
            want_t = f"Unit({cd}[1].expr, registry={ou}.registry)"
        else:
            want_t = f"Unit({cd}[0].expr, registry={ou}.registry)"
        if tgt != want_t or conv != f"{newu}.get_conversion_factor({want_t})":
            bad.append((sorted(f"{t}={tr}" for t, tr in x.facts), x.value[:140]))
    if n < 3:
        raise AnalysisError(f"{fn.where()}: returning paths of _em_conversion not found")
    res.check(not bad, "em-route:apply", fn.where(), "_em_conversion must convert (row factor x partner unit) into the target named by the triple (its first element; the partner unit when that is None) - built from another element, the unit stays what it was and in_base / get_base_equivalent / convert_to_base leave the unit system", "(Unit(target.expr), Unit(scale * partner.expr).get_conversion_factor(target))", bad[:2], rid=r4)


def em_table(repo, res):
    r4 = res.rule("C03-R4", "EM conversion table: closed under reversal with reciprocal factors, pairs em_dimensions partners, factors equal the Gaussian-SI reference", floor=30)
    em_route(repo, res, r4)
    em_apply(repo, res, r4)
    t = Tables(repo)
    uo = repo.mod(UO)
    node = uo.assign("em_conversions")
    env = dict(t.ratios)
    env["dims"] = t.dims
    ev = Ev(env, "em_conversions")
    table = ev.ev(node)
    tab = {}
    for k, v in table:
        if not (isinstance(k, tuple) and len(k) == 2 and isinstance(v, tuple) and len(v) == 3):
            raise AnalysisError("em_conversions has unexpected shape")
        tab[k] = v
    # em_dimensions: literal dict + the loop that adds the reverse mapping
    dm = repo.mod("unyt/dimensions.py")
    ed = dm.assign("em_dimensions")
    env2 = dict(t.dims)
    partner = {}
    for k, v in zip(ed.keys, ed.values):
        partner[Ev(env2).ev(k)] = Ev(env2).ev(v)
    loop = [n for n in dm.tree.body if isinstance(n, ast.For) and "em_dimensions" in norm(n.iter)]
    if len(loop) == 1 and norm(loop[0].body[0]) == "em_dimensions[v] = k":
        for k, v in list(partner.items()):
            partner[v] = k
    ref = _em_reference(t.ratios["speed_of_light_cm_per_s"])

    def rel(a, b):
        return abs(a - b) / max(abs(a), abs(b))

    for (sym, dim), (dim2, sym2, f) in sorted(tab.items(), key=lambda kv: kv[0][0]):
        key = f"{sym}->{sym2}"
        where = f"{UO} em_conversions[({sym!r}, ...)]"
        back = tab.get((sym2, dim2))
        res.check(back is not None and back[0] == dim and back[1] == sym, f"{key}:reverse-exists", where, f"the reverse entry ({sym2}) must exist and point back to {sym}", rid=r4)
        if back is not None:
            res.check(rel(f * back[2], 1.0) <= 1e-12, f"{key}:reciprocal", where, f"{sym}->{sym2}->{sym} must be the identity (product of factors {f * back[2]!r})", 1.0, f * back[2], rid=r4)
        res.check(partner.get(dim) == dim2, f"{key}:dimension-partner", where, "source and target dimension must be partners in em_dimensions", partner.get(dim), dim2, rid=r4)
        for s, d in ((sym, dim), (sym2, dim2)):
            row = t.lut.get(s)
            res.check(row is not None and row[1] == d, f"{key}:symbol-dimension:{s}", where, f"{s} must be a table unit of the dimension it is keyed with", rid=r4)
        want = ref.get((sym, sym2))
        if want is None:
            res.note(f"EM pair {key} has no reference factor")
        else:
            res.check(rel(f, want) <= 1e-12, f"{key}:factor", where, f"1 {sym} must be {want!r} {sym2} (Gaussian-SI relation), the table says {f!r}", want, f, rid=r4)
    # em_conversion_dims is derived from the table keys
    ecd = uo.assign("em_conversion_dims")
    res.check(norm(ecd) == "[k[1] for k in em_conversions.keys()]", "dims-list", UO, "em_conversion_dims must list the dimensions of the table keys", rid=r4)


MUTANTS = [
    Mutant("in_mks-is-cgs", ARR, "unyt_array.in_mks", 'return self.in_base("mks")', 'return self.in_base("cgs")', ("C03-R1",)),
    Mutant("to-drops-equivalence", ARR, "unyt_array.to", "return self.in_units(units, equivalence=equivalence, **kwargs)", "return self.in_units(units, **kwargs)", ("C03-R1",)),
    Mutant("convert_to_cgs-uses-mks", ARR, "unyt_array.convert_to_cgs", "self.units.get_cgs_equivalent()", "self.units.get_mks_equivalent()", ("C03-R1",)),
    Mutant("get_mks-equivalent-cgs", UO, "Unit.get_mks_equivalent", 'unit_system="mks"', 'unit_system="cgs"', ("C03-R1",)),
    Mutant("in_units-offset-added", ARR, "unyt_array.in_units", "np.subtract(ret, offset, ret)", "np.add(ret, offset, ret)", ("C03-R2",)),
    Mutant("convert-offset-first", ARR, "unyt_array.convert_to_units", "            values *= conv_factor\n\n            if offset:\n                np.subtract(values, offset, values)", "            if offset:\n                np.subtract(values, offset, values)\n            values *= conv_factor\n", ("C03-R2",)),
    Mutant("in_base-no-offset", ARR, "unyt_array.in_base", "        if offset:\n            np.subtract(ret, offset, ret)\n        return type(self)(ret, to_units)", "        return type(self)(ret, to_units)", ("C03-R2",)),
    Mutant("mirror-broken", UO, "_get_conversion_factor", "                new_baseoffset /= new_basevalue", "                new_baseoffset *= new_basevalue", ("C03-R3",)),
    Mutant("em-one-sided", UO, None, '("G", dims.magnetic_field_cgs): (dims.magnetic_field_mks, "T", 1.0e-4)', '("G", dims.magnetic_field_cgs): (dims.magnetic_field_mks, "T", 1.0e-3)', ("C03-R4",)),
    Mutant("em-two-sided-slip", UO, None, "0.1 * speed_of_light_cm_per_s),\n    (\"statC\"", "0.01 * speed_of_light_cm_per_s),\n    (\"statC\"", ("C03-R4",)),
    Mutant("twin-keyword-form", ARR, "unyt_array.in_cgs", 'return self.in_base("cgs")', 'return self.in_base(unit_system="cgs")', (), benign=True),
    Mutant("base-equivalent-foreign-registry", UO, "Unit.get_base_equivalent", "        return Unit(new_units, registry=self.registry)", "        return new_units", ("C03-R1",)),
    Mutant("mul-offset-from-dimensionless-side", UO, "Unit.__mul__", "            if u.dimensions in (temperature, angle) and self.is_dimensionless:\n                base_offset = u.base_offset", "            if u.dimensions in (temperature, angle) and self.is_dimensionless:\n                base_offset = self.base_offset", ("C03-R5",)),
    Mutant("em-target-branch-drops-prefix", UO, "_check_em_conversion", "            em_map = (to_unit, em_unit, em_info[2])", "            em_map = (to_unit, Unit(em_info[1], registry=registry), em_info[2])", ("C03-R4",)),
    Mutant("em-own-family-scaled", UO, "_check_em_conversion", "em_map = (unit_system[unit.dimensions], unit, 1.0)", "em_map = (unit_system[unit.dimensions], unit, em_info[2])", ("C03-R4",)),
    Mutant("unit-copy-drops-offset", UO, "Unit.copy", "return Unit(expr, base_value, base_offset, dimensions, registry)", "return Unit(expr, base_value=base_value, dimensions=dimensions, registry=registry)", ("C03-R5",)),
    Mutant("in-base-unchanged-on-equal-value", ARR, "unyt_array.in_base", "            to_units = self.units.get_base_equivalent(unit_system)\n", "            to_units = self.units.get_base_equivalent(unit_system)\n            if to_units == self.units:\n                return self.copy()\n", ("C03-R6",)),
]
