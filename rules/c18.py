"""C18 - non-mutating calls do not mutate; failed calls leave their operands intact."""

from __future__ import annotations

import ast

from engine.core import AnalysisError, Repo, norm, walk_no_nested
from engine.effects import Effects
from engine.flow import Walker, enum_paths
from engine.mutate import Mutant
from engine.report import Result
from rules.handlers import AF, inventory, module_helpers
from rules.ufunc import ARR, UfuncAnchors

TECHNIQUE = "effect (may-alias write) analysis of the copying API + typestate walk {clean, written} over the in-place API: no raise / raising validator reachable after the first write"
LEVEL_TEXT = """Static: (R1) for every function documented to return a new object - the conversion methods, accessors, Unit
arithmetic and all array-function handlers without a destination argument (about 140 functions) - a may-alias analysis shows
that no statement writes into an object aliasing self or a parameter (in-place NumPy calls only ever target freshly allocated
arrays); (R2) for every in-place entry point (convert_to_*, item assignment, out= in __array_ufunc__, handlers with out= or a
destination array) a two-state walk over the statement structure shows that no explicit raise and no call of a raising
validator is reachable once the target's unit or data have been written - so a refused call leaves its target as it was;
(R3) the in-place conversion and its copying twin take factor and offset from the same calls.
(R1, extended) the set of receiver-mutating methods of Unit / unyt_array is derived from the source by fixpoint (attribute stores on self, in-place NumPy calls, calls of other mutators) and a call of one of them on self or a parameter inside a copying API is a write; (R4) with out= / augmented assignment the simplification coefficient is applied to the target once and the returned object is not scaled again (shared with C04-R3)."""
LEVEL_NOTE = """Undecided: exceptions raised inside NumPy after a partial write; numerical equality of in-place and copying
results (C03-R2 / C09-R4,R5 decide the structural part). Accepted idioms (named in rules/c18.py): value-preserving int->float
retyping of out= before validation; memoisation of Unit._latex_repr; the final unit conversion after an in-place equivalence
(target dimension guaranteed by C09-R2)."""
EXPLANATION = LEVEL_TEXT
ASSUMPTIONS = ["alias classification of DESIGN section 1.4 (np.asarray/view/slices alias, arithmetic/copy/astype are fresh)"]

UO = "unyt/unit_object.py"
EQ = "unyt/equivalencies.py"

PURE_ARRAY_METHODS = [
    "to", "in_units", "in_base", "in_cgs", "in_mks", "to_value", "to_equivalent", "copy", "__pos__", "argsort",
    "__getitem__", "to_ndarray", "ndarray_view", "to_string", "to_astropy", "to_pint", "has_equivalent", "list_equivalencies",
    "__deepcopy__", "__reduce__", "__str__", "__repr__", "__format__", "__eq__", "__ne__", "__pow__", "dot", "take",
]
PURE_ARRAY_PROPS = ["value", "v", "ndview", "d", "unit_quantity", "uq", "unit_array", "ua"]
PURE_UNIT_METHODS = [
    "__mul__", "__rmul__", "__truediv__", "__rtruediv__", "__pow__", "__eq__", "__hash__", "__str__", "__repr__",
    "copy", "__deepcopy__", "same_dimensions_as", "has_equivalent", "get_base_equivalent", "get_cgs_equivalent",
    "get_mks_equivalent", "get_conversion_factor", "as_coeff_unit", "list_equivalencies",
]
PURE_MODULE_FUNCS = {
    ARR: ["allclose_units", "_coerce_iterable_units", "_sanitize_units_convert", "_apply_power_mapping", "_preserve_units", "_difference_units", "_multiply_units", "_divide_units", "_get_binary_op_return_class", "savetxt"],
    UO: ["_get_conversion_factor", "_em_conversion", "_check_em_conversion", "_get_unit_data_from_expr", "_validate_dimensions", "_factor_pairs", "_create_unit_from_factor", "_cancel_mul"],
}
# destination parameters (writes into these are the point of the function)
DESTS = {"out", "dst"}
DEST_HANDLERS = {"numpy.copyto": "dst", "numpy.fill_diagonal": "a", "numpy.place": "arr", "numpy.put": "a", "numpy.put_along_axis": "arr", "numpy.putmask": "a"}
R1_ALLOWED = {
    # (function, write text prefix): reason
    ("unyt_array.dot", "out.units"): "out= is the caller-designated destination of dot",
}


def check(repo: Repo) -> Result:
    res = Result("C18")
    purity(repo, res)
    raise_after_write(repo, res)
    inplace_twin(repo, res)
    from rules import c04
    from rules.common import share
    from rules.ufunc import UfuncAnchors

    r4 = res.rule("C18-R4", "out= / augmented assignment yields exactly the numbers of the copying call: the simplification coefficient is applied to the target once, and the returned object is not scaled again", floor=4)
    share(res, r4, "C04", lambda t: c04.coefficient(repo, t, UfuncAnchors(repo)), ["C04-R3"], min_keys=4)

    from rules import c16

    r5 = res.rule("C18-R5", "constructing a quantity from an existing one never re-labels the caller's object: the result is a view (a new object sharing the numbers) or a copy (shared with C16-R2)", floor=3)
    share(res, r5, "C16", lambda t: c16.accessors(repo, t), ["C16-R2"], want=lambda k: k.startswith("new:") or k in ("copy", "to_value", "Unit.__mul__:copy") or k.startswith("coerce-list"), min_keys=3)
    return res


class _SymEffects(Effects):
    augassign_names = False  # sympy expressions / Unit objects: `x *= y` rebinds


def _pure_check(res, rid, fn, dests=()):
    res.fn(fn)
    eff = (_SymEffects if fn.mod.rel == UO else Effects)(fn)
    bad = []
    for aliases, text, node in eff.writes(fn.node):
        roots = {a.split(".")[0] for a in aliases}
        if roots <= set(dests):
            continue
        # attribute writes on the destination (out.units = ...)
        bad.append((text, node, sorted(aliases)))
    key = f"{fn.mod.rel.split('/')[-1]}:{fn.qualname}" + (f"@{abs(hash(fn.gate)) % 9973}" if False else "")
    if bad:
        text, node, al = bad[0]
        res.bad(key, fn.where(node), f"{fn.qualname} is documented to return a new object but writes into {al}: `{text}`", "no write to self / parameters", text, rid=rid)
    else:
        res.ok(key, rid)


def purity(repo, res):
    r1 = res.rule("C18-R1", "copying API: no statement writes into an object aliasing self or a parameter", floor=130)
    arr = repo.mod(ARR)
    uo = repo.mod(UO)
    for m in PURE_ARRAY_METHODS + PURE_ARRAY_PROPS:
        q = f"unyt_array.{m}"
        if not arr.has_func(q):
            raise AnalysisError(f"anchor-missing {ARR}:{q}")
        _pure_check(res, r1, arr.func(q), dests=("out",) if m in ("dot", "take") else ())
    for m in PURE_UNIT_METHODS:
        q = f"Unit.{m}"
        if not uo.has_func(q):
            raise AnalysisError(f"anchor-missing {UO}:{q}")
        _pure_check(res, r1, uo.func(q))
    for rel, names in PURE_MODULE_FUNCS.items():
        mod = repo.mod(rel)
        for n in names:
            _pure_check(res, r1, mod.func(n))
    eqm = repo.mod(EQ)
    # equivalence _convert with in_place False: out=None (C09-R4); convert itself does not write
    _pure_check(res, r1, eqm.func("Equivalence.convert"))
    # handlers and helpers
    seen = set()
    helpers = module_helpers(repo)
    dest_of = {}
    for h in inventory(repo):
        d = set()
        for t in h.targets:
            if t in DEST_HANDLERS:
                d.add(DEST_HANDLERS[t])
        if "out" in h.fn.params:
            d.add("out")
        dest_of[(h.fn.qualname, h.fn.gate)] = d
    for name, fns in sorted(helpers.items()):
        for fn in fns:
            ident = (fn.qualname, fn.gate)
            if ident in seen or name in ("implements",):
                continue
            seen.add(ident)
            d = dest_of.get(ident, {"out"} if "out" in fn.params else set())
            res.fn(fn)
            eff = Effects(fn)
            bad = []
            for aliases, text, node in eff.writes(fn.node):
                roots = {a.split(".")[0] for a in aliases}
                if roots <= d:
                    continue
                bad.append((text, node, sorted(aliases)))
            key = f"_array_functions:{name}" + (f"@{len(fn.gate)}" if fn.gate else "")
            if bad:
                text, node, al = bad[0]
                res.bad(key, fn.where(node), f"{name} writes into its argument {al} although it is not a destination: `{text}`", "no write to arguments", text, rid=r1)
            else:
                res.ok(key, r1)
    # Unit.simplify is the documented mutator and the unit rules apply it to operator results: an operator that hands
    # back one of its operands makes `a * 2` rewrite a's own unit object
    from rules.common import unit_operators_returning_operand

    simplify_sites = [c for mod in repo.mods() for fns in mod.funcs.values() for f in fns for c in ast.walk(f.node) if isinstance(c, ast.Call) and isinstance(c.func, ast.Attribute) and c.func.attr == "simplify" and isinstance(c.func.value, ast.BinOp)]
    if not simplify_sites:
        raise AnalysisError("no (a op b).simplify() call site found")
    for mf, shared in unit_operators_returning_operand(repo):
        res.check(not shared, f"unit_object.py:{mf.qualname}:fresh-result", mf.where(), f"{mf.qualname} returns an operand itself on some path and {len(simplify_sites)} call sites simplify() operator results in place: a non-assigning operation (arr * 2) would rewrite the expression and hash of its operand's unit", "a newly built Unit on every path", shared, rid=r1)
    fn = uo.func("Unit.latex_repr")
    w = [t for a, t, n in Effects(fn).writes(fn.node)]
    res.check(all(t.startswith("self._latex_repr =") for t in w), "unit_object.py:Unit.latex_repr", fn.where(), "latex_repr may only memoise the derived LaTeX string", found=w, rid=r1)
    res.note("accepted: Unit.latex_repr stores the derived string in self._latex_repr (memoisation, not part of the unit's value)")


class _RAW(Walker):
    """state: 0 clean, 1 target written"""

    def __init__(self, fn, eff, targets, raisers, accepted_nodes=(), accepted_raisers=()):
        super().__init__()
        self.fn, self.eff, self.targets = fn, eff, targets
        self.raisers = raisers
        self.accepted = set(id(n) for n in accepted_nodes)
        self.accepted_raisers = accepted_raisers
        self.violations = []

    def _raising_calls(self, node):
        for c in ast.walk(node):
            if isinstance(c, ast.Call):
                f = norm(c.func)
                tail = c.func.attr if isinstance(c.func, ast.Attribute) else f
                if (tail in self.raisers or f in self.raisers) and not any(norm(c) == a for a in self.accepted_raisers):
                    # Unit("") / Unit(registry=..) never raises
                    if tail == "Unit" and (not c.args or (isinstance(c.args[0], ast.Constant) and c.args[0].value == "")):
                        continue
                    yield c

    def stmt(self, st, state):
        if state == 1:
            if isinstance(st, ast.Raise):
                self.violations.append((st, "raise"))
            else:
                for c in self._raising_calls(st):
                    self.violations.append((st, f"call of {norm(c.func)} (may raise)"))
                # unit arithmetic refuses offset (degC, degF) and logarithmic units: Unit.__mul__ / __truediv__ / __pow__
                for b_ in ast.walk(st):
                    if isinstance(b_, ast.BinOp) and isinstance(b_.op, (ast.Mult, ast.Div, ast.Pow)):
                        def _is_unit(e):
                            return (isinstance(e, ast.Attribute) and e.attr == "units") or (isinstance(e, ast.Call) and norm(e.func) == "getattr" and len(e.args) >= 2 and isinstance(e.args[1], ast.Constant) and e.args[1].value == "units")
                        if _is_unit(b_.left) and (_is_unit(b_.right) or isinstance(b_.op, ast.Pow)):
                            self.violations.append((st, f"unit arithmetic `{norm(b_)[:50]}` (Unit operators refuse offset and logarithmic units)"))
        new = state
        if id(st) not in self.accepted:
            for aliases, text, node in self.eff.writes(st):
                roots = {a.split(".")[0] for a in aliases}
                if roots & self.targets:
                    new = 1
        return (new,)

    def test(self, expr, state, truth):
        if state == 1:
            for c in self._raising_calls(expr):
                self.violations.append((expr, f"call of {norm(c.func)} (may raise)"))
        return (state,)


_LISTED_RAISERS = {"get_conversion_factor", "_get_conversion_factor", "_validate_units_consistency", "_validate_units_consistency_v2", "Unit", "to", "in_units", "_sanitize_units_convert", "_check_em_conversion", "_em_conversion", "get_base_equivalent", "convert_to_units", "convert_to_equivalent", "_coerce_iterable_units"}

RAISERS = set(_LISTED_RAISERS)


def derived_raisers(repo):
    """module-level functions of unyt/array.py whose body contains a raise statement (directly, or through another
    such function): calling one of them after the target has been written is a refusal after the write.  Derived from
    the source so that a helper which starts to refuse (or a refusing helper that is moved behind the evaluation) is
    seen without being listed by hand."""
    arr = repo.mod(ARR)
    direct = set()
    calls = {}
    for q, fns in arr.funcs.items():
        if "." in q:
            continue
        for f in fns:
            if any(isinstance(n, ast.Raise) for n in walk_no_nested(f.node)):
                direct.add(q)
            calls.setdefault(q, set()).update(norm(c.func) for c in walk_no_nested(f.node) if isinstance(c, ast.Call) and isinstance(c.func, ast.Name))
    changed = True
    while changed:
        changed = False
        for q, cs in calls.items():
            if q not in direct and cs & direct:
                direct.add(q)
                changed = True
    return direct


def raise_after_write(repo, res):
    r2 = res.rule("C18-R2", "in-place API: no raise / raising validator reachable after the target has been written", floor=20)
    arr = repo.mod(ARR)
    global RAISERS
    RAISERS = set(_LISTED_RAISERS) | derived_raisers(repo)
    res.note(f"may-raise helpers derived from the source: {sorted(RAISERS - set(_LISTED_RAISERS))}")

    def run(fn, targets, key, accepted_nodes=(), accepted_raisers=(), roots=None, extra_alias=None, raisers=None):
        res.fn(fn)
        eff = Effects(fn, roots=roots)
        if extra_alias:
            for k, v in extra_alias.items():
                eff.origins.setdefault(k, set()).update(v)
            eff._fix()
        w = _RAW(fn, eff, set(targets), raisers or RAISERS, accepted_nodes, accepted_raisers)
        w.run(fn.body, [0])
        if w.violations:
            node, what = w.violations[0]
            res.bad(key, fn.where(node), f"{fn.qualname}: {what} is reachable after the target has already been modified; a refused call leaves the target changed", "all validation before the first write", norm(node)[:100], rid=r2)
        else:
            res.ok(key, r2)

    run(arr.func("unyt_array.convert_to_units"), {"self"}, "convert_to_units", accepted_raisers=("self.convert_to_equivalent(units, equivalence, **kwargs)",))
    # relabel last: NumPy's in-place operations on the buffer can themselves refuse (read-only memory, casting),
    # the attribute store cannot - so on every path the unit is assigned after the last buffer write
    cfn = arr.func("unyt_array.convert_to_units")
    ceff = Effects(cfn)
    n_lab = 0
    late = None
    for pth in enum_paths(cfn.body):
        labelled = False
        for ev in pth:
            if ev[0] != "stmt":
                continue
            st = ev[1]
            if isinstance(st, ast.Assign) and any(norm(t) == "self.units" for t in st.targets):
                labelled = True
                n_lab += 1
                continue
            if labelled:
                for aliases, text, node in ceff.writes(st):
                    if "self" in {a.split(".")[0] for a in aliases} and not any(a.endswith(".units") for a in aliases):
                        late = late or (st, text)
    if n_lab == 0:
        raise AnalysisError(f"{cfn.where()}: store to self.units not found")
    res.check(late is None, "convert_to_units:relabel-last", cfn.where(late[0]) if late else cfn.where(), "convert_to_units assigns the new unit before it has finished converting the numbers: when the in-place NumPy operation refuses (e.g. a read-only buffer) the array keeps its old numbers under the new unit", "self.units = new_units after the last in-place operation", late[1] if late else "", rid=r2)
    # re-typing the buffer (X.dtype = <float type>) re-interprets the caller's memory before any number has been written:
    # when the write that follows is refused (read-only memory) the array is left holding its integer bit patterns read
    # as floats.  Every path that re-types has passed a writeability test that raises.
    def retype_guard(fnx, label):
        n_retype, unguarded = 0, None
        for pth in enum_paths(fnx.body, limit=20000):
            guarded = False
            for ev in pth:
                if ev[0] == "cond":
                    txt = norm(ev[1])
                    if "flags.writeable" in txt and ((ev[2] is True and not txt.startswith("not ")) or (ev[2] is False and txt.startswith("not "))):
                        guarded = True
                elif ev[0] == "stmt" and isinstance(ev[1], ast.Assign) and any(isinstance(t, ast.Attribute) and t.attr == "dtype" for t in ev[1].targets):
                    n_retype += 1
                    if not guarded:
                        unguarded = unguarded or ev[1]
        if n_retype == 0:
            raise AnalysisError(f"{fnx.where()}: in-place re-typing of integer data not found in {label}")
        res.check(unguarded is None, f"{label}:retype-needs-writeable", fnx.where(unguarded) if unguarded is not None else fnx.where(), f"{label} re-types an integer buffer in place before it knows the buffer can be written: on a read-only integer array the call raises but the array is left as float64 over the integer bit patterns ([1, 2, 3] becomes [4.9e-324, ...])", "a writeability test that raises before `<buffer>.dtype = ...`", norm(unguarded) if unguarded is not None else "", rid=r2)

    retype_guard(cfn, "convert_to_units")
    # convert_to_equivalent: final unit conversion after the in-place equivalence is the accepted idiom
    fn = arr.func("unyt_array.convert_to_equivalent")
    eff_calls = [c for c in ast.walk(fn.node) if isinstance(c, ast.Call) and isinstance(c.func, ast.Attribute) and c.func.attr == "convert" and c.args and norm(c.args[0]) == "self"]
    if len(eff_calls) != 1:
        raise AnalysisError(f"{fn.where()}: in-place equivalence call not found")
    cu = norm(eff_calls[0].args[1]).replace(".dimensions", "")

    class _EqEff(Effects):
        def writes(self2, node):
            yield from Effects.writes(self2, node)
            for c in ast.walk(node):
                if c is eff_calls[0]:
                    yield {"self"}, norm(c), c

    res.fn(fn)
    eff = _EqEff(fn)
    w = _RAW(fn, eff, {"self"}, RAISERS - {"convert_to_units"}, (), ())
    w.run(fn.body, [0])
    # after the write only `self.convert_to_units(<same conv unit>)` may follow
    later = [c for c in ast.walk(fn.node) if isinstance(c, ast.Call) and norm(c.func) == "self.convert_to_units" and c.lineno > eff_calls[0].lineno]
    ok = not w.violations and all([norm(a) for a in c.args] == [cu] for c in later)
    res.check(ok, "convert_to_equivalent", fn.where(), "after the in-place equivalence only the conversion to the unit whose dimension was requested may follow (cannot fail: C09-R2)", found=[norm(v[0])[:60] for v in w.violations], rid=r2)
    for m in ("convert_to_base", "convert_to_cgs", "convert_to_mks"):
        f = arr.func(f"unyt_array.{m}")
        res.fn(f)
        body = [s for s in f.body]
        ok = len(body) == 1 and isinstance(body[0], ast.Expr) and isinstance(body[0].value, ast.Call) and norm(body[0].value.func) == "self.convert_to_units"
        res.check(ok, m, f.where(), f"{m} only delegates to convert_to_units (argument evaluation precedes any write)", rid=r2)
    run(arr.func("unyt_array.__setitem__"), {"self"}, "__setitem__")
    # ndarray-method overrides with out=: the unit of the result is worked out (and possibly refused) before NumPy writes
    for m_ in ("dot", "take"):
        if arr.has_func(f"unyt_array.{m_}"):
            run(arr.func(f"unyt_array.{m_}"), {"out"}, f"method:{m_}", roots={"self", "out", "b", "indices"}, extra_alias={"out_view": {"out"}})
    # __array_ufunc__
    a = UfuncAnchors(repo)
    fn = a.fn
    retype = [n for n in ast.walk(ast.Module(body=a.pre, type_ignores=[])) if isinstance(n, ast.If) and "out.dtype.kind in" in norm(n.test)]
    accepted = []
    for r in retype:
        accepted += list(r.body)
    # also the early ==/!= return writes its *result* into out and returns (success path)
    # the unit rules refuse some operands (bit operations, roots / powers of offset temperatures, ...): a call that
    # dispatches to them may raise.  Derived from the source: some registered rule contains a raise, or applies a
    # Unit operator (which refuses offset units) to its argument.
    from rules.ufunc import registry as _ufunc_rules

    rule_names = {r for r, _ in _ufunc_rules(repo).values()}
    rules_may_raise = False
    for rn in rule_names:
        for rf in arr.funcs.get(rn, []):
            if any(isinstance(n, ast.Raise) for n in ast.walk(rf.node)) or any(isinstance(n, ast.BinOp) and isinstance(n.op, (ast.Pow, ast.Mult, ast.Div)) for n in ast.walk(rf.node)):
                rules_may_raise = True
    if not rules_may_raise:
        raise AnalysisError("no registered unit rule can refuse its operand any more: the refusal anchors moved")
    class _Pre:
        body = a.pre
        where = fn.where

    retype_guard(_Pre, "__array_ufunc__")
    dispatch_raisers = {"self._ufunc_registry[ufunc]", "unit_operator", "_apply_power_mapping"}
    run(fn, {"out"}, "__array_ufunc__", accepted_nodes=accepted, roots={"self", "out", "inputs"}, extra_alias={"out_func": {"out"}, "_out": {"out"}}, raisers=RAISERS | dispatch_raisers)
    # handlers with out= / destination
    helpers = module_helpers(repo)
    seen = set()
    for h in inventory(repo):
        d = set()
        for t in h.targets:
            if t in DEST_HANDLERS:
                d.add(DEST_HANDLERS[t])
        if "out" in h.fn.params:
            d.add("out")
        if not d:
            continue
        key = f"handler:{h.key}"
        fn = h.fn

        class _H(Effects):
            def writes(self2, node):
                yield from Effects.writes(self2, node)
                # the NumPy implementation writes into its first argument for the destination functions
                for c in ast.walk(node):
                    if isinstance(c, ast.Call) and isinstance(c.func, ast.Attribute) and c.func.attr == "_implementation" and c.args:
                        a0 = self2.alias_of(c.args[0])
                        if a0 & d - {"out"}:
                            yield a0, norm(c)[:60], c

        res.fn(fn)
        eff = _H(fn)
        w = _RAW(fn, eff, d, RAISERS, (), ())
        w.run(fn.body, [0])
        if w.violations:
            node, what = w.violations[0]
            res.bad(key, fn.where(node), f"{fn.name}: {what} after NumPy has already written into the destination", found=norm(node)[:100], rid=r2)
        else:
            res.ok(key, r2)
    for name in ("product_helper", "clip_impl"):
        for fn in helpers.get(name, []):
            res.fn(fn)
            eff = Effects(fn)
            w = _RAW(fn, eff, {"out"}, RAISERS, (), ())
            w.run(fn.body, [0])
            res.check(not w.violations, f"helper:{name}", fn.where(), f"{name}: validation after write", found=[norm(v[0])[:60] for v in w.violations], rid=r2)
    # relabel last (handlers): NumPy's implementation can refuse the call (shape / casting of out, index out of
    # bounds, ...) and then leaves out's numbers alone - so the unit of out is assigned only after that call, on every
    # path, whether the store is written in the handler or in a helper the out array is handed to
    afm = repo.mod(AF)
    labelers = {}
    for q, fns in afm.funcs.items():
        if "." in q:
            continue
        for f in fns:
            for n in walk_no_nested(f.node):
                if isinstance(n, ast.Assign):
                    for t in n.targets:
                        if isinstance(t, ast.Attribute) and t.attr == "units" and isinstance(t.value, ast.Name) and t.value.id in f.params:
                            labelers.setdefault(q, set()).add(f.params.index(t.value.id))
    n_label_sites = 0
    todo = [(f"handler:{h.key}", h.fn) for h in inventory(repo) if "out" in h.fn.params]
    todo += [(f"helper:{name}", fn) for name in ("product_helper", "clip_impl") for fn in helpers.get(name, [])]
    done = set()
    for key, fn in todo:
        if id(fn) in done:
            continue
        done.add(id(fn))
        eff = Effects(fn)

        def labels(node, _eff=eff, _fn=fn):
            out_ = []
            for n in ast.walk(node):
                if isinstance(n, ast.Assign):
                    for t in n.targets:
                        if isinstance(t, ast.Attribute) and t.attr == "units" and "out" in {a.split(".")[0] for a in _eff.alias_of(t.value)}:
                            out_.append(n)
                if isinstance(n, ast.Call) and isinstance(n.func, ast.Name) and n.func.id in labelers and n.func.id != _fn.name:
                    f2 = afm.funcs[n.func.id][0]
                    for i in labelers[n.func.id]:
                        arg = n.args[i] if i < len(n.args) else next((k.value for k in n.keywords if k.arg == f2.params[i]), None)
                        if arg is not None and "out" in {a.split(".")[0] for a in _eff.alias_of(arg)}:
                            out_.append(n)
            return out_

        def impl_calls(node):
            return [c for c in ast.walk(node) if isinstance(c, ast.Call) and isinstance(c.func, ast.Attribute) and c.func.attr == "_implementation"]

        early = None
        has_label = False
        for pth in enum_paths(fn.body, limit=20000):
            labelled = None
            for ev in pth:
                node = ev[1] if ev[0] in ("stmt", "cond", "return", "raise") and len(ev) > 1 and isinstance(ev[1], ast.AST) else None
                if node is None:
                    continue
                ls = labels(node)
                ic = impl_calls(node)
                if ic and (labelled is not None or ls):
                    early = early or (node, labelled if labelled is not None else ls[0])
                if ls:
                    has_label = True
                    labelled = labelled if labelled is not None else ls[0]
        if not has_label:
            continue
        n_label_sites += 1
        res.check(early is None, f"{key}:relabel-last", fn.where(early[0]) if early else fn.where(), f"{fn.name}: the out= array is given the result's unit before NumPy's implementation has run: when NumPy refuses the call (wrong shape or dtype of out, index out of bounds) out keeps its old numbers under the new unit", "out.units assigned after the NumPy call on every path", norm(early[1])[:100] if early else "", rid=r2)
    if n_label_sites < 6:
        raise AnalysisError(f"{AF}: only {n_label_sites} handlers that label an out= array were found (8 confirmed by hand)")


def inplace_twin(repo, res):
    r3 = res.rule("C18-R3", "convert_to_units and in_units obtain factor and offset from the same calls", floor=3)
    arr = repo.mod(ARR)
    a, b = arr.func("unyt_array.convert_to_units"), arr.func("unyt_array.in_units")

    uo_ = repo.mod("unyt/unit_object.py")

    def calls(fn, name):
        # arguments are compared as bindings to the callee's parameters, so that a keyword and the positional form of
        # the same call are one call
        out = []
        callee = (uo_.funcs.get(name) or arr.funcs.get(name) or uo_.funcs.get("Unit." + name) or [None])[0]
        for c in ast.walk(fn.node):
            if isinstance(c, ast.Call) and (norm(c.func) == name or norm(c.func).endswith("." + name)):
                if callee is not None:
                    from rules.common import bind_call

                    b_ = bind_call(c, callee, skip_self=callee.cls is not None)
                    out.append(norm(c.func) + "(" + ", ".join(f"{k}={norm(v) if isinstance(v, ast.AST) else v}" for k, v in sorted(b_.items())) + ")")
                else:
                    out.append(norm(c))
        return sorted(out)

    for name in ("_check_em_conversion", "_em_conversion", "get_conversion_factor", "_sanitize_units_convert"):
        ca, cb = calls(a, name), calls(b, name)
        res.check(ca == cb and len(ca) == 1, f"twin:{name}", a.where(), f"in-place and copying conversion must call {name} identically", cb, ca, rid=r3)
    # the in-place equivalence route is the copying route with `out` threaded through every step (C09-R4/R5)
    import rules.c09 as c09

    tmp = c09.check(repo)
    for f in tmp.findings:
        if f.rule in ("C09-R4", "C09-R5"):
            res.bad("equivalence:" + f.key.split("/", 1)[1], f.where, f.msg + " - the in-place form then raises or differs from the copying form after the target has been written", f.expected, f.found, rid=r3)
    n_ok = sum(tmp.rules[r]["discharged"] for r in ("C09-R4", "C09-R5") if r in tmp.rules)
    for i in range(min(n_ok, 1)):
        res.ok("equivalence:out-threading", r3)


MUTANTS = [
    Mutant("around-relabels-out-first", AF, "around", "    res = np.around._implementation(\n        np.asarray(a), decimals=decimals, out=np.asarray(out)\n    )\n    if getattr(out, \"units\", None) is not None:\n        out.units = ret_units\n", "    if getattr(out, \"units\", None) is not None:\n        out.units = ret_units\n    res = np.around._implementation(\n        np.asarray(a), decimals=decimals, out=np.asarray(out)\n    )\n", ("C18-R2",)),
    Mutant("product-helper-relabels-out-first", AF, "product_helper", "    res = func._implementation(np.asarray(a), np.asarray(b), out=np.asarray(out))\n    if getattr(out, \"units\", None) is not None:\n        out.units = prod_units\n", "    if getattr(out, \"units\", None) is not None:\n        out.units = prod_units\n    res = func._implementation(np.asarray(a), np.asarray(b), out=np.asarray(out))\n", ("C18-R2",)),
    Mutant("twin-around-relabel-hasattr", AF, "around", "    if getattr(out, \"units\", None) is not None:\n        out.units = ret_units\n    return unyt_array(res, ret_units, bypass_validation=True)", "    if hasattr(out, \"units\"):\n        out.units = ret_units\n    return unyt_array(res, ret_units, bypass_validation=True)", (), benign=True),
    Mutant("ufunc-out-retype-without-writeable-test", ARR, "unyt_array.__array_ufunc__", "                    if not out.flags.writeable:\n                        # refuse before the buffer is re-typed below\n                        raise ValueError(\"output array is read-only\")\n", "", ("C18-R2",)),
    Mutant("retype-without-writeable-test", ARR, "unyt_array.convert_to_units", "                if not values.flags.writeable:\n                    # refuse before the buffer is re-typed below\n                    raise ValueError(\"assignment destination is read-only\")\n", "", ("C18-R2",)),
    Mutant("result-class-looked-up-after-evaluation", ARR, "unyt_array.__array_ufunc__", "            ret_class = _get_binary_op_return_class(type(i0), type(i1))\n", "", ("C18-R2",), more=[(ARR, "unyt_array.__array_ufunc__", "            if unit_operator in (_multiply_units, _divide_units):\n                if unit.is_dimensionless and unit.base_value != 1.0:", "            ret_class = _get_binary_op_return_class(type(i0), type(i1))\n            if unit_operator in (_multiply_units, _divide_units):\n                if unit.is_dimensionless and unit.base_value != 1.0:", 1)]),
    Mutant("in_units-inplace-multiply", ARR, "unyt_array.in_units", "ret = np.asarray(self.ndview * conversion_factor, dtype=new_dtype)", "ret = self.ndview\n            ret *= conversion_factor", ("C18-R1",)),
    Mutant("in_units-subtract-into-view", ARR, "unyt_array.in_units", "np.subtract(ret, offset, ret)", "np.subtract(ret, offset, self.ndview)", ("C18-R1",)),
    Mutant("in_base-units-assigned", ARR, "unyt_array.in_base", "        return type(self)(ret, to_units)", "        self.units = to_units\n        return type(self)(ret, to_units)", ("C18-R1",)),
    Mutant("value-is-view", ARR, "unyt_array.to_value", "            v = self.value", "            v = self.d\n            v += 0", ("C18-R1",)),
    Mutant("unit-mul-mutates", UO, "Unit.__mul__", "        base_offset = 0.0\n        if self.base_offset or u.base_offset:", "        base_offset = 0.0\n        self.base_offset = 0.0\n        if self.base_offset or u.base_offset:", ("C18-R1",)),
    Mutant("handler-sorts-input", AF, "sort_complex", "return np.sort_complex._implementation(np.asarray(a)) * a.units", "np.asarray(a).sort()\n    return np.sort_complex._implementation(np.asarray(a)) * a.units", ("C18-R1",)),
    Mutant("handler-out-into-input", AF, "around", "decimals=decimals) * ret_units", "decimals=decimals, out=np.asarray(a)) * ret_units", ("C18-R1",)),
    Mutant("allclose-converts-inplace", ARR, "allclose_units", "        des = des.in_units(act.units)", "        des.convert_to_units(act.units)", ("C18-R1",)),
    Mutant("setitem-store-first", ARR, "unyt_array.__setitem__", "        if hasattr(value, \"units\"):", "        super().__setitem__(item, 0)\n        if hasattr(value, \"units\"):", ("C18-R2",)),
    Mutant("convert-units-before-factor", ARR, "unyt_array.convert_to_units", "        units = _sanitize_units_convert(units, self.units.registry)\n        if equivalence is None:", "        units = _sanitize_units_convert(units, self.units.registry)\n        self.name = None\n        self.units = units\n        units = _sanitize_units_convert(units, self.units.registry)\n        if equivalence is None:", ("C18-R2",)),
    Mutant("convert-relabels-first", ARR, "unyt_array.convert_to_units", "            values *= conv_factor\n", "            self.units = new_units\n            values *= conv_factor\n", ("C18-R2",)),
    Mutant("unary-evaluates-first", ARR, "unyt_array.__array_ufunc__", "            # evaluate the ufunc\n            out_arr = func(np.asarray(inp), out=out_func, **kwargs)\n", "", ("C18-R2",), more=[(ARR, "unyt_array.__array_ufunc__", "            # get unit of result first:", "            out_arr = func(np.asarray(inp), out=out_func, **kwargs)\n            # get unit of result first:", 1)]),
    Mutant("handler-validate-late", AF, "fill_diagonal", "    _validate_units_consistency_v2(a.units, val)\n    np.fill_diagonal._implementation(np.asarray(a), val, *args, **kwargs)", "    np.fill_diagonal._implementation(np.asarray(a), val, *args, **kwargs)\n    _validate_units_consistency_v2(a.units, val)", ("C18-R2", "C01-R4")),
    Mutant("twin-diverges", ARR, "unyt_array.convert_to_units", "(conv_factor, offset) = self.units.get_conversion_factor(\n                    new_units, self.dtype\n                )", "(conv_factor, offset) = self.units.get_conversion_factor(\n                    new_units\n                )", ("C18-R3",)),
    Mutant("as-coeff-unit-simplifies-self", UO, "Unit.as_coeff_unit", "self.expr.as_coeff_Mul()", "self.simplify().expr.as_coeff_Mul()", ("C18-R1",)),
    Mutant("out-alias-by-base", ARR, "unyt_array.__array_ufunc__", "if np.shares_memory(out_arr, out):", "if out_arr.base is out:", ("C18-R4",)),
    Mutant("new-hands-back-input", ARR, "unyt_array.__new__", "ret = input_array.view(cls)", "ret = input_array if type(input_array) is cls else input_array.view(cls)", ("C18-R5",)),
]
