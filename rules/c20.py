"""C20 - the unit-string interface is total, canonical and re-readable."""

from __future__ import annotations

import ast

from engine.core import AnalysisError, Repo, is_raise_of, kwarg_of, norm, walk_no_nested
from engine.flow import enum_paths, path_calls, path_facts
from engine.fold import Tables
from engine.mutate import Mutant
from engine.report import Result

TECHNIQUE = "closed-vocabulary rule on the parser tables and token transformer, exception-conversion (error discipline) rule on the parse and structural-walk steps with an Engler-style contradiction rule for the exponent test, printer/parser agreement over the folded name tables, who-persists-what rule"
LEVEL_TEXT = """Static: (R1) the evaluation namespace of the unit parser is exactly {Symbol, Integer, Float, Rational, sqrt}
bound to the sympy objects of those names, the transformation chain is (_auto_positive_symbol, auto_number, rationalize),
and the token transformer turns every NAME that is not one of those into a quoted Symbol(...) call on every path - so no
other name is ever evaluated; (R2) parse_expr runs inside try/except Exception -> UnitParseError, a non-Expr result is
rejected with UnitParseError, the structural walk ends in UnitParseError for anything but Number/Symbol/Pow/Mul and rejects
every exponent that is not a Number before it reaches float() (contradiction rule: rejecting only Symbol exponents leaves
other non-numeric exponents to raise TypeError); (R3) every string the printer special-cases (dimensionless,
(dimensionless), and the degree / delta-degree spellings) is, after the parser's own textual rewrites, a table symbol or
listed alias of exactly the unit it stands for; (R4) every persistence path stores str(units) and every reader feeds the
stored text to Unit().
(R2, extended) exception effects of the structural walk: a Python-float power of two Python numbers (OverflowError), float() of a power with a symbolic exponent (TypeError for complex results) and an index on the possibly empty symbol name (IndexError) must be guarded or converted to UnitParseError; (R3, extended) the text printed for the unit with expression 1 must parse to the expression 1 (known finding); (R4, extended) savetxt joins the unit texts of the header with white space, which is what loadtxt splits at."""
LEVEL_NOTE = """Undecided: print->parse identity on arbitrary output of sympy's printer (operator precedence, float
formatting) and behaviour on fuzzed strings inside sympy's tokenizer/parser (covered only by the catch-all conversion
rule)."""
EXPLANATION = LEVEL_TEXT
ASSUMPTIONS = ["sympy.parsing.sympy_parser.parse_expr evaluates only names present in global_dict/local_dict after the transformations"]

PAR = "unyt/_parsing.py"
UO = "unyt/unit_object.py"
US = "unyt/unit_systems.py"
ARR = "unyt/array.py"


def check(repo: Repo) -> Result:
    res = Result("C20")
    vocabulary(repo, res)
    exceptions(repo, res)
    printer_parser(repo, res)
    persistence(repo, res)
    from rules import c13, memo_rules

    r5 = res.rule("C20-R5", "a text denotes one unit per registry: the unit-string cache is filled only with units looked up in the registry's own table (never from text plus explicit values), and the table travelling with a pickle is complete", floor=5)
    for key, ok, where, msg, exp, found in memo_rules.explicit_values(repo):
        res.check(ok, key, where, msg + " - equivalent spellings of that text ('(Msun)', '1*Msun') then denote another unit than the text itself", exp, found, rid=r5)
    from rules.common import share

    share(res, r5, "C13", lambda t: c13.ownership(repo, t), ["C13-R1"], want=lambda k: k == "pickle:complete-table")

    from rules import c02

    r6 = res.rule("C20-R6", "the printed expression of a power denotes the unit that carries it: expression, scale and dimension of u**p are built from the same exponent (shared with C02-R3)", floor=3)
    share(res, r6, "C02", lambda t: c02.homomorphism(repo, t), ["C02-R3"], want=lambda k: k.startswith("__pow__:") or k.startswith("walk:"), min_keys=3)
    from rules import c05

    r7 = res.rule("C20-R7", "a unit read back from its text has the identical hash: Unit.__hash__ is a function of the registry's current contents id and the expression only - never a value remembered from an earlier registry state (shared with C05-R2)", floor=1)
    share(res, r7, "C05", lambda t: t.__dict__.update(c05.check(repo).__dict__), ["C05-R2"], want=lambda k: k == "hash-footprint")
    printer_reads_current_state(repo, res)
    text_goes_through_parser(repo, res)
    return res


def text_goes_through_parser(repo, res):
    """One text, one expression: the parser's rewrite chain is what makes 'um', '\u00b5m' and '\u03bcm' the same symbol and
    what gives every spelling its canonical form.  A text that reaches the expression by another route (Symbol(text) for
    strings that happen to be table keys, say) yields an expression the printer's output does not read back as."""
    from engine.flow import enum_paths

    r9 = res.rule("C20-R9", "every text handed to Unit() becomes an expression through parse_unyt_expr on every path that is not answered from the unit-string cache: no shortcut builds the expression from the raw text", floor=1)
    new = repo.mod(UO).func("Unit.__new__")
    res.fn(new)
    xp = new.params[1]
    arm = None
    for n in ast.walk(new.node):
        if isinstance(n, ast.If) and f"isinstance({xp}, (str, bytes))" in norm(n.test).replace("(bytes, str)", "(str, bytes)"):
            arm = n
            break
    if arm is None:
        raise AnalysisError(f"{new.where()}: the text arm of Unit.__new__ was not found")
    bad, n_paths = [], 0
    for p in enum_paths(arm.body):
        if p[-1][0] in ("raise", "return"):
            continue
        n_paths += 1
        last = None
        for ev in p:
            if ev[0] == "stmt" and isinstance(ev[1], ast.Assign) and any(norm(t) == xp for t in ev[1].targets):
                last = ev[1]
        if last is None or not (isinstance(last.value, ast.Call) and norm(last.value.func).split(".")[-1] == "parse_unyt_expr"):
            bad.append(norm(last) if last is not None else "no binding")
    if n_paths == 0:
        raise AnalysisError(f"{new.where(arm)}: no path through the text arm")
    res.check(not bad, "text-arm:parser-on-every-path", new.where(arm), "Unit.__new__ turns a text into an expression without the parser on some path: the canonicalising rewrites (micro sign, degree sign, Delta spellings, aliases) are skipped, so the same text no longer denotes the same expression as its printed form", f"{xp} = parse_unyt_expr({xp}) last on every path", sorted(set(bad))[:3], rid=r9)


def printer_reads_current_state(repo, res):
    """Unit.simplify (and any other method that re-binds self.expr) changes a unit in place, so text that was printed
    earlier is no longer the unit's text.  The printer therefore reads the expression itself; if it reads an instance
    attribute that methods fill in lazily (a memo of the text), every method that re-binds the expression must reset
    that attribute as well - otherwise str(u) names the expression u had when it was first printed, which reads back
    as another unit (different expression and hash)."""
    r8 = res.rule("C20-R8", "str / repr of a unit are computed from its current expression: an instance attribute the printer reads that is filled in outside __new__ (a memo of the text) is reset by every method that re-binds the expression", floor=1)
    uo = repo.mod(UO)
    meths = {q.split(".", 1)[1]: fns[0] for q, fns in uo.funcs.items() if q.startswith("Unit.") and q.count(".") == 1}
    if "__str__" not in meths or "__repr__" not in meths:
        raise AnalysisError(f"{UO}: Unit.__str__ / __repr__ not found")

    def attr_writes(f):
        me = f.params[0] if f.params else "self"
        out = set()
        for n in walk_no_nested(f.node):
            tgts = n.targets if isinstance(n, ast.Assign) else ([n.target] if isinstance(n, (ast.AugAssign, ast.AnnAssign)) else [])
            for t in tgts:
                for x in ast.walk(t):
                    if isinstance(x, ast.Attribute) and isinstance(x.value, ast.Name) and x.value.id == me and isinstance(x.ctx, ast.Store):
                        out.add(x.attr)
        return out

    closure, todo = set(), ["__str__", "__repr__"]
    while todo:
        m = todo.pop()
        if m in closure or m not in meths:
            continue
        closure.add(m)
        f = meths[m]
        me = f.params[0] if f.params else "self"
        for n in walk_no_nested(f.node):
            if isinstance(n, ast.Attribute) and isinstance(n.value, ast.Name) and n.value.id == me and n.attr in meths:
                todo.append(n.attr)
    reads = set()
    for m in closure:
        f = meths[m]
        res.fn(f)
        me = f.params[0] if f.params else "self"
        for n in walk_no_nested(f.node):
            if isinstance(n, ast.Attribute) and isinstance(n.value, ast.Name) and n.value.id == me and isinstance(n.ctx, ast.Load) and n.attr not in meths:
                reads.add(n.attr)
    if "expr" not in reads:
        raise AnalysisError(f"{UO}: the printer of Unit no longer reads self.expr")
    writers = {}
    for m, f in meths.items():
        if m == "__new__":
            continue
        for a_ in attr_writes(f):
            writers.setdefault(a_, set()).add(m)
    n_ob = 0
    for a_ in sorted(reads - {"expr"}):
        lazy = writers.get(a_, set())
        if not lazy:
            continue  # set once at construction
        for w in sorted(writers.get("expr", set())):
            n_ob += 1
            ok = a_ in attr_writes(meths[w])
            res.check(ok, f"printer:{a_}:reset-by:{w}", meths[w].where(), f"Unit.{w} re-binds self.expr but leaves self.{a_} as it is, and the printer ({', '.join(sorted(closure))}) answers from self.{a_} (filled in by {sorted(lazy)}): a unit printed once keeps printing the expression it had then - str(u) after u.{w}() reads back as a different unit", f"self.{a_} reset wherever self.expr is re-bound", sorted(attr_writes(meths[w])), rid=r8)
    if n_ob == 0:
        res.ok("printer-reads-current-expression", r8)


def vocabulary(repo, res):
    r1 = res.rule("C20-R1", "closed parser vocabulary and total token transformer", floor=6)
    mod = repo.mod(PAR)
    gd = mod.assign("global_dict")
    keys = {}
    if isinstance(gd, ast.Dict):
        for k, v in zip(gd.keys, gd.values):
            keys[k.value if isinstance(k, ast.Constant) else norm(k)] = mod.qual(v)
    want = {n: f"sympy.{n}" for n in ("Symbol", "Integer", "Float", "Rational", "sqrt")}
    res.check(keys == want, "global_dict", PAR, "the evaluation namespace must be exactly Symbol, Integer, Float, Rational, sqrt (sympy's)", want, keys, rid=r1)
    tt = mod.assign("unit_text_transform")
    got = [mod.qual(e) for e in tt.elts] if isinstance(tt, ast.Tuple) else None
    res.check(got == ["unyt._parsing._auto_positive_symbol", "sympy.parsing.sympy_parser.auto_number", "sympy.parsing.sympy_parser.rationalize"], "transformations", PAR, "the transformation chain must be (_auto_positive_symbol, auto_number, rationalize)", found=got, rid=r1)
    fn = mod.func("parse_unyt_expr")
    res.fn(fn)
    pe = [c for c in walk_no_nested(fn.node) if isinstance(c, ast.Call) and mod.qual(c.func) == "sympy.parsing.sympy_parser.parse_expr"]
    ok = len(pe) == 1
    if ok:
        c = pe[0]
        kws = {k.arg: norm(k.value) for k in c.keywords}
        ok = kws == {"global_dict": "global_dict", "transformations": "unit_text_transform"} and len(c.args) == 1
    res.check(ok, "parse_expr-call", fn.where(), "parse_expr must be called with the restricted global_dict and the unit transformations only (no local_dict)", found=norm(pe[0]) if pe else None, rid=r1)
    # token transformer
    tf = mod.func("_auto_positive_symbol")
    res.fn(tf)
    loops = [n for n in tf.body if isinstance(n, ast.For)]
    if len(loops) != 1 or not isinstance(loops[0].target, ast.Tuple):
        raise AnalysisError(f"{tf.where()}: token loop not found")
    lp = loops[0]
    from engine.sem import summarise

    tk = norm(lp.target.elts[0])
    sums = summarise(tf, body=lp.body, keep={tk, norm(lp.target.elts[1]), "result"})
    NAME = f"{tk}[0] == token.NAME"
    NM = f"{tk}[1]"
    vocab = lambda x: x.has(f"{NM} in global_dict", True) and (x.has(f"isinstance(global_dict[{NM}], (Basic, type))", True) or x.has(f"callable(global_dict[{NM}])", True))
    SYM = lambda name_expr: f"result.extend([(token.NAME, 'Symbol'), (token.OP, '('), (token.NAME, repr({name_expr})), (token.OP, ','), (token.NAME, 'positive'), (token.OP, '='), (token.NAME, 'True'), (token.OP, ')')])"
    ok = ok_other = ok_alias = True
    explicit_test = False
    n_pass = n_sym = n_other = 0
    seen_alias = seen_plain = False
    for x in sums:
        eff = [e for e in x.effects if e not in ("continue", "pass")]
        if x.has(NAME, False):
            n_other += 1
            ok_other &= eff == [f"result.append(({tk}[0], {tk}[1]))"]
        elif x.has(NAME, True) and vocab(x):
            n_pass += 1
            ok &= eff == [f"result.append((token.NAME, {NM}))"]
        elif x.has(NAME, True):
            n_sym += 1
            a_ = SYM(f"inv_name_alternatives[str({NM})]")
            p_ = SYM(f"str({NM})")
            ok &= eff in ([a_], [p_])
            seen_alias |= eff == [a_]
            seen_plain |= eff == [p_]
            # with an explicit membership test the plain spelling is used exactly when the name is not listed
            listed = x.has(f"str({NM}) in inv_name_alternatives", True)
            unlisted = x.has(f"str({NM}) in inv_name_alternatives", False)
            if listed or unlisted:
                explicit_test = True
                ok_alias &= (eff == [a_]) if listed else (eff == [p_])
        else:
            ok = False
    res.check(ok and n_pass >= 1 and n_sym >= 1, "transformer:names", tf.where(lp), "every NAME token is either a vocabulary name (bound in global_dict to a sympy class / callable) or is replaced by Symbol('<name>', positive=True); nothing else is emitted for a NAME", found=[(sorted(x.facts), x.effects) for x in sums][:2], rid=r1)
    res.check(ok_other and n_other >= 1, "transformer:other-tokens", tf.where(), "non-NAME tokens pass through unchanged", rid=r1)
    # alias lookup first, the name itself only when the lookup fails (KeyError handler)
    tr = [n for n in ast.walk(tf.node) if isinstance(n, ast.Try)]
    handler_ok = len(tr) == 1 and len(tr[0].handlers) == 1 and norm(tr[0].handlers[0].type) == "KeyError" and any("inv_name_alternatives[" in norm(x_) for x_ in ast.walk(ast.Module(body=tr[0].body, type_ignores=[])) if isinstance(x_, ast.Subscript))
    handler_ok = handler_ok or (explicit_test and ok_alias and not tr)
    res.check(seen_alias and seen_plain and handler_ok, "transformer:alias-map", tf.where(), "the symbol name is the canonical spelling from the alias map, else (KeyError) the name itself", found=(seen_alias, seen_plain, handler_ok), rid=r1)
    q = mod.imports.get("inv_name_alternatives")
    res.check(q == "unyt._unit_lookup_table.inv_name_alternatives", "transformer:alias-source", PAR, "aliases come from the generated inverse name table", found=q, rid=r1)


SYMPY_CLASSES = {"Number", "Symbol", "Pow", "Mul", "Expr", "Basic", "Rational", "Float", "Integer"}


def _operand_kinds(fn, lookup_name, binop):
    k = _kind_fn(fn, lookup_name)
    return (k(binop.left), k(binop.right))


def _python_float_powers(fn, lookup_name):
    """`a ** b` nodes of fn whose two operands are both inferred to be Python numbers"""
    kind = _kind_fn(fn, lookup_name)
    out = []
    for n in walk_no_nested(fn.node):
        if isinstance(n, ast.BinOp) and isinstance(n.op, ast.Pow) and kind(n.left) == "py" and kind(n.right) == "py":
            if isinstance(n.right, ast.Constant) and abs(n.right.value) <= 4:
                continue  # a small literal exponent cannot leave the range for the table's scales
            out.append(n)
    return out


def _kind_fn(fn, lookup_name):
    """kind(expr) -> 'py' | 'sympy' | 'row' | '?' for expressions of fn (see exceptions())"""
    sympy_names = set()
    for n in ast.walk(fn.node):
        if isinstance(n, ast.Call) and norm(n.func) == "isinstance" and len(n.args) == 2 and isinstance(n.args[0], ast.Name):
            cls = n.args[1]
            names = [norm(e) for e in cls.elts] if isinstance(cls, ast.Tuple) else [norm(cls)]
            if names and all(c.split(".")[-1] in SYMPY_CLASSES for c in names):
                sympy_names.add(n.args[0].id)
    defs = {}
    for n in walk_no_nested(fn.node):
        if isinstance(n, ast.Assign) and len(n.targets) == 1 and isinstance(n.targets[0], ast.Name):
            defs.setdefault(n.targets[0].id, []).append(n.value)
        elif isinstance(n, ast.AugAssign) and isinstance(n.target, ast.Name):
            defs.setdefault(n.target.id, []).append(ast.BinOp(left=ast.Name(id=n.target.id, ctx=ast.Load()), op=n.op, right=n.value))
    rows = {fn.name, lookup_name}

    def kind(e, depth=0):
        if depth > 6:
            return "?"
        if isinstance(e, ast.Constant):
            return "py" if isinstance(e.value, (int, float)) and not isinstance(e.value, bool) else "?"
        if isinstance(e, ast.Call):
            f = norm(e.func)
            if f in ("float", "int"):
                return "py"
            if f in rows:
                return "row"
            return "?"
        if isinstance(e, ast.Name):
            if e.id in sympy_names:
                return "sympy"
            if e.id in fn.params:
                return "?"
            ks = {kind(v, depth + 1) for v in defs.get(e.id, []) if not (isinstance(v, ast.BinOp) and isinstance(v.left, ast.Name) and v.left.id == e.id)}
            return ks.pop() if len(ks) == 1 else "?"
        if isinstance(e, ast.Subscript):
            b = kind(e.value, depth + 1)
            if b == "row" and isinstance(e.slice, ast.Constant):
                return "py" if e.slice.value == 0 else ("sympy" if e.slice.value == 1 else "?")
            if isinstance(e.value, ast.Attribute) and e.value.attr == "args" and kind(e.value.value, depth + 1) == "sympy":
                return "sympy"
            return "?"
        if isinstance(e, ast.BinOp):
            a, b = kind(e.left, depth + 1), kind(e.right, depth + 1)
            if "sympy" in (a, b):
                return "sympy"
            return "py" if a == b == "py" else "?"
        if isinstance(e, ast.UnaryOp):
            return kind(e.operand, depth + 1)
        return "?"

    return kind


def _caught_as_parse_error(fn, node, excs=("OverflowError", "ArithmeticError")):
    """node lies in the body of a try of fn with a handler for OverflowError (or a base class) that ends in
    `raise UnitParseError`"""
    for t in ast.walk(fn.node):
        if isinstance(t, ast.Try) and any(node is x for b in t.body for x in ast.walk(b)):
            for h in t.handlers:
                names = [] if h.type is None else ([norm(e) for e in h.type.elts] if isinstance(h.type, ast.Tuple) else [norm(h.type)])
                if (h.type is None or set(names) & (set(excs) | {"Exception", "BaseException"})) and h.body and is_raise_of(h.body[-1], "UnitParseError"):
                    return True
    return False


def exceptions(repo, res):
    r2 = res.rule("C20-R2", "every failure of the string interface is converted to UnitParseError", floor=7)
    mod = repo.mod(PAR)
    fn = mod.func("parse_unyt_expr")
    tries = [n for n in fn.body if isinstance(n, ast.Try)]
    ok = len(tries) == 1
    if ok:
        t = tries[0]
        inside = any(isinstance(c, ast.Call) and norm(c.func) == "parse_expr" for c in ast.walk(ast.Module(body=t.body, type_ignores=[])))
        h = t.handlers
        ok = inside and len(h) == 1 and h[0].type is not None and norm(h[0].type) == "Exception" and is_raise_of(h[0].body[-1], "UnitParseError") and not t.orelse
    res.check(ok, "parse:catch-all", fn.where(), "parse_expr must run inside try/except Exception that raises UnitParseError", rid=r2)
    # the textual rewrites happen before parsing
    from rules.c14 import rewrite_chain

    rew, _final = rewrite_chain(fn)
    res.check(("%", "percent") in rew and ("°", "deg") in rew, "parse:rewrites", fn.where(), "percent and degree signs are rewritten to names before parsing", found=rew, rid=r2)
    uo = repo.mod(UO)
    new = uo.func("Unit.__new__")
    res.fn(new)
    chk = [n for n in new.body if isinstance(n, ast.If) and norm(n.test) == "not isinstance(unit_expr, Expr)"]
    res.check(len(chk) == 1 and is_raise_of(chk[0].body[0], "UnitParseError"), "new:non-expr", new.where(), "a parse result that is not a sympy Expr is rejected with UnitParseError", rid=r2)
    # the string branch goes through parse_unyt_expr
    sb = [n for n in ast.walk(new.node) if isinstance(n, ast.Assign) and norm(n.value) == "parse_unyt_expr(unit_expr)"]
    res.check(len(sb) == 1, "new:string-route", new.where(), "strings are parsed by parse_unyt_expr", rid=r2)
    bv = [n for n in ast.walk(new.node) if isinstance(n, ast.Try) and any("float(base_value)" in norm(s) for s in n.body)]
    res.check(len(bv) == 1 and all(is_raise_of(h.body[-1], "UnitParseError") for h in bv[0].handlers), "new:base_value", new.where(), "a base_value that is not a float raises UnitParseError", rid=r2)
    # bytes are decoded before parsing: bytes.decode raises UnicodeDecodeError on invalid input
    dec = [c for c in walk_no_nested(new.node) if isinstance(c, ast.Call) and isinstance(c.func, ast.Attribute) and c.func.attr == "decode"]
    esc = [c for c in dec if not _caught_as_parse_error(new, c, ("UnicodeDecodeError", "UnicodeError", "ValueError"))]
    res.check(not esc, "new:bytes-decode", new.where(esc[0]) if esc else new.where(), "Unit.__new__ decodes a bytes argument outside any handler: Unit(b'\\xff') raises UnicodeDecodeError instead of UnitParseError", "try/except UnicodeDecodeError -> UnitParseError (or no decoding)", [norm(c) for c in esc], rid=r2)
    walk = uo.func("_get_unit_data_from_expr")
    res.fn(walk)
    e = walk.params[0]
    ok = True
    n = 0
    for p in enum_paths(walk.body):
        fm = dict((t, tr) for t, tr, _ in path_facts(p))
        arms = [fm.get(f"isinstance({e}, {c})") for c in ("Number", "Symbol", "Pow", "Mul")]
        if all(a is False for a in arms):
            n += 1
            ok &= p[-1][0] == "raise" and is_raise_of(p[-1][1], "UnitParseError")
    res.check(ok and n >= 1, "walk:fall-through", walk.where(), "an expression that is not Number/Symbol/Pow/Mul must raise UnitParseError", rid=r2)
    pw = [n for n in walk.body if isinstance(n, ast.If) and norm(n.test) == f"isinstance({e}, Pow)"]
    if len(pw) != 1:
        raise AnalysisError(f"{walk.where()}: Pow arm not found")
    guards = [n for n in pw[0].body if isinstance(n, ast.If) and is_raise_of(n.body[0], "UnitParseError")]
    gt = [norm(g.test) for g in guards]
    total = any(t in ("not isinstance(power, Number)", "not power.is_Number", "not isinstance(power, (Number,))") for t in gt)
    floats = [c for c in ast.walk(pw[0]) if isinstance(c, ast.Call) and norm(c.func) == "float"]
    first_float = min((c.lineno for c in floats), default=10**9)
    before = any(g.lineno < first_float for g in guards)
    res.check(total and before, "walk:exponent", walk.where(pw[0]), "the Pow arm converts `base ** power` with float(): a non-numeric exponent that is not a bare Symbol (e.g. m**(2*s)) reaches float() and raises TypeError instead of UnitParseError (the arm checks Symbol exponents, so it believes exponents can be non-numeric)", "reject every exponent that is not a Number before float()", gt, rid=r2)
    from rules.anchors import lookup_symbol

    lk = lookup_symbol(repo)
    res.check(is_raise_of(lk.body[-1], "UnitParseError"), "lookup:unknown", lk.where(), "an unknown symbol raises UnitParseError", rid=r2)
    # exception effects of the walk's arithmetic: a power of two *Python* floats raises OverflowError once the result
    # leaves the double range (1000.0 ** 400.0), whereas a power with a sympy operand saturates to oo/0.  Kinds are
    # inferred from the source: float()/number literals are Python numbers, names tested with isinstance against
    # sympy's classes and their .args are sympy objects, element 0 of what the walk / the table lookup return is a
    # Python float (their returns say so).  Such a power must sit inside a try that turns the error into
    # UnitParseError - in the walk or around its call in Unit.__new__.
    py_pows = _python_float_powers(walk, lk.name)
    escaping = []
    for node in py_pows:
        if not (_caught_as_parse_error(walk, node) or all(_caught_as_parse_error(new, c) for c in ast.walk(new.node) if isinstance(c, ast.Call) and norm(c.func) == walk.name)):
            escaping.append(norm(node))
    # float(<py> ** <sympy>): a negative base with a fractional exponent gives a complex sympy number, and float() of
    # that raises TypeError ("Cannot convert complex to float") - Unit('(-8)**(1/3)')
    cplx = []
    for c in walk_no_nested(walk.node):
        if isinstance(c, ast.Call) and norm(c.func) == "float" and len(c.args) == 1 and isinstance(c.args[0], ast.BinOp) and isinstance(c.args[0].op, ast.Pow):
            kinds = _operand_kinds(walk, lk.name, c.args[0])
            if "sympy" in kinds and not (_caught_as_parse_error(walk, c, ("TypeError",)) or all(_caught_as_parse_error(new, c2, ("TypeError",)) for c2 in ast.walk(new.node) if isinstance(c2, ast.Call) and norm(c2.func) == walk.name)):
                cplx.append(c)
    res.check(not cplx, "walk:complex-power", walk.where(cplx[0]) if cplx else walk.where(), "float() of a power with a symbolic exponent is not protected: a negative number raised to a fractional power is complex and float() raises TypeError instead of UnitParseError - Unit('(-8)**(1/3)')", "try/except TypeError -> UnitParseError around the conversion", [norm(c) for c in cplx][:2], rid=r2)
    # name[<int>] on a symbol name: the parser's vocabulary contains Symbol, so Symbol('') reaches the lookup with an
    # empty name; an index (unlike a slice) raises IndexError on it
    from engine.flow import enum_paths as _ep

    idx = []
    for f in (lk, repo.mod(US).func("_split_prefix")):
        res.fn(f)
        sp = f.params[0]
        for n in walk_no_nested(f.node):
            if isinstance(n, ast.Subscript) and isinstance(n.value, ast.Name) and n.value.id == sp and isinstance(n.ctx, ast.Load) and not isinstance(n.slice, ast.Slice):
                if isinstance(n.slice, ast.Constant) and isinstance(n.slice.value, int):
                    guarded = any(isinstance(i_, ast.If) and norm(i_.test) in (sp, f"len({sp}) > 0", f"{sp} != ''", f"len({sp})") and any(n is y for b in i_.body for y in ast.walk(b)) for i_ in ast.walk(f.node))
                    early = any(isinstance(i_, ast.If) and norm(i_.test) in (f"not {sp}", f"len({sp}) == 0", f"{sp} == ''") and isinstance(i_.body[-1], (ast.Return, ast.Raise)) and i_.lineno < n.lineno for i_ in f.body)
                    if not (guarded or early):
                        idx.append((f, n))
    res.check(not idx, "lookup:index-on-empty-name", idx[0][0].where(idx[0][1]) if idx else lk.where(), "the symbol name is indexed without a guard: Unit(\"Symbol('')\") reaches the lookup with an empty name and IndexError escapes instead of UnitParseError", "a slice (name[:1]) or an emptiness test before the index", [norm(n) for _, n in idx], rid=r2)
    res.check(not escaping, "walk:python-power", walk.where(py_pows[0]) if py_pows else walk.where(), "the structural walk raises a Python float to a Python float power outside any try: Unit('km**400') lets OverflowError escape instead of succeeding or raising UnitParseError", "a power with a sympy operand (saturates), or an except clause converting the error to UnitParseError", escaping[:3], rid=r2)


def printer_parser(repo, res):
    r3 = res.rule("C20-R3", "every string the printer special-cases is read back by the parser as the unit it stands for", floor=6)
    t = Tables(repo)
    uo = repo.mod(UO)
    par = repo.mod(PAR).func("parse_unyt_expr")
    # the parser's textual rewrites, in order
    rewrites = []
    for n in par.body:
        if isinstance(n, ast.Assign) and isinstance(n.value, ast.Call) and isinstance(n.value.func, ast.Attribute) and n.value.func.attr == "replace":
            a = n.value.args
            if len(a) == 2 and all(isinstance(x, ast.Constant) for x in a):
                rewrites.append((a[0].value, a[1].value))
    alias = t.alias_to_canonical()

    def reads_as(text):
        for a, b in rewrites:
            text = text.replace(a, b)
        text = text.strip()
        while text.startswith("(") and text.endswith(")"):
            text = text[1:-1]
        if text in t.lut:
            return text
        if text in alias:
            return alias[text]
        return None

    cases = []
    for meth in ("__str__", "__repr__"):
        fn = uo.func(f"Unit.{meth}")
        res.fn(fn)
        for p in enum_paths(fn.body):
            end = p[-1]
            if end[0] == "return" and isinstance(end[1].value, ast.Constant) and isinstance(end[1].value.value, str):
                facts = [(tx, tr) for tx, tr, _ in path_facts(p) if tr]
                cases.append((meth, end[1].value.value, facts[-1][0] if facts else "", fn.where(end[1])))
            elif end[0] == "return" and isinstance(end[1].value, ast.Call) and isinstance(end[1].value.func, ast.Attribute) and end[1].value.func.attr == "get":
                # special cases kept in a mapping: {table symbol: printed text}.get(text, text)
                d = end[1].value.func.value
                if isinstance(d, ast.Name) and d.id in uo.assigns:
                    d = uo.assigns[d.id][-1]
                if isinstance(d, ast.Dict) and all(isinstance(k, ast.Constant) and isinstance(v, ast.Constant) for k, v in zip(d.keys, d.values)):
                    for k, v in zip(d.keys, d.values):
                        cases.append((meth, v.value, f"unit_str == {k.value!r}", fn.where(end[1])))
    for meth, lit, cond, where in cases:
        # which unit does the special case stand for?
        stands = None
        if cond == "self.expr == sympy_one":
            stands = "dimensionless"
        elif cond.startswith("unit_str == "):
            stands = ast.literal_eval(cond[len("unit_str == "):])
        if stands is None:
            raise AnalysisError(f"{where}: cannot tell which unit the literal {lit!r} stands for ({cond})")
        if cond == "self.expr == sympy_one" and meth == "__str__":
            # ... and to the *identical expression and hash*: the unit printed here has the expression 1; the text is
            # read back as the Symbol of that name unless the parser turns the name into the number one
            rewritten = lit
            for a_, b_ in rewrites:
                rewritten = rewritten.replace(a_, b_)
            res.check(rewritten.strip() in ("1", "1.0", ""), f"{meth}:{lit}:expression", where, f"str() of the unit whose expression is 1 is {lit!r}; the parser reads that name as the symbol {rewritten!r} of the table, an equal unit with a different expression: hash(Unit()) != hash(Unit(str(Unit()))), so the text persisted for a dimensionless array does not rebuild the identical unit", "text that parses to the expression 1", f"Symbol({rewritten!r})", rid=r3)
        got = reads_as(lit)
        res.check(got == stands, f"{meth}:{lit}", where, f"{meth} prints {stands!r} as {lit!r}, which the parser reads as {got!r}: text written by savetxt / pickle / HDF5 for this unit cannot be read back", stands, got, rid=r3)


def persistence(repo, res):
    r4 = res.rule("C20-R4", "persistence paths store str(units); readers rebuild the unit from that text", floor=5)
    arr = repo.mod(ARR)
    for q, pat in (("unyt_array.write_hdf5", "str(self.units)"), ("unyt_array.__reduce__", "str(self.units)"), ("savetxt", "str(array.units)")):
        fn = arr.func(q)
        res.fn(fn)
        calls = [norm(c) for c in ast.walk(fn.node) if isinstance(c, ast.Call)]
        res.check(pat in calls, f"writer:{q}", fn.where(), f"{q} must persist the unit as {pat}", found=[c for c in calls if "units" in c][:4], rid=r4)
    from engine.pat import find_all
    from engine.sem import summarise

    fn = arr.func("unyt_array.__setstate__")
    res.fn(fn)
    st = fn.params[1]
    effs = [e for x in summarise(fn) for e in x.effects]
    res.check(any(e.startswith(f"self.units = Unit({st}[0][0], registry=") for e in effs), "reader:__setstate__", fn.where(), "unpickling parses the stored unit text (first field of the prepended pair) in the restored registry", found=[e for e in effs if "self.units" in e], rid=r4)
    fn = arr.func("unyt_array.from_hdf5")
    b = find_all(fn.node, ["__u = __d.attrs.get('units', '')", "cls(__data, __u, registry=__r)"])
    res.check(b is not None, "reader:from_hdf5", fn.where(), "from_hdf5 rebuilds the array from the stored unit text in the stored registry", rid=r4)
    fn = arr.func("loadtxt")
    # each column is wrapped with the unit text found in the header line for that column
    b = find_all(fn.node, ["unyt_array(__col, __unit)"])
    res.check(b is not None, "reader:loadtxt", fn.where(), "loadtxt attaches the unit text of each column", rid=r4)
    # writer / reader agreement on how the unit line is tokenised: loadtxt cuts it at white space (str.split without
    # argument), so savetxt must join the unit texts with white space - a separator taken from `delimiter` (",") makes
    # the whole line one word, the column count no longer matches and every column silently comes back dimensionless
    sv = arr.func("savetxt")
    joins = [c for c in ast.walk(sv.node) if isinstance(c, ast.Call) and isinstance(c.func, ast.Attribute) and c.func.attr == "join" and len(c.args) == 1]
    unit_joins = []
    for c in joins:
        arg = c.args[0]
        names = {x.id for x in ast.walk(arg) if isinstance(x, ast.Name)}
        # the joined sequence holds the unit texts: it is (or is built from) the list the str(x.units) texts go into
        holds_units = any(
            isinstance(st, ast.Call) and isinstance(st.func, ast.Attribute) and st.func.attr == "append" and norm(st.func.value) in names and "units" in norm(st.args[0] if st.args else st)
            for st in ast.walk(sv.node)
        ) or any(isinstance(st, ast.Assign) and norm(st.targets[0]) in names and isinstance(st.value, ast.ListComp) and ".units" in norm(st.value) for st in ast.walk(sv.node)) or ".units" in norm(arg)
        if holds_units:
            unit_joins.append(c)
    if len(unit_joins) != 1:
        raise AnalysisError(f"{sv.where()}: the join that builds the unit line of the header was not found")
    sep = unit_joins[0].func.value
    splits = [c for c in ast.walk(fn.node) if isinstance(c, ast.Call) and isinstance(c.func, ast.Attribute) and c.func.attr == "split"]
    ws_split = [c for c in splits if not c.args and not c.keywords]
    if isinstance(sep, ast.Constant) and isinstance(sep.value, str):
        ok = sep.value != "" and sep.value.strip() == "" and bool(ws_split)
        found = repr(sep.value)
    else:
        # a computed separator: fine only if the reader cuts the unit line with the very same expression
        ok = any(c.args and norm(c.args[0]) == norm(sep) and "words" not in norm(c) for c in splits) and False
        found = norm(sep)
    # np.savetxt writes every header line as <comments><line>; loadtxt recognises the marker line by
    # `words == [<comments>, "Units"]` and takes words[1:] of the next line: both lines must therefore start with
    # white space of their own, otherwise a marker without a trailing blank ("#", "%") glues to the first word
    lits = [c for c in ast.walk(sv.node) if isinstance(c, ast.Constant) and isinstance(c.value, str) and "Units" in c.value and c is not getattr(ast.get_docstring, "x", None)]
    doc = ast.get_docstring(sv.node, clean=False)
    lits = [c for c in lits if c.value != doc]
    import re as _re

    res.check(len(lits) == 1 and _re.fullmatch(r"\s+Units\n\s+", lits[0].value) is not None, "savetxt:header-blanks", sv.where(lits[0]) if lits else sv.where(), "the marker line and the unit line of the header must each begin with white space: loadtxt splits `<comments> Units` into two words, and with a comment marker that has no trailing blank (comments='#', '%') the marker line is not recognised and every column comes back dimensionless", "' Units\\n ' (blank before Units, blank at the start of the unit line)", [c.value for c in lits], rid=r4)
    res.check(ok, "savetxt:unit-line-separator", sv.where(unit_joins[0]), "the unit texts of the header are joined with something loadtxt does not split at (it cuts the unit line at white space): with that separator the units of all columns are lost on reading", "a white-space literal", found, rid=r4)
    # no process-global memo between the stored text and the unit rebuilt from it
    from rules import memo_rules

    io = {"unyt_array.__setstate__", "unyt_array.__reduce__", "unyt_array.from_hdf5", "unyt_array.write_hdf5", "loadtxt", "savetxt", "Unit.__new__", "parse_unyt_expr", "Unit.__str__", "Unit.__repr__"}
    n_m = 0
    for key, ok, where, msg, exp, found in memo_rules.calltime_globals(repo, only_functions=io):
        n_m += 1
        res.check(ok, "io:" + key, where, msg + " - the text read back then denotes a unit other than the one written", exp, found, rid=r4)
    if not n_m:
        res.ok("io-keeps-no-global-state", r4)


MUTANTS = [
    Mutant("printer-answers-from-memo", UO, "Unit.__str__", "        unit_str = self.expr.__str__()\n", "        if self._latex_repr is None:\n            self._latex_repr = self.expr.__str__()\n        unit_str = self._latex_repr\n", ("C20-R8",)),
    Mutant("table-keys-skip-parser", UO, "Unit.__new__", "            unit_expr = parse_unyt_expr(unit_expr)\n", "            if registry and unit_expr in registry.lut:\n                unit_expr = Symbol(unit_expr, positive=True)\n            else:\n                unit_expr = parse_unyt_expr(unit_expr)\n", ("C20-R9",)),
    Mutant("vocab-extended", PAR, None, '    "sqrt": sqrt,\n}', '    "sqrt": sqrt,\n    "eval": eval,\n}', ("C20-R1",)),
    Mutant("transform-dropped", PAR, None, "unit_text_transform = (_auto_positive_symbol, auto_number, rationalize)", "unit_text_transform = (auto_number, rationalize)", ("C20-R1",)),
    Mutant("names-pass-through", PAR, "_auto_positive_symbol", "                if isinstance(obj, (Basic, type)) or callable(obj):\n", "                if True:\n", ("C20-R1",)),
    Mutant("local-dict-added", PAR, "parse_unyt_expr", "unit_expr, global_dict=global_dict, transformations=unit_text_transform", "unit_expr, local_dict=globals(), global_dict=global_dict, transformations=unit_text_transform", ("C20-R1",)),
    Mutant("catch-narrowed", PAR, "parse_unyt_expr", "    except Exception as e:", "    except SyntaxError as e:", ("C20-R2",)),
    Mutant("non-expr-accepted", UO, "Unit.__new__", "        if not isinstance(unit_expr, Expr):", "        if False:", ("C20-R2",)),
    Mutant("walk-returns-default", UO, "_get_unit_data_from_expr", '    raise UnitParseError(\n        f"Cannot parse for unit data from', '    return (1.0, sympy_one)\n    raise UnitParseError(\n        f"Cannot parse for unit data from', ("C20-R2",)),
    Mutant("printer-new-special-case", UO, "Unit.__str__", '        if unit_str == "degF":\n            return "°F"', '        if unit_str == "degF":\n            return "℉"', ("C20-R3",)),
    Mutant("degree-rewrite-dropped", PAR, "parse_unyt_expr", '    unit_expr = unit_expr.replace("°", "deg")\n', "", ("C20-R3", "C20-R2")),
    Mutant("pickle-stores-repr", ARR, "unyt_array.__reduce__", "str(self.units), self.units.registry.lut", "self.units.latex_repr, self.units.registry.lut", ("C20-R4",)),
    Mutant("walk-python-power", UO, "_get_unit_data_from_expr", "conv = float(unit_data[0] ** power)", "conv = unit_data[0] ** float(power)", ("C20-R2",)),
    Mutant("walk-python-power-guarded", UO, "_get_unit_data_from_expr", "            conv = float(unit_data[0] ** power)\n        except TypeError:", "            conv = unit_data[0] ** float(power)\n        except (TypeError, OverflowError):", (), benign=True),
    Mutant("complex-power-unprotected", UO, "_get_unit_data_from_expr", "        except TypeError:\n", "        except KeyError:\n", ("C20-R2",)),
    Mutant("prefix-split-indexes-name", US, "_split_prefix", "possible_prefix = symbol_str[:1]", "possible_prefix = symbol_str[0]", ("C20-R2",)),
    Mutant("prefix-split-guarded-index", US, "_split_prefix", "    possible_prefix = symbol_str[:1]\n", "    if not symbol_str:\n        return \"\", symbol_str\n    possible_prefix = symbol_str[0]\n", (), benign=True),
    Mutant("walk-double-cast", UO, "_get_unit_data_from_expr", "conv = float(unit_data[0] ** power)", "conv = float(float(unit_data[0]) ** power)", (), benign=True),
    Mutant("header-joined-by-delimiter", ARR, "savetxt", '"\\t".join(units)', "delimiter.join(units)", ("C20-R4",)),
    Mutant("header-joined-by-space", ARR, "savetxt", '"\\t".join(units)', '" ".join(units)', (), benign=True),
    Mutant("header-without-blanks", ARR, "savetxt", 'header += " Units\\n " + ', 'header += "Units\\n" + ', ("C20-R4",)),
    Mutant("bypass-branch-text-with-values", ARR, "unyt_array.__new__", "                    input_units.expr,\n", "                    str(input_units),\n", ("C20-R5",)),
    Mutant("pow-scale-from-unrounded-exponent", UO, "Unit.__pow__", "base_value=(self.base_value**p)", "base_value=(self.base_value ** (2 * p))", ("C20-R6",)),
]
