"""C16 - scalars are quantities, arrays are arrays, views stay attached to their data."""

from __future__ import annotations

import ast

from engine.core import AnalysisError, Repo, is_raise_of, kwarg_of, norm, walk_no_nested
from engine.effects import Effects
from engine.flow import enum_paths, path_facts
from engine.mutate import Mutant
from engine.report import Result

TECHNIQUE = "class-selection-by-shape rule over every site that wraps a computed result, alias/fresh classification (may-alias analysis) of accessors and constructors, metadata rule for indexing"
LEVEL_TEXT = """Static: (R1) every site that wraps a computed result in a unyt class chooses the class from the result's shape:
the ufunc wrap-up (shape () -> unyt_quantity, one element -> unyt_array, a quantity return class is replaced by unyt_array
for larger results), __getitem__, Unit.__mul__ with data, the einsum/take handlers, from_astropy/from_pint and the
deprecated unorm/udot; unyt_quantity.__new__ refuses more than one element, which backstops every other site; (R2) the
unit-stripping accessors are classified by a may-alias analysis: d / ndview / ndarray_view() return views of self, v /
value / to_ndarray() / copy() / to_value() return fresh arrays, the constructor wraps ndarray and unyt_array input as a view,
Unit * data copies the data, and a list of quantities in mixed units is coerced by converting every element into the
first element's unit; (R3) indexing and views keep units and name.
(R4) converting calls build their result from a product with the conversion factor on every path (shared with C03-R2).
(R5) results NumPy creates from a template of the operand's class (functions without a handler, ndarray methods such as repeat):
the only package code that runs is __array_finalize__, which re-classes a unyt_quantity instance with more than one element to
unyt_array on every path and never a 0-d one (decision table over abstract shapes (), (0,), (1,), (2,), (2,2))."""
LEVEL_NOTE = """Undecided: shapes produced by NumPy for functions unyt does not wrap; 0-d unyt_array results of template-created
functions (np.squeeze of a one-element array) - the constructor itself builds 0-d unyt_arrays on request, so a promotion in the
hook would change documented behaviour; one-element quantities of shape (1,) (q.ravel()) are not multi-element. Noted, not a rule instance: handlers with
out= return unyt_array(res, ...) unconditionally (np.dot(a, b, out=<0-d>) yields a 0-d unyt_array, which is not a
multi-element quantity and therefore not excluded by the statement's 'never a multi-element quantity' clause but is a 0-d
non-quantity)."""
EXPLANATION = LEVEL_TEXT
ASSUMPTIONS = ["ndarray.view / np.asarray alias their input; np.array / np.copy allocate"]

ARR = "unyt/array.py"
UO = "unyt/unit_object.py"
AF = "unyt/_array_functions.py"


def check(repo: Repo) -> Result:
    res = Result("C16")
    wrapping(repo, res)
    accessors(repo, res)
    metadata(repo, res)
    from rules import c03, c18
    from rules.common import share

    r4 = res.rule("C16-R4", "converting calls (to / in_units / in_base ...) build their result from a product with the conversion factor on every path - a fresh buffer, never a view of the input", floor=3)
    share(res, r4, "C03", lambda t: c03.apply_idiom(repo, t), ["C03-R2"], want=lambda k: k in ("in_units", "in_units:result", "in_base", "in_base:result"), min_keys=3)
    return res


def wrapping(repo, res):
    r1 = res.rule("C16-R1", "class selection by shape at every wrapping site; unyt_quantity refuses more than one element", floor=10)
    arr = repo.mod(ARR)
    fn = arr.func("unyt_array.__array_ufunc__")
    res.fn(fn)
    chain = None
    for st in fn.body:
        if isinstance(st, ast.If) and norm(st.test) == "unit is None":
            chain = st
    if chain is None:
        raise AnalysisError(f"{fn.where()}: wrap-up chain not found")
    arms = []
    cur = chain
    while True:
        arms.append((norm(cur.test), cur.body))
        if len(cur.orelse) == 1 and isinstance(cur.orelse[0], ast.If):
            cur = cur.orelse[0]
        else:
            arms.append(("else", cur.orelse))
            break
    d = {t: b for t, b in arms}
    order = [t for t, _ in arms]
    ok = "out_arr.shape == ()" in d and [norm(s) for s in d["out_arr.shape == ()"]] == ["out_arr = unyt_quantity(np.asarray(out_arr), unit)"]
    res.check(ok, "ufunc:0-d", fn.where(chain), "a 0-d ufunc result with units must become a unyt_quantity", rid=r1)
    ok = "out_arr.size == 1" in d and [norm(s) for s in d["out_arr.size == 1"]] == ["out_arr = unyt_array(np.asarray(out_arr), unit)"] and order.index("out_arr.shape == ()") < order.index("out_arr.size == 1")
    res.check(ok, "ufunc:size-1", fn.where(chain), "a one-element, non-scalar result is a unyt_array (tested after the 0-d case)", rid=r1)
    qa = d.get("issubclass(ret_class, unyt_quantity)", [])
    el = d.get("else", [])
    ok = [norm(s) for s in qa] == ["out_arr = unyt_array(out_arr, unit)"] and [norm(s) for s in el] == ["out_arr = ret_class(out_arr, unit, bypass_validation=True)"] and order.index("out_arr.size == 1") < order.index("issubclass(ret_class, unyt_quantity)")
    res.check(ok, "ufunc:many", fn.where(chain), "for larger results a quantity return class must be replaced by unyt_array (bypass_validation would skip the size check)", rid=r1)
    # every arm of the wrap-up chain that builds results with the operands' class (`ret_class(...)`): the class is known
    # not to be a quantity there - either the arm is reached only after `issubclass(ret_class, unyt_quantity)` failed, or
    # the arm itself replaces a quantity class by unyt_array first.  ret_class is unyt_quantity for ndarray <op> quantity
    # and quantity <op> array, whatever the shape of the result (divmod(np.arange(3.), 2*m)).
    seen_q_test = False
    n_sites = 0
    for t_, body_ in arms:
        if t_ == "issubclass(ret_class, unyt_quantity)":
            seen_q_test = True
            continue
        safe = seen_q_test and t_ == "else"
        for st_ in body_:
            if isinstance(st_, ast.If) and norm(st_.test) == "issubclass(ret_class, unyt_quantity)" and [norm(x) for x in st_.body] == ["ret_class = unyt_array"] and not st_.orelse:
                safe = True
                continue
            calls_ = [c for c in ast.walk(st_) if isinstance(c, ast.Call) and norm(c.func) == "ret_class"]
            if not calls_:
                continue
            n_sites += 1
            res.check(safe, f"ufunc:ret-class-not-quantity:{t_[:40]}", fn.where(st_), f"the arm `{t_}` of the wrap-up wraps results in ret_class although ret_class may be unyt_quantity (ndarray <op> quantity, quantity <op> array): a result with more than one element is refused with RuntimeError or, for one element, returned as a quantity", "ret_class replaced by unyt_array when it is a quantity class", norm(st_)[:100], rid=r1)
            if t_.startswith("ufunc in"):
                # several outputs (modf, divmod): each 0-d output is a quantity
                has0d = any(isinstance(x, ast.IfExp) and norm(x.test).endswith(".shape == ()") and isinstance(x.body, ast.Call) and norm(x.body.func) == "unyt_quantity" for x in ast.walk(st_))
                res.check(has0d, "ufunc:tuple-0-d", fn.where(st_), "each 0-d output of a multi-output ufunc (modf, divmod) with units must become a unyt_quantity", "unyt_quantity(...) if o.shape == () else ...", norm(st_)[:100], rid=r1)
    if n_sites < 2:
        raise AnalysisError(f"{fn.where(chain)}: fewer than two ret_class(...) wrapping sites in the wrap-up chain")
    # unyt_quantity.__new__ guard
    q = arr.func("unyt_quantity.__new__")
    res.fn(q)
    g = [n for n in q.body if isinstance(n, ast.If) and norm(n.test) == "ret.size > 1"]
    ok = len(g) == 1 and is_raise_of(g[0].body[0], "RuntimeError")
    rets = [n for n in q.body if isinstance(n, ast.Return)]
    ok = ok and len(rets) == 1 and norm(rets[0].value) == "ret" and g[0].lineno < rets[0].lineno
    res.check(ok, "quantity:size-guard", q.where(), "unyt_quantity must refuse more than one element before returning", rid=r1)
    # __getitem__
    gi = arr.func("unyt_array.__getitem__")
    res.fn(gi)
    ok, n0 = _getitem_paths(gi)[0:2]
    res.check(ok and n0 >= 1, "getitem:0-d", gi.where(), "an index that yields a scalar yields a unyt_quantity", rid=r1)
    # Unit.__mul__ with data
    um = repo.mod(UO).func("Unit.__mul__")
    res.fn(um)
    sel = [n for n in ast.walk(um.node) if isinstance(n, ast.If) and norm(n.test) == "data.shape == ()"]
    ok = len(sel) == 1 and "uq(data, units" in norm(sel[0].body[0])
    nxt = [n for n in ast.walk(um.node) if isinstance(n, ast.Return) and "ua(data, units" in norm(n)]
    res.check(ok and len(nxt) == 1, "Unit.__mul__:class", um.where(), "number * unit is a quantity, array * unit an array", rid=r1)
    ic = repo.mod(UO).classes.get("_ImportCache")
    txt = norm(ic) if ic is not None else ""
    res.check("from unyt.array import unyt_array" in txt and "self._ua = unyt_array" in txt and "from unyt.array import unyt_quantity" in txt and "self._uq = unyt_quantity" in txt, "Unit.__mul__:classes", UO, "ua / uq are unyt_array / unyt_quantity", rid=r1)
    # functions that choose the class themselves: on every returning path the constructor is unyt_quantity exactly
    # under a fact "<data>.ndim == 0" / "<data>.shape == ()" and unyt_array under its negation
    from engine.sem import summarise

    af = repo.mod(AF)

    def by_shape(f, key, label):
        n_q = n_a = 0
        ok = True
        found = []
        for x in summarise(f):
            if x.kind != "return" or not x.value:
                continue
            ctor = x.value.split("(", 1)[0]
            if ctor not in ("unyt_quantity", "unyt_array"):
                continue
            zero = [(t, tr) for t, tr in x.facts if t.endswith(".ndim == 0") or t.endswith(".shape == ()") or (t.startswith("np.ndim(") and t.endswith(") == 0"))]
            found.append((zero, ctor))
            if ctor == "unyt_quantity":
                n_q += 1
                ok &= any(tr for _, tr in zero)
            else:
                n_a += 1
                ok &= any(not tr for _, tr in zero)
        if n_q == 0 and n_a == 0:
            # no constructor at all: `data * unit` hands the choice to Unit.__mul__ / __array_ufunc__, whose own
            # selection by shape is checked above
            rets = [x.value for x in summarise(f) if x.kind == "return" and x.value]
            prod = []
            for t in rets:
                try:
                    e = ast.parse(t, mode="eval").body
                except SyntaxError:
                    e = None
                prod.append(isinstance(e, ast.BinOp) and isinstance(e.op, ast.Mult))
            if rets and all(prod):
                res.ok(key, r1)
                return
        res.check(ok and n_q >= 1 and n_a >= 1, key, f.where(), f"{label}: 0-d results are quantities, others arrays", "unyt_quantity iff the result is 0-d", found[:4], rid=r1)

    for h in ("einsum", "take"):
        f = af.func(h)
        res.fn(f)
        by_shape(f, f"{h}:class", f"np.{h}")
    for name in ("unorm", "udot"):
        f = arr.func(name)
        res.fn(f)
        by_shape(f, f"{name}:class", name)


def accessors(repo, res):
    r2 = res.rule("C16-R2", "alias / fresh classification of accessors and constructors", floor=12)
    arr = repo.mod(ARR)

    def single_return(q):
        fn = arr.func(q)
        res.fn(fn)
        rets = [n for n in walk_no_nested(fn.node) if isinstance(n, ast.Return)]
        return fn, (rets[0].value if len(rets) == 1 else None)

    for q in ("unyt_array.d", "unyt_array.ndview", "unyt_array.ndarray_view"):
        fn, v = single_return(q)
        eff = Effects(fn)
        ok = v is not None and "self" in eff.alias_of(v) and norm(v) == "self.view(np.ndarray)"
        res.check(ok, f"{q}:view", fn.where(), f"{q.split('.')[-1]} must return a view sharing memory with the array", "self.view(np.ndarray)", norm(v) if v is not None else None, rid=r2)
    for q in ("unyt_array.v", "unyt_array.value", "unyt_array.to_ndarray"):
        fn, v = single_return(q)
        eff = Effects(fn)
        ok = v is not None and not eff.alias_of(v) and norm(v) in ("np.array(self)", "np.array(self, copy=True)", "self.view(np.ndarray).copy()")
        res.check(ok, f"{q}:copy", fn.where(), f"{q.split('.')[-1]} must return independent data", "np.array(self)", norm(v) if v is not None else None, rid=r2)
    # unit_array / ua: an array of ones of the SAME class as self (np.ones_like keeps the subclass: a quantity gives a
    # quantity); an explicit unyt_array(...) turns a 0-d quantity into a 0-d array - also for `q ** 0`, built from it
    for q in ("unyt_array.unit_array", "unyt_array.ua"):
        fn, v = single_return(q)
        ok = v is not None and norm(v) in ("np.ones_like(self)", "type(self)(np.ones_like(self.d), self.units)", "type(self)(np.ones_like(self.ndview), self.units)")
        res.check(ok, f"{q}:class-preserving", fn.where(), f"{q.split('.')[-1]} must build its result in the class of self (a unyt_quantity stays a quantity, so does quantity ** 0)", "np.ones_like(self)", norm(v) if v is not None else None, rid=r2)
    # unyt_quantity.reshape to a non-() shape: an array that is a VIEW of the quantity's buffer
    qr = arr.func("unyt_quantity.reshape")
    res.fn(qr)
    eff_q = Effects(qr)
    bad_q = []
    n_q = 0
    for r_ in [n for n in walk_no_nested(qr.node) if isinstance(n, ast.Return) and n.value is not None]:
        v_ = r_.value
        if isinstance(v_, ast.Call) and isinstance(v_.func, ast.Attribute) and v_.func.attr == "reshape":
            recv = v_.func.value
            if norm(recv) == "super()":
                continue
            n_q += 1
            if "self" not in eff_q.alias_of(recv):
                bad_q.append(norm(recv))
    res.check(n_q >= 1 and not bad_q, "quantity.reshape:view", qr.where(), "reshaping a quantity to a non-() shape must give an array that shares memory with the quantity (built from the quantity itself, not from a copy such as .v / .value)", "unyt_array(self).reshape(...)", bad_q or "no reshape of a unyt_array built from self", rid=r2)
    fn = arr.func("unyt_array.copy")
    res.fn(fn)
    ctor = [c for c in walk_no_nested(fn.node) if isinstance(c, ast.Call) and norm(c.func) == "type(self)"]
    ok = bool(ctor) and all(norm(c.args[0]) == "np.copy(np.asarray(self))" and norm(c.args[1]) == "self.units" for c in ctor)
    res.check(ok, "copy", fn.where(), "copy() wraps a fresh copy of the data with the same units", rid=r2)
    fn = arr.func("unyt_array.to_value")
    vdef = [norm(n.value) for n in walk_no_nested(fn.node) if isinstance(n, ast.Assign) and norm(n.targets[0]) == "v"]
    res.check(all(x.endswith(".value") for x in vdef) and len(vdef) == 2, "to_value", fn.where(), "to_value derives from .value (a copy) on both routes", found=vdef, rid=r2)
    # constructor
    new = arr.func("unyt_array.__new__")
    res.fn(new)
    from engine.pat import has

    res.check(has(new.node, "__o = np.asarray(input_array, dtype=dtype).view(cls)"), "new:ndarray-view", new.where(), "building from a NumPy array wraps it as a view (no copy)", rid=r2)
    blk = [n for n in new.body if isinstance(n, ast.If) and norm(n.test) == "isinstance(input_array, unyt_array)"]
    res.check(len(blk) == 1 and has(blk[0].body[0], "__r = input_array.view(cls)"), "new:unyt-view", new.where(), "building from a unyt array is a view of it", rid=r2)
    res.check(has(new.node, "__o = input_array.view(type=cls, dtype=dtype)"), "new:bypass-view", new.where(), "the bypass route is a view as well", rid=r2)
    # Unit * data copies
    um = repo.mod(UO).func("Unit.__mul__")
    dd = [norm(n.value) for n in walk_no_nested(um.node) if isinstance(n, ast.Assign) and norm(n.targets[0]) == "data"]
    res.check(dd == ["np.array(u, subok=True)"], "Unit.__mul__:copy", um.where(), "data * unit copies the data", found=dd, rid=r2)
    # coercion of quantity lists
    co = arr.func("_coerce_iterable_units")
    res.fn(co)
    from engine.pat import find_all

    io = co.params[0]
    b = None
    # the registry may be handed to the constructor by keyword or as its third positional parameter
    new_sig = [x.arg for x in arr.func("unyt_array.__new__").node.args.args]
    ctor_forms = ["unyt_array(np.array(__acc), __first, registry=registry)"]
    if new_sig[:4] == ["cls", "input_array", "units", "registry"]:
        ctor_forms.append("unyt_array(np.array(__acc), __first, registry)")
    for cf in ctor_forms:
        b = b or find_all(co.node, [
            f"__first = getattr({io}[0], 'units', NULL_UNIT)",
            f"__acc.append(__el.in_units(__first.units))",
            f"__ret = {cf}",
            f"raise IterableUnitCoercionError(str({io}))",
        ])
    res.check(b is not None, "coerce-list", co.where(), "a list of quantities in mixed units is converted element by element into the first element's unit; failure raises IterableUnitCoercionError", rid=r2)
    b2 = find_all(co.node, [f"__first = getattr({io}[0], 'units', NULL_UNIT)", f"any((__first != getattr(_c0, 'units', NULL_UNIT) for _c0 in {io}))"])
    res.check(b2 is not None, "coerce-list:test", co.where(), "mixed units are detected by comparing every element's unit with the first", rid=r2)


def _getitem_paths(gi):
    """path summaries of unyt_array.__getitem__ (locals substituted, layout-independent):
    (a 0-d result is wrapped in unyt_quantity, number of 0-d paths, the wrapped scalar gets name=self.name and
    .units = self.units, every other path returns NumPy's own result untouched)"""
    from engine.sem import summarise

    item = gi.params[1]
    base = f"super().__getitem__({item})"
    zero_t = f"getattr({base}, 'shape', None) == ()"
    q_ok, n0, meta_ok, view_ok = True, 0, True, True
    n_other = 0
    for x in summarise(gi):
        if x.kind != "return":
            q_ok = meta_ok = view_ok = False
            continue
        if x.has(zero_t, True):
            n0 += 1
            ctors = [e for e in x.effects if e.startswith(f"unyt_quantity({base}") and " = " not in e]
            q_ok &= len(ctors) == 1 and "bypass_validation=True" in ctors[0]
            meta_ok &= len(ctors) == 1 and "name=self.name" in ctors[0] and f"{ctors[0]}.units = self.units" in x.effects
            # what is returned is that object: a local (the value is not substituted once it has been written to) or
            # the constructor expression itself
            q_ok &= x.value != base
        elif x.has(zero_t, False):
            n_other += 1
            view_ok &= x.value == base and not any(" = " in e for e in x.effects)
        else:
            q_ok = view_ok = False
    return q_ok, n0, meta_ok and n0 >= 1, view_ok and n_other >= 1


def metadata(repo, res):
    r3 = res.rule("C16-R3", "indexing and views keep units and name", floor=3)
    arr = repo.mod(ARR)
    gi = arr.func("unyt_array.__getitem__")
    _q, _n0, meta_ok, view_ok = _getitem_paths(gi)
    res.check(meta_ok, "getitem:metadata", gi.where(), "a scalar obtained by indexing carries the parent's units and name", rid=r3)
    res.check(view_ok, "getitem:result", gi.where(), "non-scalar results are NumPy's own view (units copied by __array_finalize__)", rid=r3)
    fz = arr.func("unyt_array.__array_finalize__")
    from engine.sem import summarise

    want = [f"self.units = getattr({fz.params[1]}, 'units', NULL_UNIT)", f"self.name = getattr({fz.params[1]}, 'name', None)"]
    sums = [x for x in summarise(fz) if x.kind != "raise"]
    bad = [x.effects for x in sums if [e for e in x.effects if e.startswith(("self.units =", "self.name ="))] != want]
    res.check(bool(sums) and not bad, "finalize", fz.where(), "views and templates inherit units and name (on every path of __array_finalize__)", found=bad[:2], rid=r3)
    template_class(repo, res)
    # iteration: ndarray.__iter__ produces the elements through indexing (__getitem__, checked above).  An override in
    # the package that wraps the raw scalars itself has to attach the parent's units and name like __getitem__ does.
    if arr.has_func("unyt_array.__iter__"):
        it = arr.func("unyt_array.__iter__")
        res.fn(it)
        me = it.params[0]
        ldefs = {}
        for n_ in ast.walk(it.node):
            if isinstance(n_, ast.Assign) and len(n_.targets) == 1 and isinstance(n_.targets[0], ast.Name):
                ldefs.setdefault(n_.targets[0].id, []).append(norm(n_.value))

        def _is(e, attr):
            t = norm(e) if e is not None else ""
            return t == f"{me}.{attr}" or (isinstance(e, ast.Name) and ldefs.get(e.id) == [f"{me}.{attr}"])

        ctors = [c for c in ast.walk(it.node) if isinstance(c, ast.Call) and norm(c.func) in ("unyt_quantity", "unyt_array", f"type({me})")]
        badc = []
        for c in ctors:
            units = c.args[1] if len(c.args) > 1 else kwarg_of(c, "units")
            name = kwarg_of(c, "name")
            if not (_is(units, "units") and _is(name, "name")):
                badc.append(norm(c)[:90])
        res.check(not badc, "iter:metadata", it.where(), "unyt_array.__iter__ builds the elements itself and does not give them the parent's units and name (iterating a named array yields elements whose name is None although indexing keeps it)", f"unyt_quantity(value, {me}.units, ..., name={me}.name)", badc[:2], rid=r3)
    else:
        res.ok("iter:inherited-goes-through-getitem", r3)


# abstract instances NumPy may hand to __array_finalize__: (ndim, size); shape () is (0, 1)
_SHAPES = [(0, 1), (1, 0), (1, 1), (1, 2), (2, 4)]


class _AbsSelf:
    def __init__(self, ndim, size, isq):
        self.ndim, self.size, self.isq = ndim, size, isq
        self.shape = () if ndim == 0 else ((size,) if ndim == 1 else (2, size // 2))

    def __len__(self):
        if self.ndim == 0:
            raise TypeError
        return self.shape[0]


class _NP:
    ndim = staticmethod(lambda a: a.ndim)
    size = staticmethod(lambda a: a.size)
    shape = staticmethod(lambda a: a.shape)


def _admits(facts, me, st):
    """False when some fact of the path is known not to hold for the abstract instance, True otherwise"""
    Q, A = "unyt_quantity", "unyt_array"

    def _isinstance(o, c):
        if o is not st:
            raise ValueError
        cs = c if isinstance(c, tuple) else (c,)
        return any(x == A or (x == Q and st.isq) for x in cs)

    def _type(o):
        if o is not st:
            raise ValueError
        return Q if st.isq else A

    ns = {me: st, "unyt_quantity": Q, "unyt_array": A, "isinstance": _isinstance, "type": _type, "len": len, "np": _NP, "__builtins__": {}}
    for t, truth in facts:
        try:
            v = bool(eval(compile(ast.parse(t, mode="eval"), "<fact>", "eval"), ns))  # a comparison over the abstract instance, not repository code
        except Exception:
            continue
        if v != truth:
            return False
    return True


def template_class(repo, res):
    """NumPy creates many results from a *template*: `func._implementation` of functions unyt does not wrap, ndarray
    methods (repeat, ravel, ...) and view casting produce an instance of the operand's class whatever the result's
    shape, and the only code of the package that runs is __array_finalize__.  So that hook decides the class: a
    unyt_quantity instance with more than one element is re-classed to unyt_array, a 0-d one never is."""
    from engine.sem import summarise

    r5 = res.rule("C16-R5", "results NumPy creates from a template of the operand's class (np.repeat, ndarray.repeat, functions without a handler): __array_finalize__ re-classes a unyt_quantity with more than one element to unyt_array on every path, and never a 0-d one", floor=2)
    arr = repo.mod(ARR)
    hooks = [arr.func("unyt_array.__array_finalize__")]
    try:
        hooks.append(arr.func("unyt_quantity.__array_finalize__"))
    except AnalysisError:
        pass
    # the hook that runs for a unyt_quantity instance is the most derived one
    fz = hooks[-1]
    res.fn(fz)
    me = fz.params[0]
    sums = [x for x in summarise(fz) if x.kind != "raise"]
    if not sums:
        raise AnalysisError(f"{fz.where()}: no normal path through __array_finalize__")
    if fz is not hooks[0]:
        txt = norm(fz.node)
        res.check("super().__array_finalize__(" in txt, "template:override-chains", fz.where(), "an override of __array_finalize__ in unyt_quantity calls the base hook (units and name)", rid=r5)
    demote = f"{me}.__class__ = unyt_array"
    many_bad, scalar_bad = [], []
    for x in sums:
        does = demote in x.effects
        other = [e for e in x.effects if e.startswith(f"{me}.__class__ =") and e != demote]
        if other:
            scalar_bad.append((sorted(x.facts), other))
        for nd, sz in _SHAPES:
            st = _AbsSelf(nd, sz, True)
            if not _admits(x.facts, me, st):
                continue
            if sz > 1 and not does:
                many_bad.append((f"shape ndim={nd} size={sz}", sorted(x.facts)))
            if nd == 0 and does:
                scalar_bad.append((f"shape ()", sorted(x.facts)))
    res.check(not many_bad, "template:many-elements", fz.where(), "a unyt_quantity instance with more than one element leaves __array_finalize__ still a unyt_quantity (np.repeat(q, 3), q.repeat(3), np.unique / np.tile style results of functions without a handler are multi-element quantities)", f"`{demote}` on every path a multi-element quantity can take", many_bad[:3], rid=r5)
    res.check(not scalar_bad, "template:scalar-stays", fz.where(), "a 0-d unyt_quantity must stay a unyt_quantity in __array_finalize__", "re-classing only under a condition that excludes shape ()", scalar_bad[:3], rid=r5)


MUTANTS = [
    Mutant("divmod-trusts-ret-class", ARR, "unyt_array.__array_ufunc__", "            if issubclass(ret_class, unyt_quantity):\n                # as below: avoid creating a unyt_quantity with size > 1\n                ret_class = unyt_array\n", "", ("C16-R1",)),
    Mutant("ufunc-0d-array", ARR, "unyt_array.__array_ufunc__", "out_arr = unyt_quantity(np.asarray(out_arr), unit)", "out_arr = unyt_array(np.asarray(out_arr), unit)", ("C16-R1",)),
    Mutant("ufunc-quantity-many", ARR, "unyt_array.__array_ufunc__", "            if issubclass(ret_class, unyt_quantity):\n                # This happens", "            if False:\n                # This happens", ("C16-R1",)),
    Mutant("quantity-guard-off", ARR, "unyt_quantity.__new__", "        if ret.size > 1:", "        if ret.size > 1 and not bypass_validation:", ("C16-R1",)),
    Mutant("getitem-no-quantity", ARR, "unyt_array.__getitem__", 'if getattr(ret, "shape", None) == ():', 'if getattr(ret, "ndim", None) == 1:', ("C16-R1",)),
    Mutant("unit-mul-always-array", UO, "Unit.__mul__", "            if data.shape == ():", "            if data.shape == (1,):", ("C16-R1",)),
    Mutant("d-copies", ARR, "unyt_array.d", "return self.view(np.ndarray)", "return np.array(self)", ("C16-R2",)),
    Mutant("value-views", ARR, "unyt_array.value", "return np.array(self)", "return np.asarray(self)", ("C16-R2",)),
    Mutant("ctor-copies", ARR, "unyt_array.__new__", "obj = np.asarray(input_array, dtype=dtype).view(cls)", "obj = np.array(input_array, dtype=dtype).view(cls)", ("C16-R2",)),
    Mutant("unit-mul-views", UO, "Unit.__mul__", "data = np.array(u, subok=True)", "data = np.asanyarray(u)", ("C16-R2",)),
    Mutant("coerce-relabels", ARR, "_coerce_iterable_units", "ret.append(datum.in_units(ff.units))", "ret.append(datum)", ("C16-R2",)),
    Mutant("getitem-drops-name", ARR, "unyt_array.__getitem__", "ret = unyt_quantity(ret, bypass_validation=True, name=self.name)", "ret = unyt_quantity(ret, bypass_validation=True)", ("C16-R3", "C16-R1")),
    Mutant("finalize-drops-units", ARR, "unyt_array.__array_finalize__", '        self.units = getattr(obj, "units", NULL_UNIT)\n', "        self.units = NULL_UNIT\n", ("C16-R3", "C07-R3")),
    Mutant("iter-fast-path-drops-name", ARR, None, "    def __setitem__(self, item, value):\n", "    def __iter__(self):\n        if self.ndim != 1:\n            return super().__iter__()\n        return (unyt_quantity(v, self.units, bypass_validation=True) for v in self.view(np.ndarray))\n\n    def __setitem__(self, item, value):\n", ("C16-R3",)),
    Mutant("twin-iter-fast-path-keeps-metadata", ARR, None, "    def __setitem__(self, item, value):\n", "    def __iter__(self):\n        if self.ndim != 1:\n            return super().__iter__()\n        return (unyt_quantity(v, self.units, bypass_validation=True, name=self.name) for v in self.view(np.ndarray))\n\n    def __setitem__(self, item, value):\n", (), benign=True),
    Mutant("template-no-demotion", ARR, "unyt_array.__array_finalize__", "        if self.size > 1 and isinstance(self, unyt_quantity):", "        if False:", ("C16-R5",)),
    Mutant("template-demotes-scalars", ARR, "unyt_array.__array_finalize__", "        if self.size > 1 and isinstance(self, unyt_quantity):", "        if self.size > 0 and isinstance(self, unyt_quantity):", ("C16-R5",)),
    Mutant("template-demotes-2d-only", ARR, "unyt_array.__array_finalize__", "        if self.size > 1 and isinstance(self, unyt_quantity):", "        if self.ndim > 1 and isinstance(self, unyt_quantity):", ("C16-R5",)),
    Mutant("twin-template-guard-nested", ARR, "unyt_array.__array_finalize__", "        if self.size > 1 and isinstance(self, unyt_quantity):", "        if isinstance(self, unyt_quantity) and self.ndim > 0 and self.size != 1:", (), benign=True),
    Mutant("twin-template-shape-test", ARR, "unyt_array.__array_finalize__", "        if self.size > 1 and isinstance(self, unyt_quantity):", "        if self.shape != () and isinstance(self, unyt_quantity):", (), benign=True),
    Mutant("in-units-unit-factor-view", ARR, "unyt_array.in_units", "ret = np.asarray(self.ndview * conversion_factor, dtype=new_dtype)", "ret = np.asarray(self.ndview, dtype=new_dtype) if conversion_factor == 1 else np.asarray(self.ndview * conversion_factor, dtype=new_dtype)", ("C16-R4",)),
]
