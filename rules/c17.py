"""C17 - conversions and mixed-unit arithmetic never truncate to integers."""

from __future__ import annotations

import ast

from engine.core import AnalysisError, Repo, is_raise_of, norm, walk_no_nested
from engine.flow import enum_paths, path_calls, path_facts
from engine.mutate import Mutant
from engine.report import Result
from engine.symb import Expander
from rules.ufunc import ARR, UfuncAnchors

TECHNIQUE = "sibling-agreement (contradiction) rule over the four dtype-selection sites of unyt/array.py, with reaching definitions for the dtype strings, plus the folded LARGE_INPUT table"
LEVEL_TEXT = """Static: the four places that choose a result dtype for converted data (in_units, convert_to_units, the second
operand of a mixed-unit binary ufunc, integer out= buffers) are located from the source and must all satisfy one rule: the
target dtype is built as a float ('f') or complex ('c') kind letter plus the item size of the very array being converted,
never an integer kind; complex input is either untouched by the site or explicitly mapped to a complex kind; item size 1 is
widened to 2 or refused; the converted data are computed after the cast (multiplication happens in the float type); the
two conversion routes carry the overflow warning for 4- and 8-byte integers against the thresholds 2**24+1 and 2**53+1.
A sibling that lacks a test the others have is reported (Engler-style contradiction).
(R3) copying conversions multiply the data by the float factor on every path (shared with C03-R2); (R4) no step of an equivalence formula has integer semantics (shared with C09-R8)."""
LEVEL_NOTE = """Undecided: the rounding of the converted values and NumPy's casting behaviour itself. For 1-byte operands of
the ufunc / out= sites the refusal is NumPy's own rejection of the dtype string 'f1' (trusted)."""
EXPLANATION = LEVEL_TEXT
ASSUMPTIONS = ["np.dtype('f1') is rejected by NumPy (no 8-bit float type)"]


def check(repo: Repo) -> Result:
    res = Result("C17")
    arr = repo.mod(ARR)
    r1 = res.rule("C17-R1", "dtype selection at the five conversion sites (in_units, in_base, convert_to_units, ufunc operand, ufunc out=): float/complex of the operand's own item size, never integer; complex kept; 1-byte widened or refused", floor=12)
    r2 = res.rule("C17-R2", "overflow warning for large integers on both conversion routes; thresholds are the first integers a float of that size cannot hold", floor=3)

    from engine.sem import canon_block, canon_expr, cnorm

    def casts(fn_, region=None):
        """calls that fix the dtype of converted data: np.asarray/np.array(x, dtype=D) and x.astype(D)"""
        out = []
        for n in ast.walk(region if region is not None else fn_.node):
            if isinstance(n, ast.Call):
                f = norm(n.func)
                d = None
                if f in ("np.asarray", "np.array", "np.asanyarray"):
                    d = next((k.value for k in n.keywords if k.arg == "dtype"), n.args[1] if len(n.args) > 1 else None)
                elif isinstance(n.func, ast.Attribute) and n.func.attr == "astype" and n.args:
                    d = n.args[0]
                if d is not None:
                    out.append((n, d))
        return out

    # ---- sites A / A': the copying routes in_units and in_base -------------------------
    data_forms = {"self.ndview", "self.d", "self.view(np.ndarray)"}

    def copying_site(fn, label):
        data_forms = {"self.ndview", "self.d", "self.view(np.ndarray)", "self.value", "self.v"}
        prods = [x for x in ast.walk(fn.node) if isinstance(x, ast.BinOp) and isinstance(x.op, ast.Mult) and ({cnorm(x.left), cnorm(x.right)} & data_forms or any(cnorm(y) in data_forms for y in ast.walk(x.left)))]
        if not prods:
            # no `data * factor` expression: if the copying route scales in place after casting, the cast happens before the
            # multiplication - narrow integers are rounded to the narrow float first and the factor is rounded to it too
            early = [c for c, d in casts(fn) if c.args and cnorm(c.args[0]) in data_forms or (isinstance(c.func, ast.Attribute) and c.func.attr == "astype" and cnorm(c.func.value) in data_forms)]
            if early:
                res.bad(f"{label}:cast", fn.where(early[0]), f"{label} casts the bare data to the selected float type first and multiplies afterwards: 16-/32-bit integers are rounded before scaling and the factor is rounded to the narrow type (uint16 65535 mm -> m gives inf), so the stored value is no longer the exact product rounded once", "np.asarray(self.ndview * factor, dtype=...)", cnorm(early[0]), rid=r1)
                prods = None
            else:
                raise AnalysisError(f"{fn.where()}: the product data * factor was not found in {label}")
        cs = [(c, d) for c, d in casts(fn) if c.args and any(c.args[0] is p_ for p_ in (prods or []))]
        want = "np.dtype(('c' if self.dtype.kind == 'c' else 'f') + str(max(2, self.dtype.itemsize)))"
        if prods is None:
            pass
        elif len(cs) != 1:
            res.bad(f"{label}:dtype", fn.where(prods[0]), f"{label} multiplies the data by the factor without casting the product to the selected float / complex dtype (the result takes whatever type NumPy's promotion gives, e.g. float64 for float32 data, or the cast happens before the multiplication)", f"np.asarray(data * factor, dtype={want})", cnorm(prods[0]), rid=r1)
            res.bad(f"{label}:cast", fn.where(prods[0]), "the converted data are produced by multiplying the bare data with the (float) factor and casting the product to the selected dtype", rid=r1)
        else:
            call, d = cs[0]
            txt = canon_expr(d, fn)
            res.check(txt == want, f"{label}:dtype", fn.where(call), f"{label} must convert into float (complex for complex input) of the array's own item size, at least 2 bytes", want, txt, rid=r1)
            arg0 = call.args[0]
            facs = sorted([cnorm(arg0.left), cnorm(arg0.right)])
            ok = bool(set(facs) & data_forms) and any(f not in data_forms and "conv" in f for f in facs)
            res.check(ok, f"{label}:cast", fn.where(call), "the converted data are produced by multiplying the bare data with the (float) factor and casting the product to the selected dtype", "np.asarray(self.ndview * factor, dtype=...)", cnorm(call), rid=r1)

    fn = arr.func("unyt_array.in_units")
    res.fn(fn)
    copying_site(fn, "in_units")
    fb = arr.func("unyt_array.in_base")
    res.fn(fb)
    copying_site(fb, "in_base")
    _warning_site(res, fn, r2, "in_units", "self")

    # ---- site B: convert_to_units ----------------------------------------------------
    fn = arr.func("unyt_array.convert_to_units")
    res.fn(fn)
    blk = [n for n in walk_no_nested(fn.node) if isinstance(n, ast.If) and cnorm(n.test) in ("self.dtype.kind in ('u', 'i')", "self.dtype.kind in ('i', 'u')")]
    if len(blk) != 1:
        raise AnalysisError(f"{fn.where()}: integer-dtype block not found in convert_to_units")
    b = blk[0]
    res.ok("convert_to_units:only-integers", r1)  # float and complex data are not retyped at all
    # `values` is the bare view of self (reaching definition), so the block is read with values := self.d
    vdef = [n for n in walk_no_nested(fn.node) if isinstance(n, ast.Assign) and isinstance(n.targets[0], ast.Name) and cnorm(n.value) in ("self.d", "self.ndview", "self.view(np.ndarray)")]
    if len(vdef) != 1:
        raise AnalysisError(f"{fn.where()}: the bare view of self was not found in convert_to_units")
    V = vdef[0].targets[0].id
    keep = set(fn.params) | {"self", V, "np", "warnings", "LARGE_INPUT", "new_units", "conv_factor", "offset"}
    flat = [s_ for s_ in b.body if not isinstance(s_, ast.If)]
    seq = canon_block(flat, keep=keep)
    need = [f"_L0 = {V}.astype('f' + str({V}.dtype.itemsize))", f"{V}.dtype = 'f' + str({V}.dtype.itemsize)", f"self.dtype = 'f' + str({V}.dtype.itemsize)", f"np.copyto({V}, _L0)"]
    # after `values.dtype = ...` the item size is unchanged, so reading it again for self.dtype is the same value;
    # accept the form in which the dtype string is kept in a local across the write as well
    alt = [f"_L0 = {V}.astype('f' + str({V}.dtype.itemsize))", f"_L1 = 'f' + str({V}.dtype.itemsize)", f"{V}.dtype = _L1", "self.dtype = _L1", f"np.copyto({V}, _L0)"]
    res.check(seq in (need, alt), "convert_to_units:retype-sequence", fn.where(b), "the buffer is converted value-preservingly and to float of the same item size: float copy first, relabel the view and the array, copy back", alt, seq, rid=r1)
    res.check(any("'f' + str(" in x and ".dtype.itemsize)" in x for x in seq), "convert_to_units:dtype", fn.where(b), "in-place conversion must retype to float of the same item size", rid=r1)
    small = [s_ for s_ in b.body if isinstance(s_, ast.If) and canon_expr(s_.test, fn) in (f"{V}.dtype.itemsize == 1", "self.dtype.itemsize == 1") and s_.body and is_raise_of(s_.body[0], "ValueError")]
    res.check(len(small) == 1, "convert_to_units:one-byte", fn.where(b), "1-byte integers cannot be converted in place and must be refused", rid=r1)
    # multiplication happens after the retyping
    vm = [n for n in walk_no_nested(fn.node) if isinstance(n, ast.AugAssign) and norm(n.target) == V and isinstance(n.op, ast.Mult)]
    res.check(len(vm) == 1 and vm[0].lineno > b.end_lineno and isinstance(vm[0].value, ast.Name), "convert_to_units:multiply-after", fn.where(), "the factor is applied after the buffer has become floating point", rid=r1)
    _warning_site(res, fn, r2, "convert_to_units", V)

    # ---- site C: binary ufunc second operand --------------------------------------------
    a = UfuncAnchors(repo)
    fn = a.fn
    res.fn(fn)
    region = ast.Module(body=a.differ_if.body, type_ignores=[])
    cs = [(c, d) for c, d in casts(fn, region) if c.args and cnorm(c.args[0]) == "inp1"]
    resc = [n for n in a.differ_if.body if isinstance(n, ast.Assign) and norm(n.targets[0]) == "inp1"]
    if len(resc) != 1:
        raise AnalysisError(f"{fn.where(a.differ_if)}: the rescaling of the second operand was not found")
    good = (
        "np.dtype(('c' if inp1.dtype.kind == 'c' else 'f') + str(inp1.dtype.itemsize))",
        "np.dtype(('c' if inp1.dtype.kind == 'c' else 'f') + str(max(2, inp1.dtype.itemsize)))",
    )
    if len(cs) != 1:
        res.bad("ufunc-operand:dtype", fn.where(resc[0]), "the second operand is rescaled without first being cast to a float / complex type of its own item size (integer data would be multiplied and truncated in integer arithmetic or promoted to an unrelated width)", good[0], cnorm(resc[0].value), rid=r1)
        res.bad("ufunc-operand:cast-before-multiply", fn.where(resc[0]), "the operand is cast to the float type before it is multiplied by the factor", rid=r1)
    else:
        call, d = cs[0]
        # block-local pure definitions (new_dtypekind, new_dtype, hoisted inp1.dtype) are expanded
        from engine.sem import is_pure

        env = {}
        for st in a.differ_if.body:
            if isinstance(st, ast.Assign) and len(st.targets) == 1 and isinstance(st.targets[0], ast.Name) and st.lineno < call.lineno:
                if is_pure(st.value) and st.targets[0].id not in ("inp1", "u0", "u1"):
                    env[st.targets[0].id] = st.value
        txt = canon_expr(d, None, extra_env=env)
        res.check(txt in good, "ufunc-operand:dtype", fn.where(call), "the rescaled second operand must be float of its own item size, and complex when it is complex (a plain 'f' discards the imaginary part)", good[0], txt, rid=r1)
        ok = isinstance(resc[0].value, ast.BinOp) and isinstance(resc[0].value.op, ast.Mult) and any(x is call for x in ast.walk(resc[0].value))
        res.check(ok, "ufunc-operand:cast-before-multiply", fn.where(resc[0]), "the operand is cast to the float type before it is multiplied by the factor", rid=r1)

    # ---- site D: integer out= buffers -----------------------------------------------------------
    ob = [n for n in ast.walk(ast.Module(body=a.pre, type_ignores=[])) if isinstance(n, ast.If) and cnorm(n.test) in ("out.dtype.kind in ('u', 'i')", "out.dtype.kind in ('i', 'u')")]
    if len(ob) != 1:
        raise AnalysisError(f"{fn.where()}: integer out= promotion not found")
    # guards that only refuse (if ...: raise) do not take part in the promotion sequence
    seq = canon_block([s_ for s_ in ob[0].body if not (isinstance(s_, ast.If) and not s_.orelse and s_.body and isinstance(s_.body[-1], ast.Raise))], keep=set(fn.params) | {"out", "np", "kwargs", "ufunc"})
    need = ["_L0 = out.astype('f' + str(out.dtype.itemsize))", "out.dtype = 'f' + str(out.dtype.itemsize)", "np.copyto(out, _L0)"]
    res.check(seq == need, "out-promotion", fn.where(ob[0]), "integer out= buffers are promoted value-preservingly to float of the same item size before NumPy writes into them: float copy taken first, buffer relabelled, values copied back (canonical form: locals naming pure expressions substituted, others renamed)", need, seq, rid=r1)
    # the view handed to NumPy is taken after the promotion
    assigns = [n for n in ast.walk(ast.Module(body=a.pre, type_ignores=[])) if isinstance(n, ast.Assign) and cnorm(n.value) == "out.view(np.ndarray)"]
    res.check(len(assigns) == 1 and assigns[0].lineno > ob[0].end_lineno, "out-promotion:view-after", fn.where(), "the ndarray view of out is taken after the promotion", rid=r1)

    # no site builds an integer dtype string
    bad = []
    for f in (arr.func("unyt_array.in_units"), arr.func("unyt_array.convert_to_units"), a.fn):
        for n in walk_no_nested(f.node):
            if isinstance(n, ast.BinOp) and isinstance(n.op, ast.Add) and isinstance(n.left, ast.Constant) and isinstance(n.left.value, str) and n.left.value[:1] in ("i", "u") and "str(" in norm(n.right):
                bad.append(norm(n))
    res.check(not bad, "no-integer-target", ARR, "no conversion site may build an integer dtype string", found=bad, rid=r1)

    # ---- LARGE_INPUT ----------------------------------------------------------------------------------
    li = arr.assign("LARGE_INPUT")
    got = {}
    if isinstance(li, ast.Dict):
        for k, v in zip(li.keys, li.values):
            try:
                got[ast.literal_eval(k)] = eval(compile(ast.Expression(v), "<c>", "eval"), {"__builtins__": {}})
            except Exception:
                pass
    res.check(got == {4: 2**24 + 1, 8: 2**53 + 1}, "LARGE_INPUT", ARR, "thresholds must be 2**24+1 (float32) and 2**53+1 (float64)", {4: 2**24 + 1, 8: 2**53 + 1}, got, rid=r2)
    from rules import c03, c09
    from rules.common import share

    r3 = res.rule("C17-R3", "copying base / unit conversions multiply the data by the (float) factor on every path: a path that hands back unmultiplied data keeps integer data integer while the in-place route promotes", floor=3)
    share(res, r3, "C03", lambda t: c03.apply_idiom(repo, t), ["C03-R2"], want=lambda k: k in ("in_units", "in_base", "in_base:result", "in_units:result", "convert_to_units"), min_keys=3)
    r4 = res.rule("C17-R4", "equivalence formulas have no step with integer (truncating) semantics: copying and in-place equivalence conversions of integer data agree", floor=30)
    share(res, r4, "C09", lambda t: t.__dict__.update(c09.check(repo).__dict__), ["C09-R8"], min_keys=20)
    from rules import c02

    r5 = res.rule("C17-R5", "the conversion factor handed to every route is the floating-point ratio old scale / new scale, never cast to the data's (integer) dtype", floor=3)
    share(res, r5, "C02", lambda t: c02.ratio_direction(repo, t), ["C02-R4"], min_keys=3)

    from rules import c16

    r6 = res.rule("C17-R6", "a list of quantities in mixed units is converted element by element with the array conversion (in_units), which keeps each element's width; a route through Python scalars (to_value / float) widens float32 / float16 elements (shared with C16-R2)", floor=2)
    share(res, r6, "C16", lambda t: c16.accessors(repo, t), ["C16-R2"], want=lambda k: k.startswith("coerce-list"), min_keys=2)
    return res


def _warning_site(res, fn, rid, name, data_root):
    """a RuntimeWarning is issued under: integer dtype, and some |value| exceeds LARGE_INPUT[item size]"""
    from engine.sem import canon_expr, cnorm

    w = [c for c in walk_no_nested(fn.node) if isinstance(c, ast.Call) and norm(c.func) == "warnings.warn"]
    ok = False
    if w:
        guards = [n for n in walk_no_nested(fn.node) if isinstance(n, ast.If) and any(x is w[0] for x in ast.walk(n))]
        tests = [canon_expr(g.test, fn) for g in guards]
        data_forms = {f"{data_root}.d", f"{data_root}.ndview", data_root, "self.d", "self.ndview"}
        size_forms = ("self.dtype.itemsize", f"{data_root}.dtype.itemsize", "max(2, self.dtype.itemsize)")
        mag = [f"LARGE_INPUT.get({sz}, 0) and np.any(np.abs({d}) > LARGE_INPUT.get({sz}, 0))" for d in data_forms for sz in size_forms]
        # both integer kinds: signed and unsigned
        def _both_kinds(g):
            for c_ in ast.walk(g.test):
                if isinstance(c_, ast.Compare) and len(c_.ops) == 1 and isinstance(c_.ops[0], ast.In) and norm(c_.left).endswith(".dtype.kind") and isinstance(c_.comparators[0], (ast.Tuple, ast.List, ast.Set)):
                    kinds = {e.value for e in c_.comparators[0].elts if isinstance(e, ast.Constant)}
                    if {"u", "i"} <= kinds:
                        return True
                if isinstance(c_, ast.Compare) and len(c_.ops) == 1 and isinstance(c_.ops[0], ast.In) and norm(c_.left).endswith(".dtype.kind") and isinstance(c_.comparators[0], ast.Constant) and isinstance(c_.comparators[0].value, str) and {"u", "i"} <= set(c_.comparators[0].value):
                    return True
            return False

        ok = any(t in mag for t in tests) and any(_both_kinds(g) for g in guards)
        ok = ok and any(isinstance(a_, ast.Name) and a_.id == "RuntimeWarning" for a_ in ast.walk(w[0]))
    res.check(ok, f"{name}:warning", fn.where(w[0]) if w else fn.where(), f"{name} must warn (RuntimeWarning) when the magnitude of integer data exceeds LARGE_INPUT for their item size", rid=rid)


UO = "unyt/unit_object.py"

MUTANTS = [
    Mutant("in_base-promotion-decides", ARR, "unyt_array.in_base", "        ret = np.asarray(self.ndview * conv, dtype=new_dtype)\n        if offset:", "        ret = self.ndview * conv\n        if offset:", ("C17-R1",)),
    Mutant("in_base-always-double", ARR, "unyt_array.in_base", "        dsize = max(2, self.dtype.itemsize)\n        new_dtypekind = \"c\" if self.dtype.kind == \"c\" else \"f\"\n        new_dtype = np.dtype(new_dtypekind + str(dsize))\n        ret = np.asarray(self.ndview * conv", "        dsize = 8\n        new_dtypekind = \"c\" if self.dtype.kind == \"c\" else \"f\"\n        new_dtype = np.dtype(new_dtypekind + str(dsize))\n        ret = np.asarray(self.ndview * conv", ("C17-R1",)),
    Mutant("in_units-int-target", ARR, "unyt_array.in_units", 'new_dtypekind = "c" if self.dtype.kind == "c" else "f"', 'new_dtypekind = "c" if self.dtype.kind == "c" else self.dtype.kind', ("C17-R1",)),
    Mutant("in_units-no-widen", ARR, "unyt_array.in_units", "dsize = max(2, self.dtype.itemsize)", "dsize = self.dtype.itemsize", ("C17-R1",)),
    Mutant("in_units-complex-lost", ARR, "unyt_array.in_units", 'new_dtypekind = "c" if self.dtype.kind == "c" else "f"', 'new_dtypekind = "f"', ("C17-R1",)),
    Mutant("in_units-cast-first", ARR, "unyt_array.in_units", "ret = np.asarray(self.ndview * conversion_factor, dtype=new_dtype)", "ret = np.asarray(self.ndview, dtype=self.dtype) * self.dtype.type(conversion_factor)", ("C17-R1",)),
    Mutant("convert-multiply-first", ARR, "unyt_array.convert_to_units", "                float_values = values.astype(new_dtype)\n", "                float_values = (values * int(conv_factor)).astype(new_dtype)\n", ("C17-R1",)),
    Mutant("convert-one-byte-allowed", ARR, "unyt_array.convert_to_units", "                if dsize == 1:", "                if dsize == 0:", ("C17-R1",)),
    Mutant("ufunc-complex-lost", ARR, "unyt_array.__array_ufunc__", 'new_dtypekind = "c" if inp1.dtype.kind == "c" else "f"\n                    new_dtype = np.dtype(new_dtypekind', 'new_dtypekind = "f"\n                    new_dtype = np.dtype(new_dtypekind', ("C17-R1",)),
    Mutant("ufunc-int-operand", ARR, "unyt_array.__array_ufunc__", "inp1 = np.asarray(inp1, dtype=new_dtype) * conv", "inp1 = np.asarray(inp1) * conv", ("C17-R1", "C04-R2")),
    Mutant("out-promotion-removed", ARR, "unyt_array.__array_ufunc__", "                    np.copyto(out, float_values)\n", "", ("C17-R1",)),
    Mutant("threshold-off", ARR, None, "LARGE_INPUT = {4: 16777217, 8: 9007199254740993}", "LARGE_INPUT = {4: 16777217, 8: 9007199254740992}", ("C17-R2",)),
    Mutant("warning-signed-only", ARR, "unyt_array.in_units", '            if self.dtype.kind in ("u", "i"):\n                large', '            if self.dtype.kind in ("i", "i"):\n                large', ("C17-R2",)),
    Mutant("warning-dropped", ARR, "unyt_array.in_units", "                if large and np.any(np.abs(self.d) > large):", "                if False:", ("C17-R2",)),
    Mutant("in-base-skips-unit-factor", ARR, "unyt_array.in_base", "ret = np.asarray(self.ndview * conv, dtype=new_dtype)", "ret = np.asarray(self.ndview, dtype=new_dtype)\n        if conv != 1:\n            ret = np.asarray(self.ndview * conv, dtype=new_dtype)", ("C17-R3",)),
    Mutant("factor-cast-to-data-dtype", UO, "_get_conversion_factor", "    ratio = old_basevalue / new_basevalue\n", "    ratio = old_basevalue / new_basevalue\n    if np.dtype(dtype).kind != \"i\":\n        ratio = np.dtype(dtype).type(ratio)\n", ("C17-R5",)),
    Mutant("in-units-cast-before-multiply", ARR, "unyt_array.in_units", "np.asarray(self.ndview * conversion_factor, dtype=new_dtype)", "np.multiply(self.ndview.astype(new_dtype), conversion_factor)", ("C17-R1",)),
    Mutant("coerce-through-python-scalars", ARR, "_coerce_iterable_units", "ret.append(datum.in_units(ff.units))", "ret.append(datum.to_value(ff))", ("C17-R6",)),
    Mutant("equivalence-floor-division", "unyt/equivalencies.py", "ThermalEquivalence._convert", "return np.true_divide(x, pc.kboltz, out=self._get_out(x))", "return np.floor_divide(x, pc.kboltz, out=self._get_out(x))", ("C17-R4",)),
]
