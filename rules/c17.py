"""C17 - conversions and mixed-unit arithmetic never truncate to integers."""

from __future__ import annotations

import ast

from engine.core import AnalysisError, Repo, is_raise_of, norm, walk_no_nested
from engine.flow import enum_paths, path_calls, path_facts
from engine.mutate import Mutant
from engine.report import Result
from engine.symb import Expander
from rules.ufunc import ARR, UfuncAnchors

TECHNIQUE = "sibling-agreement (contradiction) rule over the four dtype-selection sites of unyt/array.py, with reaching definitions for the dtype strings, plus the folded LARGE_INPUT table"
LEVEL_TEXT = """Static: the four places that choose a result dtype for converted data (in_units, convert_to_units, the second
operand of a mixed-unit binary ufunc, integer out= buffers) are located from the source and must all satisfy one rule: the
target dtype is built as a float ('f') or complex ('c') kind letter plus the item size of the very array being converted,
never an integer kind; complex input is either untouched by the site or explicitly mapped to a complex kind; item size 1 is
widened to 2 or refused; the converted data are computed after the cast (multiplication happens in the float type); the
two conversion routes carry the overflow warning for 4- and 8-byte integers against the thresholds 2**24+1 and 2**53+1.
A sibling that lacks a test the others have is reported (Engler-style contradiction)."""
LEVEL_NOTE = """Undecided: the rounding of the converted values and NumPy's casting behaviour itself. For 1-byte operands of
the ufunc / out= sites the refusal is NumPy's own rejection of the dtype string 'f1' (trusted)."""
EXPLANATION = LEVEL_TEXT
ASSUMPTIONS = ["np.dtype('f1') is rejected by NumPy (no 8-bit float type)"]


def check(repo: Repo) -> Result:
    res = Result("C17")
    arr = repo.mod(ARR)
    r1 = res.rule("C17-R1", "dtype selection at the four conversion sites: float/complex of the operand's own item size, never integer; complex kept; 1-byte widened or refused", floor=12)
    r2 = res.rule("C17-R2", "overflow warning for large integers on both conversion routes; thresholds are the first integers a float of that size cannot hold", floor=3)

    # ---- site A: in_units -------------------------------------------------------
    fn = arr.func("unyt_array.in_units")
    res.fn(fn)
    ex = Expander(fn)
    nd = [n for n in walk_no_nested(fn.node) if isinstance(n, ast.Assign) and norm(n.targets[0]) == "new_dtype"]
    if len(nd) != 1:
        raise AnalysisError(f"{fn.where()}: new_dtype definition not found in in_units")
    txt = ex.expand(nd[0].value)
    want = "np.dtype(('c' if self.dtype.kind == 'c' else 'f') + str(max(2, self.dtype.itemsize)))"
    res.check(txt == want, "in_units:dtype", fn.where(nd[0]), "in_units must convert into float (complex for complex input) of the array's own item size, at least 2 bytes", want, txt, rid=r1)
    ret = [n for n in walk_no_nested(fn.node) if isinstance(n, ast.Assign) and norm(n.targets[0]) == "ret"]
    ok = len(ret) == 1 and norm(ret[0].value) in ("np.asarray(self.ndview * conversion_factor, dtype=new_dtype)", "np.asarray(conversion_factor * self.ndview, dtype=new_dtype)")
    res.check(ok, "in_units:cast", fn.where(ret[0]) if ret else fn.where(), "the converted data are produced by multiplying with the (float) factor and casting to the selected dtype", found=[norm(r.value) for r in ret], rid=r1)
    _warning_site(res, fn, r2, "in_units", "self.d", "dsize")

    # ---- site B: convert_to_units ----------------------------------------------------
    fn = arr.func("unyt_array.convert_to_units")
    res.fn(fn)
    blk = [n for n in walk_no_nested(fn.node) if isinstance(n, ast.If) and norm(n.test) in ("self.dtype.kind in ('u', 'i')", "self.dtype.kind in ('i', 'u')")]
    if len(blk) != 1:
        raise AnalysisError(f"{fn.where()}: integer-dtype block not found in convert_to_units")
    b = blk[0]
    res.ok("convert_to_units:only-integers", r1)  # float and complex data are not retyped at all
    stm = {norm(s.targets[0]): norm(s.value) for s in b.body if isinstance(s, ast.Assign)}
    ok = stm.get("dsize") == "values.dtype.itemsize" and stm.get("new_dtype") == "'f' + str(dsize)"
    res.check(ok, "convert_to_units:dtype", fn.where(b), "in-place conversion must retype to float of the same item size", "'f' + str(values.dtype.itemsize)", stm.get("new_dtype"), rid=r1)
    small = [s for s in b.body if isinstance(s, ast.If) and norm(s.test) == "dsize == 1"]
    res.check(len(small) == 1 and is_raise_of(small[0].body[0], "ValueError"), "convert_to_units:one-byte", fn.where(b), "1-byte integers cannot be converted in place and must be refused", rid=r1)
    seq = [norm(s) for s in b.body]
    need = ["float_values = values.astype(new_dtype)", "values.dtype = new_dtype", "self.dtype = new_dtype", "np.copyto(values, float_values)"]
    idx = [seq.index(x) if x in seq else -1 for x in need]
    res.check(all(i >= 0 for i in idx) and idx == sorted(idx), "convert_to_units:retype-sequence", fn.where(b), "the buffer is converted value-preservingly: float copy, relabel dtype, copy back", need, seq, rid=r1)
    # multiplication happens after the retyping
    body_top = fn.body
    vm = [n for n in walk_no_nested(fn.node) if isinstance(n, ast.AugAssign) and norm(n.target) == "values" and isinstance(n.op, ast.Mult)]
    res.check(len(vm) == 1 and vm[0].lineno > b.end_lineno and norm(vm[0].value) == "conv_factor", "convert_to_units:multiply-after", fn.where(), "the factor is applied after the buffer has become floating point", rid=r1)
    _warning_site(res, fn, r2, "convert_to_units", "values", "dsize")

    # ---- site C: binary ufunc second operand --------------------------------------------
    a = UfuncAnchors(repo)
    fn = a.fn
    res.fn(fn)
    nd = [n for n in a.differ_if.body if isinstance(n, ast.Assign) and norm(n.targets[0]) == "new_dtype"]
    if len(nd) != 1:
        raise AnalysisError(f"{fn.where(a.differ_if)}: new_dtype for the second operand not found")
    # expand block-local single assignments (new_dtypekind = ...)
    import copy

    local = {}
    for st in a.differ_if.body:
        if isinstance(st, ast.Assign) and isinstance(st.targets[0], ast.Name) and st.lineno < nd[0].lineno:
            local.setdefault(st.targets[0].id, []).append(st.value)
    single = {k: v[0] for k, v in local.items() if len(v) == 1 and k != "new_dtype"}

    class _T(ast.NodeTransformer):
        def visit_Name(self, n):
            if isinstance(n.ctx, ast.Load) and n.id in single:
                return copy.deepcopy(single[n.id])
            return n

    txt = norm(_T().visit(copy.deepcopy(nd[0].value)))
    good = (
        "np.dtype(('c' if inp1.dtype.kind == 'c' else 'f') + str(inp1.dtype.itemsize))",
        "np.dtype(('c' if inp1.dtype.kind == 'c' else 'f') + str(max(2, inp1.dtype.itemsize)))",
    )
    res.check(txt in good, "ufunc-operand:dtype", fn.where(nd[0]), "the rescaled second operand must be float of its own item size, and complex when it is complex (a plain 'f' discards the imaginary part)", good[0], txt, rid=r1)
    resc = [n for n in a.differ_if.body if isinstance(n, ast.Assign) and norm(n.targets[0]) == "inp1"]
    ok = len(resc) == 1 and "np.asarray(inp1, dtype=new_dtype)" in norm(resc[0].value)
    res.check(ok, "ufunc-operand:cast-before-multiply", fn.where(resc[0]) if resc else fn.where(), "the operand is cast to the float type before it is multiplied by the factor", rid=r1)

    # ---- site D: integer out= buffers -----------------------------------------------------------
    ob = [n for n in ast.walk(ast.Module(body=a.pre, type_ignores=[])) if isinstance(n, ast.If) and norm(n.test) in ("out.dtype.kind in ('u', 'i')", "out.dtype.kind in ('i', 'u')")]
    if len(ob) != 1:
        raise AnalysisError(f"{fn.where()}: integer out= promotion not found")
    seq = [norm(s) for s in ob[0].body]
    need = ["new_dtype = 'f' + str(out.dtype.itemsize)", "float_values = out.astype(new_dtype)", "out.dtype = new_dtype", "np.copyto(out, float_values)"]
    idx = [seq.index(x) if x in seq else -1 for x in need]
    res.check(all(i >= 0 for i in idx) and idx == sorted(idx), "out-promotion", fn.where(ob[0]), "integer out= buffers are promoted value-preservingly to float of the same item size before NumPy writes into them", need, seq, rid=r1)
    ov = [n for n in a.pre[0:0]]
    # the view handed to NumPy is taken after the promotion
    assigns = [n for n in ast.walk(ast.Module(body=a.pre, type_ignores=[])) if isinstance(n, ast.Assign) and norm(n.targets[0]) == "out_func" and norm(n.value) == "out.view(np.ndarray)"]
    res.check(len(assigns) == 1 and assigns[0].lineno > ob[0].end_lineno, "out-promotion:view-after", fn.where(), "the ndarray view of out is taken after the promotion", rid=r1)

    # no site builds an integer dtype string
    bad = []
    for f in (arr.func("unyt_array.in_units"), arr.func("unyt_array.convert_to_units"), a.fn):
        for n in walk_no_nested(f.node):
            if isinstance(n, ast.BinOp) and isinstance(n.op, ast.Add) and isinstance(n.left, ast.Constant) and isinstance(n.left.value, str) and n.left.value[:1] in ("i", "u") and "str(" in norm(n.right):
                bad.append(norm(n))
    res.check(not bad, "no-integer-target", ARR, "no conversion site may build an integer dtype string", found=bad, rid=r1)

    # ---- LARGE_INPUT ----------------------------------------------------------------------------------
    li = arr.assign("LARGE_INPUT")
    got = {}
    if isinstance(li, ast.Dict):
        for k, v in zip(li.keys, li.values):
            try:
                got[ast.literal_eval(k)] = eval(compile(ast.Expression(v), "<c>", "eval"), {"__builtins__": {}})
            except Exception:
                pass
    res.check(got == {4: 2**24 + 1, 8: 2**53 + 1}, "LARGE_INPUT", ARR, "thresholds must be 2**24+1 (float32) and 2**53+1 (float64)", {4: 2**24 + 1, 8: 2**53 + 1}, got, rid=r2)
    return res


def _warning_site(res, fn, rid, name, data, size):
    w = [c for c in walk_no_nested(fn.node) if isinstance(c, ast.Call) and norm(c.func) == "warnings.warn"]
    ok = False
    if w:
        # find the guarding test
        guards = [n for n in walk_no_nested(fn.node) if isinstance(n, ast.If) and any(x is w[0] for x in ast.walk(n))]
        tests = [norm(g.test) for g in guards]
        ok = any(t == f"large and np.any(np.abs({data}) > large)" for t in tests) and any("self.dtype.kind in" in t for t in tests)
        ok = ok and any(norm(s) == f"large = LARGE_INPUT.get({size}, 0)" for s in walk_no_nested(fn.node) if isinstance(s, ast.Assign))
        ok = ok and "RuntimeWarning" in norm(w[0])
    res.check(ok, f"{name}:warning", fn.where(w[0]) if w else fn.where(), f"{name} must warn (RuntimeWarning) when integer data exceed LARGE_INPUT for their item size", rid=rid)


MUTANTS = [
    Mutant("in_units-int-target", ARR, "unyt_array.in_units", 'new_dtypekind = "c" if self.dtype.kind == "c" else "f"', 'new_dtypekind = "c" if self.dtype.kind == "c" else self.dtype.kind', ("C17-R1",)),
    Mutant("in_units-no-widen", ARR, "unyt_array.in_units", "dsize = max(2, self.dtype.itemsize)", "dsize = self.dtype.itemsize", ("C17-R1",)),
    Mutant("in_units-complex-lost", ARR, "unyt_array.in_units", 'new_dtypekind = "c" if self.dtype.kind == "c" else "f"', 'new_dtypekind = "f"', ("C17-R1",)),
    Mutant("in_units-cast-first", ARR, "unyt_array.in_units", "ret = np.asarray(self.ndview * conversion_factor, dtype=new_dtype)", "ret = np.asarray(self.ndview, dtype=self.dtype) * self.dtype.type(conversion_factor)", ("C17-R1",)),
    Mutant("convert-multiply-first", ARR, "unyt_array.convert_to_units", "                float_values = values.astype(new_dtype)\n", "                float_values = (values * int(conv_factor)).astype(new_dtype)\n", ("C17-R1",)),
    Mutant("convert-one-byte-allowed", ARR, "unyt_array.convert_to_units", "                if dsize == 1:", "                if dsize == 0:", ("C17-R1",)),
    Mutant("ufunc-complex-lost", ARR, "unyt_array.__array_ufunc__", 'new_dtypekind = "c" if inp1.dtype.kind == "c" else "f"\n                    new_dtype = np.dtype(new_dtypekind', 'new_dtypekind = "f"\n                    new_dtype = np.dtype(new_dtypekind', ("C17-R1",)),
    Mutant("ufunc-int-operand", ARR, "unyt_array.__array_ufunc__", "inp1 = np.asarray(inp1, dtype=new_dtype) * conv", "inp1 = np.asarray(inp1) * conv", ("C17-R1", "C04-R2")),
    Mutant("out-promotion-removed", ARR, "unyt_array.__array_ufunc__", "                    np.copyto(out, float_values)\n", "", ("C17-R1",)),
    Mutant("threshold-off", ARR, None, "LARGE_INPUT = {4: 16777217, 8: 9007199254740993}", "LARGE_INPUT = {4: 16777217, 8: 9007199254740992}", ("C17-R2",)),
    Mutant("warning-dropped", ARR, "unyt_array.in_units", "                if large and np.any(np.abs(self.d) > large):", "                if False:", ("C17-R2",)),
]
