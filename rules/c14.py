"""C14 - every documented unit name resolves to exactly one, correctly scaled unit."""

from __future__ import annotations

import ast

from engine.core import AnalysisError, Repo, kwarg_of, norm, walk_no_nested
from engine.flow import enum_paths, path_facts
from engine.fold import DimVec, Tables
from engine.mutate import Mutant
from engine.report import Result
from spec import unit_definitions as SPEC

TECHNIQUE = "ambiguity analysis of the folded name tables under an independently written generator of the documented naming scheme; must-precede rules for resolution precedence; table comparison for prefixability and prefix values; who-builds-what rule for the exported namespaces"
LEVEL_TEXT = """Static over the folded tables (no name is resolved by running the library): (R1) an independent generator of
the documented naming scheme - table symbol, listed alias, prefix symbol x prefixable symbol, prefix symbol x short alias,
prefix word x alias, Title-case variants - produces every documented name with its intended reading (canonical unit, prefix
value); no string may have two readings that differ in dimension or scale, every alias key must be a table symbol, and a
string that is both a table name and a prefix split must denote the same unit either way; (R2) resolution precedence: the
direct table hit returns before any prefix splitting, the alias map is consulted before a fresh symbol is made, the
splitter tries one prefix ('da' first) and accepts it only for a table entry whose prefixable flag is set; (R3) all 23
prefix spellings carry SI values (the three micro spellings and both milli spellings agree); (R4) unit_symbols builds every
exported name from its canonical spelling in the default registry, constants are imported before units (documented
precedence), add_symbols builds the same names for a custom registry; (R5) the prefixable flag of every row equals the
documented one and no documented unit is missing.
(R6) generate_name_alternatives files every spelling through one nested routine (list append + alias-map store, paired); for every call of it - helpers inlined - the list written is names[K] for the very canonical key K given to the alias map, up to a canonical re-spelling local; (R7) the parser's constant text rewrites, folded from the source and applied to every documented name containing a rewritten character, must again give a documented name of the same unit (one known finding: word-prefixed degree-sign spellings)."""
LEVEL_NOTE = """Undecided: that the ~3900 generated names actually resolve at run time (the loops of
generate_name_alternatives and unit_symbols are executed code, not tables); only the table-level preconditions and the
shape of the resolution code are decided."""
EXPLANATION = LEVEL_TEXT
ASSUMPTIONS = ["the documented naming scheme is: symbol | alias | prefix-symbol+prefixable symbol | prefix-symbol+short alias | prefix-word+alias | Title-case of long lower-case names"]

LUT = "unyt/_unit_lookup_table.py"
REG = "unyt/unit_registry.py"
US = "unyt/unit_systems.py"
PAR = "unyt/_parsing.py"


def universe(t: Tables):
    """name -> set of readings (canonical symbol, prefix value)"""
    out = {}

    def add(name, canon, pv):
        out.setdefault(name, set()).add((canon, pv))

    lut = t.lut
    alts = dict(t.alternatives)
    for sym, row in t.lut_pairs:
        add(sym, sym, 1.0)
        aliases = list(alts.get(sym, ()))
        for a in aliases:
            add(a, sym, 1.0)
            if a.islower() and len(a) >= 4:
                add(a.title(), sym, 1.0)
        if not row[4] and len(sym) > 3 and sym.title() != sym and all(len(k) > 3 for k in sym.split("_")):
            add(sym.title(), sym, 1.0)
        if row[4]:
            for p, (pv, word) in t.prefix_pairs:
                add(p + sym, sym, pv)
                for a in aliases:
                    if len(a) < 4:
                        add(p + a, sym, pv)
                    add(word + a, sym, pv)
                    add((word + a).title(), sym, pv)
    return out


def check(repo: Repo) -> Result:
    res = Result("C14")
    t = Tables(repo)
    r1 = res.rule("C14-R1", "no documented name has two readings with different dimension or scale; alias keys are table symbols", floor=1500)
    uni = universe(t)
    lut = t.lut
    for name, readings in sorted(uni.items()):
        vals = set()
        for canon, pv in readings:
            row = lut[canon]
            vals.add((row[1], f"{row[0] * pv:.12e}", float(row[2])))
        if len(vals) > 1:
            res.bad(f"name:{name}", f"{LUT} name {name!r}", f"the unit string {name!r} has {len(readings)} documented readings that denote different units: {sorted(readings)}", "one reading", sorted(readings), rid=r1)
        else:
            res.ok(f"name:{name}", r1)
    for canon, alts in t.alternatives:
        if canon not in lut:
            res.bad(f"alias-key:{canon}", LUT, f"default_unit_name_alternatives has key {canon!r} which is not a table symbol", rid=r1)
    seen = {}
    for canon, alts in t.alternatives:
        for a in alts:
            if a in seen and seen[a] != canon:
                res.bad(f"alias-dup:{a}", LUT, f"alias {a!r} is listed for {seen[a]!r} and {canon!r}", rid=r1)
            seen[a] = canon
            if a in lut and a != canon and a != "":
                res.bad(f"alias-shadows:{a}", LUT, f"alias {a!r} of {canon!r} is itself a different table symbol", rid=r1)

    # the functions that turn a name into a table row keep nothing between calls: a process-global memo keyed by the
    # name alone answers for the table of whichever registry asked first (one name, then, has the reading of another
    # registry).  Evaluated before the decision table so that the report is made even when the table cannot be built.
    from rules import memo_rules

    r11 = res.rule("C14-R11", "name resolution (_split_prefix, _lookup_unit_symbol, UnitRegistry.__getitem__, the expression walk) keeps no process-global memo whose key does not determine the table it was computed from (shared with C12-R1)", floor=1)
    lookup_fns = {"_split_prefix", "_lookup_unit_symbol", "UnitRegistry.__getitem__", "UnitRegistry.__contains__", "_get_unit_data_from_expr", "_lookup_unit_symbol_in_lut", "Unit.__new__"}
    n_g = 0
    for key, ok, where, msg, exp, found in memo_rules.calltime_globals(repo, only_functions=lookup_fns):
        n_g += 1
        res.check(ok, "lookup:" + key, where, msg + " - the same name then resolves to a unit of another registry's table", exp, found, rid=r11)
    if not n_g:
        res.ok("lookup-keeps-no-global-state", r11)

    precedence(repo, res)

    r3 = res.rule("C14-R3", "prefix spellings carry SI values; alternative spellings of one prefix agree", floor=23)
    byword = {}
    for p, (pv, word) in t.prefix_pairs:
        want = SPEC.SI_PREFIXES.get(p)
        res.check(want is not None and want[0] == pv, f"prefix:{p}:{word}", LUT, f"prefix {p!r} must be {want[0] if want else '?'}", want, pv, rid=r3)
        byword.setdefault(word, set()).add(pv)
    res.check(all(len(v) == 1 for v in byword.values()), "prefix-words", LUT, "one prefix word, one value", found={k: sorted(v) for k, v in byword.items() if len(v) > 1}, rid=r3)
    # the table is an OrderedDict built from pairs: a repeated key replaces the earlier row.  The *effective* table
    # (last row per key) must still give every SI prefix its word form with its value - a row added under an existing
    # key ("da": "deka") silently removes the word it shadows ("decagram", "Decameter", ...) from the name space.
    eff = {}
    for p_, (pv, word) in t.prefix_pairs:
        eff[p_] = (pv, word)
    eff_words = {w: v for (v, w) in eff.values()}
    for p_, (val, word) in sorted(SPEC.SI_PREFIXES.items()):
        got = eff.get(p_)
        res.check(got is not None and got[1] == word and got[0] == val, f"effective:{p_}:{word}", f"{LUT} unit_prefixes[{p_!r}]", f"after duplicate keys are resolved (last row wins) the prefix {p_!r} must carry the SI word {word!r} with value {val:g}: otherwise every name spelled with that word stops resolving", (val, word), got, rid=r3)
    extra = {w: v for w, v in eff_words.items() if w not in {x[1] for x in SPEC.SI_PREFIXES.values()}}
    res.check(not extra, "effective:no-undocumented-words", LUT, "the effective prefix table has no word form outside the SI list", found=extra, rid=r3)

    namespaces(repo, res)
    filing(repo, res)
    rewrites(repo, res, t, uni)
    from rules import c12
    from rules.common import share

    from rules import c02 as _c02

    r9 = res.rule("C14-R9", "a prefixed unit derived by the lookup is stored as NOT prefixable: otherwise a second prefix is accepted once the first has been used (kkm, Mkm), a reading no documented name has", floor=1)
    share(res, r9, "C02", lambda t_: _c02.prefix_composition(repo, t_), ["C02-R2"], want=lambda k: k == "not-prefixable")
    r10 = res.rule("C14-R10", "one name, one unit, whatever was looked up before: re-adding a symbol drops the prefixed rows derived from its old definition before the new row is stored, and define_unit refuses every spelling the registry already resolves (prefixed forms included, stored or not); the purge removes a row only when it equals the row the lookup would have derived, so that explicit rows whose name happens to be prefix + symbol (kt, ft, nt, ha) keep their reading (shared with C12-R2)", floor=3)
    share(res, r10, "C12", lambda t_: c12.invalidation(repo, t_), ["C12-R2"], want=lambda k: k in ("add:derived-rows", "add:derived-rows:after-evaluation", "define_unit:exists-guard", "define_unit", "add:every-normal-exit-writes", "_forget_prefixed", "_forget_prefixed:recogniser"), min_keys=3)
    r8 = res.rule("C14-R8", "after a registry edit every spelling of the edited unit (alias, word-prefixed form) is re-read from the table: the whole unit-string cache is cleared, not only the keys that contain the symbol's text", floor=3)
    share(res, r8, "C12", lambda t_: c12.invalidation(repo, t_), ["C12-R2"], want=lambda k: k.endswith(":unit-cache"), min_keys=3)

    r5 = res.rule("C14-R5", "prefixable flag of every row equals the documented one; no documented unit is missing", floor=140)
    for sym, (dim, scale, off, tol, pref, src) in SPEC.UNITS.items():
        row = lut.get(sym)
        if row is None:
            res.bad(f"missing:{sym}", LUT, f"documented unit {sym!r} is missing from the table: its names no longer resolve", rid=r5)
            continue
        res.check(bool(row[4]) == pref, f"prefixable:{sym}", f"{LUT} row {sym!r}", f"{sym!r} must {'accept' if pref else 'not accept'} SI prefixes", pref, bool(row[4]), rid=r5)
    return res


def precedence(repo, res):
    r2 = res.rule("C14-R2", "resolution precedence: table hit before prefix split; alias map before fresh symbol; one prefix attempt, only for prefixable entries", floor=6)
    reg = repo.mod(REG)
    from rules.anchors import lookup_symbol

    fn = lookup_symbol(repo)
    LKN = fn.name
    res.fn(fn)
    sym, lut = fn.params
    # on paths: whenever the name is in the table, the table row is returned and no prefix split was evaluated on the
    # way; the split happens only on paths where the name is not in the table
    ok = True
    n_hit = 0
    for p_ in enum_paths(fn.body):
        fm_ = dict((t, tr) for t, tr, _ in path_facts(p_))
        hit = fm_.get(f"{sym} in {lut}")
        split_here = any(isinstance(c, ast.Call) and norm(c.func) == "_split_prefix" for ev in p_ if ev[0] in ("stmt", "cond", "return") and ev[1] is not None for c in ast.walk(ev[1] if not isinstance(ev[1], ast.Return) else (ev[1].value or ast.Constant(value=None))))
        if hit is True:
            n_hit += 1
            ok &= p_[-1][0] == "return" and norm(p_[-1][1].value) == f"{lut}[{sym}]" and not split_here
        elif hit is None and split_here:
            ok = False  # a split evaluated before the membership test
    ok &= n_hit >= 1
    res.check(ok, "lookup:direct-first", fn.where(), "a name that is in the table must be returned before any prefix splitting is attempted", rid=r2)
    pf = [n for n in fn.body if isinstance(n, ast.If) and norm(n.test) == "prefix"]
    res.check(len(pf) == 1, "lookup:prefix-only-if-split", fn.where(), "the prefixed reading is used only when the splitter returned a prefix", rid=r2)
    sp = repo.mod(US).func("_split_prefix")
    res.fn(sp)
    # decision table of the splitter over the folded tables: for every string of a universe built from the table
    # (every symbol, every prefix attached to every symbol - prefixable or not -, 'da' forms, unknown remainders) the
    # branch nest is folded and the selected return is compared with the documented rule: one candidate prefix ('da'
    # when the string starts with it, otherwise the first character), accepted only if it is an SI prefix and the
    # remainder is a table symbol whose prefixable flag is set.
    from engine.dtable import decide

    t = Tables(repo)
    lutd = {k: tuple(v) for k, v in t.lut.items()}
    prefixes = dict(t.prefix_pairs)
    universe = set(lutd)
    for pfx in prefixes:
        for sym in lutd:
            universe.add(pfx + sym)
    universe |= {"da", "d", "k", "kzz", "dazz", "zz", "dam", "dag", "daft", "mm", "mmin", "cm", "min", "ft", "dakm"}
    usm = repo.mod(US)
    glob = {"unit_prefixes": prefixes}
    bad = []
    n_split = 0
    for w in sorted(universe):
        out = decide(usm, sp, [w, lutd], glob)
        cand = "da" if w[:2] == "da" else w[:1]
        rest = w[len(cand):]
        entry = lutd.get(rest)
        want = (cand, rest) if (cand in prefixes and entry and entry[4]) else ("", w)
        got = out.value if out.kind == "return" else out
        if want[0]:
            n_split += 1
        if got != want:
            bad.append((w, got, want))
    res.check(not bad and n_split > 100, "split:decision-table", sp.where(), f"_split_prefix decides {len(universe)} table-derived strings; a prefix must be accepted exactly when it is an SI prefix and the remainder is a prefixable table symbol" + (f" - first deviation: {bad[0][0]!r} gives {bad[0][1]!r}, documented {bad[0][2]!r}" if bad else ""), "documented split", bad[:3], rid=r2)
    res.check(not [x for x in bad if x[2][0] == "" and isinstance(x[1], tuple) and x[1][0] != ""], "split:prefixable-only", sp.where(), "a non-prefixable unit (or an unknown remainder) must never accept a prefix", found=[x for x in bad if x[2][0] == ""][:3], rid=r2)
    res.check(not [x for x in bad if x[2][0] != ""], "split:every-prefix-of-prefixable", sp.where(), "every SI prefix attached to a prefixable unit is split off", found=[x for x in bad if x[2][0] != ""][:3], rid=r2)
    tf = repo.mod(PAR).func("_auto_positive_symbol")
    res.fn(tf)
    # (shared with C20-R1) the alias map is consulted first; only a KeyError falls back to the name as given
    import rules.c20 as c20

    tmp = Result("C20")
    c20.vocabulary(repo, tmp)
    bad = [f for f in tmp.findings if f.key.endswith("transformer:alias-map")]
    res.check(not bad, "parser:alias-first", tf.where(), "a listed spelling is mapped to its canonical symbol; only unknown names become fresh symbols", found=[f.found for f in bad], rid=r2)
    # UnitRegistry.__getitem__/__contains__ use the same lookup
    for m in ("__getitem__", "__contains__"):
        f = reg.func(f"UnitRegistry.{m}")
        calls = [norm(c) for c in ast.walk(f.node) if isinstance(c, ast.Call) and norm(c.func) == LKN]
        res.check(len(calls) == 1 and calls[0] == f"{LKN}(str({f.params[1]}), self.lut)", f"registry.{m}", f.where(), "registry lookups resolve prefixed names through the same routine on the registry's own table", found=calls, rid=r2)


def namespaces(repo, res):
    r4 = res.rule("C14-R4", "exported namespaces are built from canonical spellings in the right registry; constants win over units", floor=5)
    us = repo.mod("unyt/unit_symbols.py")
    loops = [n for n in us.tree.body if isinstance(n, ast.For)]
    ok = False
    if len(loops) == 1:
        lp = loops[0]
        ok = us.qual(lp.iter.func.value) == "unyt._unit_lookup_table.name_alternatives" if isinstance(lp.iter, ast.Call) and isinstance(lp.iter.func, ast.Attribute) and lp.iter.func.attr == "items" else False
        inner = [n for n in lp.body if isinstance(n, ast.For)]
        canon = norm(lp.target.elts[0]) if isinstance(lp.target, ast.Tuple) else None
        if ok and len(inner) == 1 and canon:
            st = inner[0].body[0]
            ok = isinstance(st, ast.Assign) and isinstance(st.value, ast.Call) and us.qual(st.value.func) == "unyt.unit_object.Unit" and norm(st.value.args[0]) == canon and us.qual(kwarg_of(st.value, "registry")) == "unyt.unit_registry.default_unit_registry" and norm(st.targets[0]) == f"_namespace[{norm(inner[0].target)}]"
        else:
            ok = False
    res.check(ok, "unit_symbols", "unyt/unit_symbols.py", "each exported alternative name is Unit(canonical name, registry=default registry)", rid=r4)
    ns = us.assign("_namespace")
    res.check(norm(ns) == "globals()", "unit_symbols:namespace", "unyt/unit_symbols.py", "names are exported into the module namespace", rid=r4)
    init = repo.mod("unyt/__init__.py")
    from engine.sem import cnorm

    calls = [(n.lineno, cnorm(n.value)) for n in init.tree.body if isinstance(n, ast.Expr) and isinstance(n.value, ast.Call) and norm(n.value.func) == "import_units"]
    res.check([c for _, c in calls] == ["import_units(physical_constants, globals())", "import_units(unit_symbols, globals())"], "init:order", "unyt/__init__.py", "constants are imported before unit symbols (a name that is both denotes the constant)", found=calls, rid=r4)
    # ... and import_units never overwrites a name that is already there
    iu = init.func("import_units")
    from engine.sem import summarise

    lp = [n for n in iu.body if isinstance(n, ast.For)]
    ok = len(lp) == 1 and isinstance(lp[0].target, ast.Tuple)
    if ok:
        k_, v_ = [norm(e) for e in lp[0].target.elts]
        nsname = iu.params[1]
        for x in summarise(iu, body=lp[0].body, keep={k_, v_, nsname}):
            stores = [e for e in x.effects if e.startswith(f"{nsname}[{k_}] =")]
            if stores:
                ok &= x.has(f"{k_} in {nsname}", False) and x.has(f"isinstance({v_}, (unyt_quantity, Unit))", True) and stores == [f"{nsname}[{k_}] = {v_}"]
    res.check(ok, "init:no-overwrite", iu.where(), "import_units keeps the first binding of a name (so the constant, imported first, wins over a unit of the same name) and imports only units / quantities", rid=r4)
    fn = repo.mod(US).func("add_symbols")
    res.fn(fn)
    txt = norm(fn.node)
    ok = "namespace[name] = Unit(unit.expr, registry=registry)" in txt and "namespace[name] = Unit(name, registry=registry)" in txt and "for name in [k for k in registry.keys() if k not in namespace]" in txt
    res.check(ok, "add_symbols", fn.where(), "add_symbols rebuilds every exported unit name in the given registry and adds the registry's own symbols", rid=r4)


def rewrite_chain(fn):
    """the constant str.replace steps the input text goes through before it reaches parse_expr, in order, followed along
    the names that hold the text (the parameter itself or a local it is copied into): ([(old, new), ...], name handed to
    parse_expr)"""
    p0 = fn.params[0]
    holders = {p0}
    chain = []
    last = p0
    for a in [n for st in fn.body for n in ast.walk(st) if isinstance(n, ast.Assign)]:
        if not (len(a.targets) == 1 and isinstance(a.targets[0], ast.Name)):
            continue
        v = a.value
        if isinstance(v, ast.Call) and isinstance(v.func, ast.Attribute) and v.func.attr == "replace" and isinstance(v.func.value, ast.Name) and v.func.value.id in holders:
            if len(v.args) != 2 or not all(isinstance(x, ast.Constant) and isinstance(x.value, str) for x in v.args):
                raise AnalysisError(f"{fn.where(a)}: a text rewrite is not a replace of constants on the input: {norm(a)[:70]}")
            if v.func.value.id != last:
                raise AnalysisError(f"{fn.where(a)}: a text rewrite does not continue from the previous one: {norm(a)[:70]}")
            chain.append((v.args[0].value, v.args[1].value))
            holders.add(a.targets[0].id)
            last = a.targets[0].id
    pe = [c for c in ast.walk(fn.node) if isinstance(c, ast.Call) and norm(c.func) == "parse_expr" and c.args]
    if len(pe) != 1 or not isinstance(pe[0].args[0], ast.Name) or pe[0].args[0].id != last:
        raise AnalysisError(f"{fn.where()}: parse_expr is not handed the rewritten text")
    return chain, last


def rewrites(repo, res, t, uni):
    """C14-R7: parse_unyt_expr rewrites the text before it is parsed (constant str.replace steps: % -> percent,
    the degree signs -> names).  The chain is folded from the source and applied to every documented name that contains
    a rewritten character: the result must again be a documented name with the same reading (unit and prefix value),
    otherwise that documented spelling cannot be used as a unit string - or denotes another unit as a string than as
    an attribute."""
    r7 = res.rule("C14-R7", "the parser's text rewrites map every documented name onto a documented name of the same unit", floor=20)
    fn = repo.mod(PAR).func("parse_unyt_expr")
    res.fn(fn)
    chain, _final = rewrite_chain(fn)
    if len(chain) < 2:
        raise AnalysisError(f"{fn.where()}: the rewrite chain of parse_unyt_expr was not found")

    def rewrite(text):
        for a, b in chain:
            text = text.replace(a, b)
        return text

    lut = t.lut

    def denotes(readings):
        vals = set()
        for canon, pv in readings:
            row = lut[canon]
            vals.add((repr(row[1]), f"{row[0] * pv:.12e}", float(row[2])))
        return vals

    groups = {}
    n = 0
    for name, readings in sorted(uni.items()):
        new = rewrite(name)
        if new == name:
            continue
        n += 1
        if new in uni and denotes(uni[new]) == denotes(readings):
            res.ok(f"rewrite:{name}", r7)
            continue
        # group the failures by (canonical unit, spelling class) so that one cause is one finding
        canon = sorted(readings)[0][0]
        pv = sorted(readings)[0][1]
        cls = "bare" if pv == 1.0 else ("word-prefixed" if any(name.lower().startswith(w) for _, (_, w) in t.prefix_pairs if w) and not any(name.startswith(p_) and name[len(p_):] in dict(t.alternatives).get(canon, ()) for p_, _ in t.prefix_pairs) else "symbol-prefixed")
        groups.setdefault((canon, cls), []).append((name, new, "not a documented name" if new not in uni else f"denotes {sorted(uni[new])}"))
    for (canon, cls), items in sorted(groups.items()):
        ex = items[0]
        res.bad(f"rewrite:{canon}:{cls}", fn.where(), f"{len(items)} documented {cls} spellings of {canon} (e.g. {ex[0]!r}) are rewritten to {ex[1]!r}, which is {ex[2]}: the name is exported as an attribute but cannot be used as a unit string", "a documented name of the same unit", [i[0] for i in items][:6], rid=r7)
    if n < 20:
        raise AnalysisError(f"{fn.where()}: only {n} documented names are touched by the rewrite chain {chain}")


def filing(repo, res):
    """C14-R6: generate_name_alternatives keeps two maps: names[canonical] -> spellings (unit_symbols turns every
    spelling into the attribute Unit(canonical)) and inv_names[spelling] -> canonical (the parser's alias map).  Both
    are written by one nested primitive (list.append(spelling); inv[spelling] = canonical).  For every call of that
    primitive - directly or through other nested helpers, whose parameters are substituted - the list written must be
    names[K] with K the very canonical key handed to inv_names (up to a local that is the key's canonical re-spelling,
    e.g. used_prefix for the micro signs): otherwise the attribute and the string of one name are different units."""
    r6 = res.rule("C14-R6", "every generated spelling is filed under the unit its string form resolves to (attribute = string)", floor=6)
    mod = repo.mod(LUT)
    fn = mod.func("generate_name_alternatives")
    res.fn(fn)
    rets = [n for n in fn.body if isinstance(n, ast.Return)]
    if len(rets) != 1 or not isinstance(rets[0].value, ast.Tuple) or len(rets[0].value.elts) != 2:
        raise AnalysisError(f"{fn.where()}: generate_name_alternatives does not return (names, inv_names)")
    names_v, inv_v = [norm(e) for e in rets[0].value.elts]
    nested = {n.name: n for n in fn.body if isinstance(n, ast.FunctionDef)}
    # the filing primitive: appends its name parameter to its list parameter and stores inv[name] = canonical
    prim = None
    for name, nd in nested.items():
        ps = [a.arg for a in nd.args.args]
        app = [c for c in ast.walk(nd) if isinstance(c, ast.Call) and isinstance(c.func, ast.Attribute) and c.func.attr == "append" and isinstance(c.func.value, ast.Name) and c.func.value.id in ps and len(c.args) == 1 and isinstance(c.args[0], ast.Name) and c.args[0].id in ps]
        sto = [a for a in ast.walk(nd) if isinstance(a, ast.Assign) and isinstance(a.targets[0], ast.Subscript) and norm(a.targets[0].value) == inv_v and isinstance(a.targets[0].slice, ast.Name) and isinstance(a.value, ast.Name) and a.value.id in ps]
        if len(app) == 1 and len(sto) == 1 and app[0].args[0].id == sto[0].targets[0].slice.id:
            prim = (name, ps.index(app[0].func.value.id), ps.index(sto[0].value.id), ps.index(app[0].args[0].id))
            # both writes happen together (same branch)
            from engine.flow import enum_paths

            for p in enum_paths(nd.body):
                a_ = any(ev[0] == "stmt" and any(x is app[0] for x in ast.walk(ev[1])) for ev in p)
                s_ = any(ev[0] == "stmt" and ev[1] is sto[0] for ev in p)
                res.check(a_ == s_, f"primitive:{name}:paired", f"{LUT}:{nd.lineno}", "a spelling is added to the list of a unit exactly when it is entered in the alias map", rid=r6)
    if prim is None:
        raise AnalysisError(f"{fn.where()}: the nested routine that files a spelling (list.append + {inv_v}[...] = ...) was not found")
    pname, i_list, i_canon, i_name = prim
    # other writers of the two maps would bypass the primitive
    stray = []
    for n in ast.walk(fn.node):
        if isinstance(n, ast.Assign) and isinstance(n.targets[0], ast.Subscript) and norm(n.targets[0].value) in (inv_v, names_v):
            inside_prim = any(n is x for x in ast.walk(nested[pname]))
            if not inside_prim:
                stray.append(norm(n)[:70])
    res.check(not stray, "single-writer", fn.where(), "the two name maps are written only through the filing routine", found=stray, rid=r6)

    # canonical re-spellings: a local whose every definition is another local (its source), a literal, or a call of a
    # module-level helper on the source that returns either its argument or a literal
    def respelling_of(name, scope):
        defs = [a.value for a in ast.walk(scope) if isinstance(a, ast.Assign) and len(a.targets) == 1 and norm(a.targets[0]) == name]
        srcs = set()
        flat = []
        while defs:
            d = defs.pop()
            if isinstance(d, ast.IfExp):
                defs += [d.body, d.orelse]
            else:
                flat.append(d)
        defs = flat
        for d in defs:
            if isinstance(d, ast.Name):
                srcs.add(d.id)
            elif isinstance(d, ast.Constant):
                continue
            elif isinstance(d, ast.Call) and isinstance(d.func, ast.Name) and len(d.args) == 1 and isinstance(d.args[0], ast.Name) and not d.keywords and mod.has_func(d.func.id):
                g = mod.func(d.func.id)
                rets_ = [r.value for r in walk_no_nested(g.node) if isinstance(r, ast.Return)]
                if rets_ and all(isinstance(r, ast.Constant) or (isinstance(r, ast.Name) and r.id == g.params[0]) for r in rets_):
                    srcs.add(d.args[0].id)
                else:
                    raise AnalysisError(f"{LUT}:{d.lineno}: {name} is computed by {d.func.id}(), which is not a plain re-spelling (returns its argument or a literal)")
            elif isinstance(d, (ast.Call, ast.Subscript)):
                raise AnalysisError(f"{LUT}:{d.lineno}: definition of {name} is not understood: {norm(d)[:60]}")
            else:
                return None
        if defs and len(srcs) == 1:
            return next(iter(srcs))
        return None

    class Sub(ast.NodeTransformer):
        def __init__(self, m):
            self.m = m

        def visit_Name(self, n):
            return self.m.get(n.id, n) if isinstance(n.ctx, ast.Load) else n

    import copy

    sites = []

    def collect(scope_body, env, depth, origin):
        for st in scope_body:
            if isinstance(st, ast.FunctionDef):
                continue
            for c in [x for x in ast.walk(st) if isinstance(x, ast.Call) and isinstance(x.func, ast.Name)]:
                if any(c is y for nd in nested.values() for y in ast.walk(nd)) and depth == 0:
                    continue
                if c.func.id == pname:
                    args = [Sub(env).visit(copy.deepcopy(a)) for a in c.args]
                    if len(args) != 3 or c.keywords:
                        raise AnalysisError(f"{LUT}:{c.lineno}: call of {pname} with an unexpected argument list")
                    sites.append((origin or c, args))
                elif c.func.id in nested and c.func.id != pname:
                    if depth >= 3:
                        raise AnalysisError(f"{LUT}:{c.lineno}: nested helpers too deep")
                    nd = nested[c.func.id]
                    ps = [a.arg for a in nd.args.args]
                    if len(ps) != len(c.args) or c.keywords:
                        raise AnalysisError(f"{LUT}:{c.lineno}: call of helper {c.func.id} cannot be bound")
                    env2 = {p_: Sub(env).visit(copy.deepcopy(a)) for p_, a in zip(ps, c.args)}
                    collect(nd.body, env2, depth + 1, origin or c)

    collect(fn.body, {}, 0, None)
    if len(sites) < 6:
        raise AnalysisError(f"{fn.where()}: only {len(sites)} filing sites found")
    # which spellings exist is the documented naming scheme (ASSUMPTIONS): the conditions under which a spelling is filed
    # may only be the scheme's own - table membership / prefixable flag, short-alias and long-lower-case tests, "not
    # listed yet" - never a further property of the spelling (isalpha, isidentifier ...), which would silently drop
    # documented names such as kilowatt_hour
    from engine.flow import enum_paths as _ep2, path_facts as _pf2
    import re as _re2

    # vocabulary of the scheme's own tests (how they are combined or spelled is free): sizes, title-casing, lower-case
    # test, splitting compound names, membership in the tables being built
    VOCAB = {"len", "all", "any", "title", "islower", "split"}
    odd = set()
    for p_ in _ep2(fn.body):
        files_here = any(ev[0] == "stmt" and any(isinstance(c, ast.Call) and isinstance(c.func, ast.Name) and c.func.id in nested for c in ast.walk(ev[1])) for ev in p_)
        skips = p_[-1][0] in ("continue",)
        if not (files_here or skips):
            continue
        for t_, tr_, n_ in _pf2(p_):
            for c_ in ast.walk(n_):
                if isinstance(c_, ast.Call):
                    nm = c_.func.id if isinstance(c_.func, ast.Name) else c_.func.attr if isinstance(c_.func, ast.Attribute) else "?"
                    if nm not in VOCAB:
                        odd.add(f"{nm}() in `{norm(n_)[:60]}`")
    res.check(not odd, "filing-conditions", fn.where(), "a spelling is filed (or skipped) under a condition that is not part of the documented naming scheme: documented names are silently dropped from the tables, the namespaces and the parser's alias map", "tests built from len / title / islower / split and membership in the tables only", sorted(odd)[:4], rid=r6)
    for site, args in sites:
        lst, canon = args[i_list], args[i_canon]
        ok = isinstance(lst, ast.Subscript) and norm(lst.value) == names_v
        found = f"{norm(lst)} <- canonical {norm(canon)}"
        if ok:
            k = norm(lst.slice)
            c_ = norm(canon)
            if k != c_:
                # allowed: the canonical key is the list key with a local replaced by its canonical re-spelling
                ok = False
                for nm in {x.id for x in ast.walk(canon) if isinstance(x, ast.Name)}:
                    src = respelling_of(nm, fn.node)
                    if src is not None and norm(Sub({nm: ast.Name(id=src, ctx=ast.Load())}).visit(copy.deepcopy(canon))) == k:
                        ok = True
        res.check(ok, f"site:{site.lineno}:{norm(args[i_name])[:30]}", f"{LUT}:{site.lineno}", f"spelling {norm(args[i_name])} is listed under {norm(lst)[:40]} but its string form resolves to {norm(canon)}: unit_symbols exports the attribute as the former, the parser reads the string as the latter", "names[K] with K the canonical key given to the alias map", found, rid=r6)


MUTANTS = [
    Mutant("inch-prefixable", LUT, None, '("inch", (m_per_inch, dimensions.length, 0.0, r"\\rm{in}", False))', '("inch", (m_per_inch, dimensions.length, 0.0, r"\\rm{in}", True))', ("C14-R1", "C14-R5")),
    Mutant("tonne-prefixable", LUT, None, '("t", (1.0e3, dimensions.mass, 0.0, r"\\rm{t}", False))', '("t", (1.0e3, dimensions.mass, 0.0, r"\\rm{t}", True))', ("C14-R1",)),
    Mutant("alias-collision", LUT, None, '("ha", ("hectare",)),', '("ha", ("hectare", "hm")),', ("C14-R1",)),
    Mutant("alias-to-missing", LUT, None, '("nt", ("nit",)),', '("nits", ("nit",)),', ("C14-R1",)),
    Mutant("prefix-before-table", REG, "_lookup_unit_symbol", "    if symbol_str in unit_symbol_lut:\n        # lookup successful, return the tuple directly\n        return unit_symbol_lut[symbol_str]\n", "", ("C14-R2", "C02-R2")),
    Mutant("prefix-any-unit", US, "_split_prefix", "        if entry and entry[4]:", "        if entry:", ("C14-R2",)),
    Mutant("micro-spelling-differs", LUT, None, '("u", (1e-6, "micro")),', '("u", (1e-9, "micro")),', ("C14-R3",)),
    Mutant("units-before-constants", "unyt/__init__.py", None, "import_units(physical_constants, globals())\nimport_units(unit_symbols, globals())", "import_units(unit_symbols, globals())\nimport_units(physical_constants, globals())", ("C14-R4",)),
    Mutant("symbols-wrong-registry", "unyt/unit_symbols.py", None, "_Unit(_canonical_name, registry=_registry)", "_Unit(_alt_name)", ("C14-R4",)),
    Mutant("unit-removed", LUT, None, '        ("smoot", (1.7018, dimensions.length, 0.0, r"\\rm{smoot}", False)),\n', "", ("C14-R5",)),
    Mutant("cal-not-prefixable", LUT, None, '("cal", (4.184, dimensions.energy, 0.0, r"\\rm{cal}", True))', '("cal", (4.184, dimensions.energy, 0.0, r"\\rm{cal}", False))', ("C14-R5",)),
    Mutant("title-case-filed-under-bare-unit", LUT, "generate_name_alternatives", "                            append_name(names[up + key], up + key, alt.title())", "                            append_name(names[key], up + key, alt.title())", ("C14-R6",)),
    Mutant("alias-map-written-directly", LUT, "generate_name_alternatives", "                append_name(names[key], key, alt)\n", "                append_name(names[key], key, alt)\n                inv_names[alt.upper()] = key\n", ("C14-R6",)),
    Mutant("degree-sign-to-long-alias", PAR, "parse_unyt_expr", '    unit_expr = unit_expr.replace("°", "deg")\n', '    unit_expr = unit_expr.replace("°C", "degree_celsius")\n    unit_expr = unit_expr.replace("°", "deg")\n', ("C14-R7",)),
    Mutant("modify-selective-cache-delete", REG, "UnitRegistry.modify", "        self._unit_object_cache.clear()\n", "        for key in [k for k in self._unit_object_cache if symbol in k]:\n            del self._unit_object_cache[key]\n", ("C14-R8",)),
    Mutant("derived-row-stays-prefixable", REG, "_lookup_unit_symbol", "            latex_repr,\n            False,\n", "            latex_repr,\n            True,\n", ("C14-R9",)),
]
