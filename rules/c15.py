"""C15 - physical constants are coherent across unit systems and with the unit table."""

from __future__ import annotations

import ast

from engine.core import AnalysisError, Repo, kwarg_of, norm
from engine.fold import DimVec, Tables
from engine.mutate import Mutant
from engine.report import Result
from engine.symb import Expander
from spec import constant_definitions as SPEC

TECHNIQUE = "constant folding of _physical_ratios / physical_constants from the AST; relation, twin and alias-uniqueness checks on the folded data; structural rule for add_constants"
LEVEL_TEXT = """Static and exhaustive over the folded data: all module-level ratios and all 34 rows of physical_constants
are evaluated from the source; 20 defining relations (hbar, eps_0 mu_0 c^2, Stefan-Boltzmann, radiation constant,
Rydberg, six Planck units, eV/erg/J, amu, Avogadro) are checked on them, every name that is both a constant (or constant
alias) and a unit (or unit alias) of the same dimension must have the same SI magnitude, each constant is compared with
an independent published value and dimension, no exported name is produced by two rows, and add_constants is shown to
build the plain, _mks and _cgs guises of every name and alias from the same (value, unit) in the given registry."""
LEVEL_NOTE = """Undecided: the numbers after conversion into each registry's unit system (in_base / in_cgs numerics are
C10's undecided part). Published-value oracle resolution: 2e-6 for CODATA constants, 2e-4 where G enters, 1e-3 for solar
and planetary masses."""
EXPLANATION = LEVEL_TEXT
ASSUMPTIONS = ["spec/constant_definitions.py is correct", "float folding reproduces import-time values"]

LUT = "unyt/_unit_lookup_table.py"
RAT = "unyt/_physical_ratios.py"
US = "unyt/unit_systems.py"


def rel(a, b):
    if a == b:
        return 0.0
    return abs(a - b) / max(abs(a), abs(b))


def check(repo: Repo) -> Result:
    res = Result("C15")
    t = Tables(repo)

    r1 = res.rule("C15-R1", "defining relations among the folded ratios", floor=20)
    for name, f, tol, text in SPEC.RELATIONS:
        try:
            lhs, rhs = f(t.ratios)
        except KeyError as e:
            raise AnalysisError(f"anchor-missing ratio {e} needed by relation {name}")
        res.check(rel(lhs, rhs) <= tol, f"relation:{name}", RAT, f"defining relation violated: {text} (relative residual {rel(lhs, rhs):.3g} > {tol:g})", rhs, lhs, rid=r1)

    r1b = res.rule("C15-R1b", "constants table rows that are defined through ratios use the related ratio (hbar row = h/2pi, ...)", floor=3)
    cd = dict(t.constants)
    rows_rel = [
        ("hbar", lambda: (cd["hbar"][0], cd["h"][0] / (2 * 3.141592653589793)), 1e-15, "hbar = h / 2 pi"),
        ("a", lambda: (cd["a"][0], 4 * cd["σ"][0] / cd["c"][0]), 1e-15, "a = 4 sigma / c"),
        ("qe", lambda: (cd["qe"][0], -cd["qp"][0]), 0.0, "q_e = -q_p"),
        ("eps0mu0", lambda: (cd["eps_0"][0] * cd["mu_0"][0] * cd["c"][0] ** 2, 1.0), 1e-14, "eps_0 mu_0 c^2 = 1"),
    ]
    for name, f, tol, text in rows_rel:
        try:
            lhs, rhs = f()
        except KeyError as e:
            res.bad(f"rowrel:{name}", LUT, f"constant {e} missing from physical_constants", rid=r1b)
            continue
        res.check(rel(lhs, rhs) <= tol, f"rowrel:{name}", LUT, f"relation between table rows violated: {text}", rhs, lhs, rid=r1b)

    # SI magnitude and dimension of every constant row
    r3 = res.rule("C15-R3", "each constant: unit string has the reference dimension and value x unit scale is the published SI value within tolerance", floor=34)
    si = {}
    for key, (val, unit, alts) in t.constants:
        sc, dv = t.unit_string(unit)
        si[key] = (val * sc, dv)
        if key not in SPEC.CONSTANTS:
            res.note(f"constant {key!r} has no reference row (unverified)")
            continue
        dim, want, tol, src = SPEC.CONSTANTS[key]
        probs = []
        if dv != DimVec(dim):
            probs.append(f"dimension of {unit!r} is {dv}, expected {DimVec(dim)}")
        if rel(val * sc, want) > tol:
            probs.append(f"SI value {val * sc!r} differs from {want!r} by {rel(val * sc, want):.3g} (tolerance {tol:g})")
        if probs:
            res.bad(f"const:{key}", f"{LUT} physical_constants[{key!r}]", f"constant {key!r} ({src}): " + "; ".join(probs), want, val * sc, rid=r3)
        else:
            res.ok(f"const:{key}", r3)
    # relations that tie constants to the *units* built from the same physics (m_pl, l_pl, t_pl rows of the unit table are
    # derived from newton_mks / hbar / c): evaluated on the SI magnitudes of the constant rows, so a row that is given its
    # own literal drifts away from the units and constants derived from the shared ratio
    post_rel = [
        ("planck-mass", lambda: (si["m_pl"][0] ** 2 * si["G"][0], si["hbar"][0] * si["c"][0]), 1e-14, "m_pl^2 G = hbar c"),
        ("planck-length", lambda: (si["l_pl"][0] ** 2 * si["c"][0] ** 3, si["hbar"][0] * si["G"][0]), 1e-14, "l_pl^2 c^3 = hbar G"),
        ("planck-time", lambda: (si["t_pl"][0] * si["c"][0], si["l_pl"][0]), 1e-14, "t_pl c = l_pl"),
        ("G-ratio", lambda: (si["G"][0], t.ratios["newton_mks"]), 0.0, "the G row is the ratio the Planck and geometrized units are derived from"),
    ]
    for name, f, tol, text in post_rel:
        try:
            lhs, rhs = f()
        except KeyError as e:
            res.bad(f"rowrel:{name}", LUT, f"constant / ratio {e} missing", rid=r1b)
            continue
        res.check(rel(lhs, rhs) <= tol, f"rowrel:{name}", LUT, f"relation between constant rows violated: {text} (relative residual {rel(lhs, rhs):.3g})", rhs, lhs, rid=r1b)
    # a constant is a floating-point quantity: an integer literal in the table makes an int64 constant whose powers
    # overflow silently (c_mks**3) or raise (c_mks**-1)
    r8 = res.rule("C15-R8", "every constant row holds a Python float (an integer literal yields an integer-typed constant: c_mks**3 overflows int64, c_mks**-1 raises)", floor=30)
    for key, (val, unit, alts) in t.constants:
        res.check(isinstance(val, float), f"const-float:{key}", f"{LUT} physical_constants[{key!r}]", f"constant {key!r} is built from the {type(val).__name__} {val!r}: the quantity and its _mks form get an integer dtype", "float", type(val).__name__, rid=r8)
    for key in SPEC.CONSTANTS:
        if key not in si:
            res.bad(f"const-missing:{key}", LUT, f"documented constant {key!r} is missing from physical_constants", rid=r3)

    # twins: constant names / aliases that are also unit names
    r2 = res.rule("C15-R2", "a name that is both a constant (or alias) and a unit (or alias) of the same dimension denotes the same SI magnitude", floor=12)
    for key, (val, unit, alts) in t.constants:
        for nm in [key] + list(alts):
            try:
                usc, udv, uoff = t.resolve_symbol(nm)
            except AnalysisError:
                continue
            cval, cdv = si[key]
            if udv != cdv:
                # a constant whose own symbol is also the unit of the same quantity (t_pl, me, Msun ...) has a unit twin:
                # each of its alias names, where it is a unit name too, must be a name of that twin
                twin = None
                if nm != key:
                    try:
                        ksc, kdv, _ = t.resolve_symbol(key)
                        if kdv == cdv and rel(ksc, cval) <= 1e-12:
                            twin = key
                    except AnalysisError:
                        pass
                if twin is not None:
                    res.bad(f"twin:{nm}", f"{LUT} {nm!r}", f"{nm!r} is an alias of the constant {key} ({cdv}) and {key} is also the unit of that quantity, but as a unit name {nm!r} resolves to a unit of dimension {udv}: the same name denotes different quantities as a constant and as a unit", f"an alternative name of the unit {key}", f"a unit of dimension {udv}", rid=r2)
                else:
                    res.note(f"name {nm!r} is a constant ({cdv}) and a unit of another dimension ({udv}); the constant wins in the namespace")
                continue
            res.check(rel(usc, cval) <= 1e-15, f"twin:{nm}", f"{LUT} {nm!r}", f"{nm!r} as a unit has SI scale {usc!r} but as a constant {cval!r} (relative difference {rel(usc, cval):.3g})", cval, usc, rid=r2)

    # alias uniqueness
    r4 = res.rule("C15-R4", "no exported constant name (name, alias, _mks, _cgs, hmks, hcgs) is produced by two different rows", floor=100)
    owner = {}
    for key, (val, unit, alts) in t.constants:
        for nm in [key] + list(alts):
            for suf in ("", "_mks", "_cgs"):
                full = nm + suf
                if full in owner and owner[full] != key:
                    res.bad(f"name:{full}", LUT, f"constant name {full!r} is produced by rows {owner[full]!r} and {key!r}", rid=r4)
                else:
                    if full not in owner:
                        res.ok(f"name:{full}", r4)
                    owner[full] = key
    for legacy in ("hmks", "hcgs"):
        res.check(owner.get(legacy, "h") == "h", f"name:{legacy}", LUT, f"{legacy} collides with a constant row", rid=r4)

    add_constants_shape(repo, res)
    from rules import c03
    from rules.common import share

    r6 = res.rule("C15-R6", "constants built for a registry are converted into its unit system by the EM route: within a system that has a current unit no Gaussian factor is applied (charge constants of the imperial / galactic / planck systems)", floor=2)

    def _route(t_):
        t_.rule("C03-R4", "x")
        c03.em_route(repo, t_, "C03-R4")
        c03.em_apply(repo, t_, "C03-R4")

    share(res, r6, "C03", _route, ["C03-R4"], want=lambda k: k.startswith("em-route:"), min_keys=2)

    r7 = res.rule("C15-R7", "add_constants expresses each constant in the registry's system with in_base(): that route multiplies by the factor and subtracts the offset of the same conversion on every path (Tcmb in a system whose temperature unit has an offset; shared with C03-R2)", floor=2)
    share(res, r7, "C03", lambda t: c03.apply_idiom(repo, t), ["C03-R2"], want=lambda k: k in ("in_base", "in_base:result"), min_keys=2)
    return res


def add_constants_shape(repo, res):
    r5 = res.rule("C15-R5", "add_constants builds name, name_mks, name_cgs for the constant and every alias from the same (value, unit) in the given registry", floor=8)
    mod = repo.mod(US)
    fn = mod.func("add_constants")
    res.fn(fn)
    ns, reg = fn.params[0], fn.params[1]
    loops = [n for n in fn.body if isinstance(n, ast.For)]
    if len(loops) != 1 or norm(loops[0].iter) not in ("physical_constants", "physical_constants.items()", "physical_constants.keys()"):
        raise AnalysisError(f"{fn.where()}: loop over physical_constants not found")
    outer = loops[0]
    if norm(outer.iter) == "physical_constants.items()":
        if not (isinstance(outer.target, ast.Tuple) and len(outer.target.elts) == 2):
            raise AnalysisError(f"{fn.where()}: loop over physical_constants.items() without (name, row) target")
        cname = norm(outer.target.elts[0])
        row_forms = (norm(outer.target.elts[1]), f"physical_constants[{cname}]")
    else:
        cname = norm(outer.target)
        row_forms = (f"physical_constants[{cname}]",)
    unpack = [s for s in outer.body if isinstance(s, ast.Assign) and isinstance(s.targets[0], ast.Tuple) and norm(s.value) in row_forms]
    if len(unpack) != 1 or len(unpack[0].targets[0].elts) != 3:
        raise AnalysisError(f"{fn.where()}: row unpacking not found")
    v, u, alts = [norm(e) for e in unpack[0].targets[0].elts]
    inner = [n for n in outer.body if isinstance(n, ast.For)]
    if len(inner) != 1:
        raise AnalysisError(f"{fn.where()}: loop over names not found")
    inner = inner[0]
    nm = norm(inner.target)
    it = inner.iter
    parts = set()
    if isinstance(it, ast.BinOp) and isinstance(it.op, ast.Add):
        parts = {norm(it.left), norm(it.right)}
    res.check(parts == {alts, f"[{cname}]"}, "names-iterated", fn.where(inner), "the name loop must cover the aliases and the constant's own name", f"{alts} + [{cname}]", norm(it), rid=r5)
    # quantity constructions
    qcalls = [c for c in ast.walk(inner) if isinstance(c, ast.Call) and norm(c.func) == "unyt_quantity"]
    okq = bool(qcalls)
    for c in qcalls:
        a = [norm(x) for x in c.args]
        rg = kwarg_of(c, "registry")
        okq &= a[:2] == [v, u] and rg is not None and norm(rg) == reg
    res.check(okq, "quantities", fn.where(inner), "every quantity is built from the row's own (value, unit) with registry=registry", f"unyt_quantity({v}, {u}, registry={reg})", [norm(c) for c in qcalls], rid=r5)
    # stores
    quan = None
    for s in inner.body:
        if isinstance(s, ast.Assign) and s.value in qcalls and isinstance(s.targets[0], ast.Name):
            quan = s.targets[0].id
    stores = {}
    for n in ast.walk(inner):
        if isinstance(n, ast.Assign) and isinstance(n.targets[0], ast.Subscript) and norm(n.targets[0].value) == ns:
            stores.setdefault(norm(n.targets[0].slice), []).append(n.value)
    plain = stores.get(nm, [])
    # in_base(unit_system=None, ...): the system may be passed by keyword or as the first positional argument
    okp = len(plain) == 2 and {norm(x).replace(f".in_base({reg}.unit_system)", f".in_base(unit_system={reg}.unit_system)") for x in plain} == {quan, f"{quan}.in_base(unit_system={reg}.unit_system)"}
    res.check(okp, "store:plain", fn.where(inner), "namespace[name] is the quantity in the registry's own unit system, or the quantity itself when not reducible", found=[norm(x) for x in plain], rid=r5)
    mks = stores.get(f"{nm} + '_mks'", [])
    res.check(len(mks) == 1 and (mks[0] in qcalls or norm(mks[0]) == quan), "store:_mks", fn.where(inner), "namespace[name_mks] is the quantity as tabulated (SI)", found=[norm(x) for x in mks], rid=r5)
    cgs = stores.get(f"{nm} + '_cgs'", [])
    res.check(len(cgs) == 1 and norm(cgs[0]) == f"{quan}.in_cgs()", "store:_cgs", fn.where(inner), "namespace[name_cgs] is the same quantity converted to cgs", found=[norm(x) for x in cgs], rid=r5)
    extra = set(stores) - {nm, f"{nm} + '_mks'", f"{nm} + '_cgs'", "'hmks'", "'hcgs'"}
    res.check(not extra, "store:others", fn.where(inner), "no other namespace entries are written", found=sorted(extra), rid=r5)
    # legacy hmks/hcgs are copies of h_mks/h_cgs
    leg = {k: [norm(x) for x in v2] for k, v2 in stores.items() if k in ("'hmks'", "'hcgs'")}
    res.check(leg == {"'hmks'": [f"{ns}['h_mks'].copy()"], "'hcgs'": [f"{ns}['h_cgs'].copy()"]}, "store:legacy", fn.where(inner), "hmks / hcgs are copies of h_mks / h_cgs", found=leg, rid=r5)
    # error discipline
    handlers = [h for n in ast.walk(fn.node) if isinstance(n, ast.Try) for h in n.handlers]
    res.check(bool(handlers) and all(h.type is not None and norm(h.type) == "UnitsNotReducible" for h in handlers), "handlers", fn.where(), "only UnitsNotReducible may be swallowed", found=[norm(h.type) if h.type else "bare" for h in handlers], rid=r5)
    # the module that exports the constants uses the default registry
    pc = repo.mod("unyt/physical_constants.py")
    calls = [c for c in ast.walk(pc.tree) if isinstance(c, ast.Call)]
    ok = False
    for c in calls:
        q = pc.qual(c.func)
        if q == "unyt.unit_systems.add_constants":
            rg = kwarg_of(c, "registry") or (c.args[1] if len(c.args) > 1 else None)
            ok = norm(c.args[0]) == "globals()" and rg is not None and pc.qual(rg) == "unyt.unit_registry.default_unit_registry"
    res.check(ok, "export", "unyt/physical_constants.py", "unyt.physical_constants is populated by add_constants(globals(), registry=default registry)", rid=r5)


UO = "unyt/unit_object.py"

MUTANTS = [
    Mutant("c-integer-literal", RAT, None, "speed_of_light_m_per_s = 2.99792458e8", "speed_of_light_m_per_s = 299792458", ("C15-R8",)),
    Mutant("G-row-own-literal", LUT, None, "                newton_mks,\n                \"m**3/kg/s**2\",", "                6.67430e-11,\n                \"m**3/kg/s**2\",", ("C15-R1b",)),
    Mutant("hbar-factor", RAT, None, "hbar_mks = 0.5 * planck_mks / np.pi", "hbar_mks = planck_mks / np.pi", ("C15-R1",)),
    Mutant("eps0-slip", RAT, None, "eps_0 = 1.0 / (speed_of_light_m_per_s**2 * mu_0)", "eps_0 = 1.0 / (speed_of_light_m_per_s * mu_0)", ("C15-R1", "C15-R3")),
    Mutant("sb-power", RAT, None, "* boltzmann_constant_J_per_K**4", "* boltzmann_constant_J_per_K**3", ("C15-R1",)),
    Mutant("planck-length", RAT, None, "speed_of_light_m_per_s**3)", "speed_of_light_m_per_s**2)", ("C15-R1",)),
    Mutant("hbar-row", LUT, None, '("hbar", (0.5 * planck_mks / np.pi', '("hbar", (0.5 * planck_mks', ("C15-R1b", "C15-R3")),
    Mutant("const-unit", LUT, None, '"m**3/kg/s**2"', '"m**3/kg/s"', ("C15-R3",)),
    Mutant("const-digit", LUT, None, "6.65245854533e-29", "6.56245854533e-29", ("C15-R3",)),
    Mutant("twin-split", LUT, None, '("me", (mass_electron_kg, dimensions.mass', '("me", (mass_electron_kg * 1.001, dimensions.mass', ("C15-R2",)),
    Mutant("alias-collision", LUT, None, '["proton_mass", "mass_proton"]', '["proton_mass", "mass_proton", "hydrogen_mass"]', ("C15-R4",)),
    Mutant("drop-aliases", US, "add_constants", "for name in alternate_names + [constant_name]:", "for name in [constant_name]:", ("C15-R5",)),
    Mutant("cgs-from-other", US, "add_constants", 'namespace[name + "_cgs"] = quan.in_cgs()', 'namespace[name + "_cgs"] = quan.in_mks()', ("C15-R5",)),
    Mutant("wrong-registry", US, "add_constants", "quan = unyt_quantity(value, unit_name, registry=registry)", "quan = unyt_quantity(value, unit_name)", ("C15-R5",)),
    Mutant("swallow-all", US, "add_constants", "            except UnitsNotReducible:\n                pass", "            except Exception:\n                pass", ("C15-R5",)),
    Mutant("twin-spelling", RAT, None, "hbar_mks = 0.5 * planck_mks / np.pi", "hbar_mks = planck_mks / (2.0 * np.pi)", (), benign=True),
    Mutant("em-own-family-scaled", UO, "_check_em_conversion", "em_map = (unit_system[unit.dimensions], unit, 1.0)", "em_map = (unit_system[unit.dimensions], unit, em_info[2])", ("C15-R6",)),
    Mutant("in-base-offset-from-source", "unyt/array.py", "unyt_array.in_base", "        ret = np.asarray(self.ndview * conv, dtype=new_dtype)\n        if offset:", "        ret = np.asarray(self.ndview * conv, dtype=new_dtype)\n        if self.units.base_offset:", ("C15-R7",)),
]
