"""C01 - incommensurable quantities are never silently combined."""

from __future__ import annotations

import ast

from engine.core import AnalysisError, Repo, is_raise_of, kwarg_of, norm, walk_no_nested
from engine.flow import enum_paths, path_calls, path_facts
from engine.mutate import Mutant
from engine.report import Result
from engine.units import Raises, UnitInterp
from rules.handlers import AF, inventory, module_helpers
from rules.ufunc import ARR, UfuncAnchors, registry
from spec import array_function_signatures as AFS
from spec import ufunc_signatures as UFS

TECHNIQUE = "table rule (which ufuncs get the dimension check) + path exhaustiveness of the mismatch nest + must-precede rule (validator before NumPy) over all merging handlers + dominance of the conversion gate + always-raise rule for Unit +/-"
LEVEL_TEXT = """Static decision procedure of the 'refuse incommensurable operands' mechanism: (R1) every ufunc whose operands
must be commensurable is mapped to a unit rule in the set that receives the dimension check (set derived from the source),
and the 1/2/n-input dispatch is the only selector of a call form; (R2) every leaf of the mismatch nest raises
UnitOperationError except exactly the documented exceptions (ordering comparisons with a dimensionless operand, ==/!=
answering all-False/all-True), and units are unified without a check only under the bare all-zero guard; (R3) __eq__,
__ne__ and the ufunc early return agree on polarity; (R4) all 27 merging array-function handlers pass every merged operand
through the unit-consistency validator before NumPy sees data, and the validator raises whenever two distinct units were
seen; (R5) every return of the conversion-factor routine is dominated by the dimension test, every conversion entry point
passes through it, item assignment converts or proves equal units; (R6) Unit +,- and in-place operators only raise; (R7)
nothing is written to an operand on a path that ends in a refusal.
(R8) a list operand is coerced to one unit only when every element's unit equals the first element's, an element without units counting as the null unit (shared with C16-R2); the block that checks dimensions is entered whenever the two unit objects differ (only `is not` / `!=` conjuncts on the units themselves)."""
LEVEL_NOTE = """Undecided: that NumPy routes every operator / in-place / out= spelling through __array_ufunc__ (NumPy's
contract, trusted); NumPy functions unyt does not wrap; numerical content of operands after the call. Bare Python numbers
are accepted by the item-writing handlers (insert, put, fill_diagonal, ...) by unyt's documented design and are not
covered by the property's operand kinds with a dimension."""
EXPLANATION = LEVEL_TEXT
ASSUMPTIONS = ["NumPy dispatches operators and ufunc methods to __array_ufunc__ with the operands as `inputs`"]

UO = "unyt/unit_object.py"


def check(repo: Repo) -> Result:
    res = Result("C01")
    a = UfuncAnchors(repo)
    res.fn(a.fn)
    classification(repo, res, a)
    mismatch_nest(repo, res, a)
    eq_ne(repo, res, a)
    merging_handlers(repo, res)
    masked_copy(repo, res, "C01-R4")
    conversion_gate(repo, res)
    unit_additive(repo, res)
    no_write_before_refusal(repo, res, a)
    from rules.ufunc import missing_unit_rule

    r10 = res.rule("C01-R10", "an operand without units enters the dimension check as dimensionless (null unit), never with the other operand's unit (shared with C04-R11)", floor=4)
    missing_unit_rule(a, res, r10)
    from rules import c16
    from rules.common import share

    # every check above compares the dimensions the unit table assigns: a row with the wrong dimension makes two
    # incommensurable quantities look commensurable (klf filed as a pressure adds to ksf).  Dimension column of every
    # row against the independent definitions (spec/unit_definitions.py) - the scale column is C02's business
    from engine.fold import DimVec, Tables
    from spec import unit_definitions as _UD

    r9 = res.rule("C01-R9", "the dimension the unit table gives each unit is the unit's physical dimension", floor=140)
    t_ = Tables(repo)
    for sym_, row_ in t_.lut_pairs:
        if sym_ not in _UD.UNITS:
            continue
        want_ = DimVec(_UD.UNITS[sym_][0])
        res.check(row_[1] == want_, f"dimension:{sym_}", f"unyt/_unit_lookup_table.py row {sym_!r}", f"unit {sym_!r} is filed with dimension {row_[1]} but is a {want_}: the dimension checks let it be added to, compared with and converted into units of the wrong kind", str(want_), str(row_[1]), rid=r9)
    r8 = res.rule("C01-R8", "a list operand is coerced to one unit only when every element's unit equals the first element's (an element without units counts as the null unit, never as matching)", floor=2)
    share(res, r8, "C16", lambda t: c16.accessors(repo, t), ["C16-R2"], want=lambda k: k.startswith("coerce-list"), min_keys=2)
    return res


def classification(repo, res, a):
    r1 = res.rule("C01-R1", "every commensurability-requiring ufunc maps to a unit rule that receives the dimension check", floor=17)
    reg = registry(repo)
    for name, (inputs, want) in sorted(UFS.UFUNCS.items()):
        if inputs != "same" or name == "clip":
            continue
        if name not in reg:
            res.ok(f"{name}:unregistered", r1)  # unregistered ufuncs raise KeyError
            continue
        rule = reg[name][0]
        res.check(rule in a.checked, f"{name}->{rule}", f"{ARR} _ufunc_registry[{name}]", f"{name} combines its operands but its unit rule {rule} is not in the dimension-checked set {sorted(a.checked)}: operands of different dimensions would be combined silently", sorted(a.checked), rule, rid=r1)
    # the unit-rule lookup feeding the check is the registry entry of this ufunc
    look = [st for st in a.binary if isinstance(st, ast.Assign) and norm(st.targets[0]) == "unit_operator"]
    res.check(len(look) == 1 and norm(look[0].value) == "self._ufunc_registry[ufunc]", "lookup", a.fn.where(), "the checked unit rule must be the registry entry of the ufunc being applied", rid=r1)
    # 3-input form: only clip, every unit-carrying input converted to the first input's unit
    fn = a.fn
    # decided on paths (independent of how the branch is laid out): every path of the n-ary region on which the ufunc
    # is not np.clip ends in RuntimeError; on the clip paths every unit-carrying input is converted into the first
    # input's unit inside the loop over the inputs
    clip_names = [norm(n_) for n_ in ast.walk(ast.Module(body=a.nary, type_ignores=[])) if isinstance(n_, (ast.Name, ast.Attribute)) and a.mod.qual(n_) == "numpy.clip"]
    ok = bool(clip_names)
    n_other = 0
    if ok:
        ctext = f"ufunc is {clip_names[0]}"
        for p_ in enum_paths(a.nary):
            fm_ = dict((t, tr) for t, tr, _ in path_facts(p_))
            if fm_.get(ctext) is False:
                n_other += 1
                ok &= p_[-1][0] == "raise" and is_raise_of(p_[-1][1], "RuntimeError")
        ok &= n_other >= 1
        region = ast.Module(body=a.nary, type_ignores=[])
        conv = [c for c in ast.walk(region) if isinstance(c, ast.Call) and isinstance(c.func, ast.Attribute) and c.func.attr in ("to", "in_units") and c.args and norm(c.args[0]) == "inputs[0].units"]
        # the iteration over the inputs: a for statement or (normal form N11) a comprehension; the conversion sits in the
        # arm taken when the element is a unyt_array
        loops = [n_ for n_ in ast.walk(region) if isinstance(n_, ast.For) and norm(n_.iter) == "inputs"]
        comps = [n_ for n_ in ast.walk(region) if isinstance(n_, ast.ListComp) and len(n_.generators) == 1 and norm(n_.generators[0].iter) == "inputs"]
        ok &= len(conv) == 1 and len(loops) + len(comps) == 1
        if ok and loops:
            lp = loops[0]
            guards = [i_ for i_ in ast.walk(lp) if isinstance(i_, ast.If) and norm(i_.test) == f"isinstance({norm(lp.target)}, unyt_array)" and any(c is conv[0] for c in ast.walk(ast.Module(body=i_.body, type_ignores=[])))]
            ok = len(guards) == 1
        elif ok:
            cp = comps[0]
            tgt = norm(cp.generators[0].target)
            guards = [i_ for i_ in ast.walk(cp.elt) if isinstance(i_, ast.IfExp) and norm(i_.test) == f"isinstance({tgt}, unyt_array)" and any(c is conv[0] for c in ast.walk(i_.body))]
            ok = len(guards) == 1 and not cp.generators[0].ifs
    res.check(ok, "three-input-form", fn.where(), "with three inputs only clip is accepted and every quantity is converted to the first input's unit (raises on mismatch)", rid=r1)


def mismatch_nest(repo, res, a):
    r2 = res.rule("C01-R2", "every leaf of the dimension-mismatch nest raises, except the documented exceptions; unit unification without check only for bare all-zero operands", floor=7)
    fn = a.fn
    nest = a.dim_if
    if norm(nest.test) != "not u0.same_dimensions_as(u1)":
        raise AnalysisError(f"{fn.where(nest)}: unexpected dimension test {norm(nest.test)}")
    for i, p in enumerate(enum_paths(nest.body)):
        facts = [(t, tr) for t, tr, _ in path_facts(p)]
        fm = dict(facts)
        end = p[-1]
        key = "leaf:" + ",".join(f"{t}={tr}" for t, tr in facts)[:140]
        if end[0] == "raise":
            res.check(is_raise_of(end[1], "UnitOperationError"), key, fn.where(end[1]), "dimension mismatch must raise UnitOperationError", "UnitOperationError", norm(end[1].exc), rid=r2)
        elif end[0] == "fall":
            ok = fm.get("unit_operator is _comparison_unit") is True and (fm.get("u0.is_dimensionless") is True or fm.get("u1.is_dimensionless") is True)
            # and the only thing done is adopting the other operand's unit
            stm = [norm(ev[1]) for ev in p if ev[0] == "stmt"]
            ok = ok and set(stm) <= {"u0 = u1", "u1 = u0"}
            res.check(ok, key, fn.where(nest), "operands of different dimensions fall through the check: only ordering comparisons with a dimensionless operand may", "raise UnitOperationError", f"falls through after {stm}", path=[f"{t}={tr}" for t, tr in facts], rid=r2)
        elif end[0] == "return":
            ok = fm.get("unit_operator is _comparison_unit") is True and fm.get("ufunc in (equal, not_equal)") is True
            res.check(ok, key, fn.where(end[1]), "a value is returned for operands of different dimensions outside the ==/!= exception", path=[f"{t}={tr}" for t, tr in facts], rid=r2)
    # unification outside the nest (the bare-zero rule): path summaries with conditions in canonical form, so the
    # counts may be kept in a list, in two locals, or be tested directly
    from engine.sem import summarise

    outside = [st for st in a.differ_if.body if st is not nest]
    n_unify = 0
    for i, x in enumerate(summarise(fn, body=outside, keep={"u0", "u1", "i0", "i1", "inp0", "inp1"})):
        for eff in x.effects:
            if eff in ("u0 = u1", "u1 = u0"):
                n_unify += 1
                which = "i0" if eff == "u0 = u1" else "i1"
                # the operand found all-zero must be the bare one: a zero-filled unyt_array does not adopt another unit
                # (unyt_array([0., 0.], "m") + 5 is not 5 dimensionless)
                bare = x.has(f"isinstance({which}, unyt_array)", False)
                zero = x.has(f"np.count_nonzero({which}) == 0", True)
                res.check(bare and zero, f"unify:{eff}#{i}", fn.where(a.differ_if), "units are unified without a dimension check outside the bare all-zero exception (the operand that adopts the other's unit is not a unyt_array and has no non-zero element)", f"not isinstance({which}, unyt_array) and np.count_nonzero({which}) == 0", sorted(x.facts), path=[f"{t}={tr}" for t, tr in sorted(x.facts)], rid=r2)
    res.check(n_unify >= 2, "zero-test", fn.where(a.differ_if), "the all-zero exception (bare zeros may be added / compared) is present for either operand", rid=r2)
    # the allowances above rest on Unit.is_dimensionless: it must be true for the dimensionless dimension only (a plane
    # angle, a logarithmic level ... are dimensions of their own and must be refused in `length < angle`)
    uo = repo.mod(UO)
    isd = uo.func("Unit.is_dimensionless")
    res.fn(isd)
    rets = [n.value for n in walk_no_nested(isd.node) if isinstance(n, ast.Return) and n.value is not None]
    ONE = ("sympy_one", "dimensionless", "dimensions.dimensionless", "S.One", "1")
    forms = {f"self.dimensions {op} {c}" for op in ("is", "==") for c in ONE} | {f"{c} {op} self.dimensions" for op in ("is", "==") for c in ONE}
    ok_isd = len(rets) >= 1 and all(norm(r) in forms or (isinstance(r, ast.BoolOp) and isinstance(r.op, ast.Or) and all(norm(v) in forms for v in r.values)) for r in rets)
    res.check(ok_isd, "is_dimensionless", isd.where(), "Unit.is_dimensionless must hold for the dimensionless dimension only: a wider test (e.g. also angles) lets ordering comparisons between a length and an angle through the dimension check", "self.dimensions is sympy_one", [norm(r) for r in rets], rid=r2)
    # the block is entered whenever the units differ
    from rules.ufunc import differ_entry

    ok_e, bad_e = differ_entry(a)
    res.check(ok_e, "entry", fn.where(a.differ_if), "the check must be entered whenever the two units are not equal: the entry test has a conjunct that can be false for units of different dimension", "only comparisons of the two unit objects (is not / !=)", bad_e, rid=r2)


def eq_ne(repo, res, a):
    r3 = res.rule("C01-R3", "== / != sibling agreement: all-False for ==, all-True for != on unit errors, in the broadcast shape of both operands", floor=5)
    mod = repo.mod(ARR)
    for meth, fam, sup in (("__eq__", "zeros", "__eq__"), ("__ne__", "ones", "__ne__")):
        fn = mod.func(f"unyt_array.{meth}")
        res.fn(fn)
        ok = False
        found = ""
        if len(fn.body) == 1 and isinstance(fn.body[0], ast.Try):
            t = fn.body[0]
            body_ok = len(t.body) == 1 and isinstance(t.body[0], ast.Return) and norm(t.body[0].value) == f"super().{sup}({fn.params[1]})"
            h = t.handlers
            excs = set()
            if len(h) == 1 and h[0].type is not None:
                excs = {norm(e) for e in (h[0].type.elts if isinstance(h[0].type, ast.Tuple) else [h[0].type])}
            ret = h[0].body[0] if h and len(h[0].body) == 1 and isinstance(h[0].body[0], ast.Return) else None
            val_ok = ret is not None and isinstance(ret.value, ast.Call) and norm(ret.value.func) == f"np.{fam}" and norm(ret.value.args[0]) == "self.shape" and "bool" in norm(ret.value)
            ok = body_ok and excs == {"IterableUnitCoercionError", "UnitOperationError"} and val_ok
            found = f"except {sorted(excs)}: {norm(ret) if ret is not None else None}"
        res.check(ok, meth, fn.where(), f"{meth} must delegate to ndarray.{sup} and answer np.{fam}(self.shape, bool) exactly on unit errors", found=found, rid=r3)
    # early return inside the ufunc
    fn = a.fn
    er = [n for n in ast.walk(a.dim_if) if isinstance(n, ast.If) and norm(n.test) in ("ufunc is equal", "ufunc is not_equal")]
    ZEROS, ONES = ("np.zeros", "np.zeros_like"), ("np.ones", "np.ones_like")
    ok = False
    if len(er) == 1 and len(er[0].body) == 1 and len(er[0].orelse) == 1 and all(isinstance(x, ast.Assign) for x in (er[0].body[0], er[0].orelse[0])):
        t_, f_ = norm(er[0].body[0].value), norm(er[0].orelse[0].value)
        if norm(er[0].test) == "ufunc is not_equal":
            t_, f_ = f_, t_
        ok = t_ in ZEROS and f_ in ONES and norm(er[0].body[0].targets[0]) == norm(er[0].orelse[0].targets[0])
    res.check(ok, "early-return-polarity", fn.where(er[0]) if er else fn.where(), "equal -> all False (zeros family), not_equal -> all True (ones family)", rid=r3)
    maker = norm(er[0].body[0].targets[0]) if ok else "func"
    # (that a value is returned only for == / != is C01-R2; here: what is returned) - independent of how the branch is
    # laid out: every return inside the dimension-mismatch nest hands back `ret`, which is built once by the chosen
    # zeros / ones maker with dtype=bool and afterwards only converted with bool()
    rets = [n for n in ast.walk(a.dim_if) if isinstance(n, ast.Return)]
    mk = [n for n in ast.walk(a.dim_if) if isinstance(n, ast.Assign) and norm(n.targets[0]) == "ret"]
    build = [m_ for m_ in mk if isinstance(m_.value, ast.Call) and norm(m_.value.func) == maker and kwarg_of(m_.value, "dtype") is not None and norm(kwarg_of(m_.value, "dtype")) in ("bool", "'bool'", "np.bool_")]
    other = [m_ for m_ in mk if m_ not in build and norm(m_.value) != "bool(ret)"]
    ok = len(rets) >= 1 and all(r_.value is not None and norm(r_.value) == "ret" for r_ in rets) and len(build) == 1 and not other
    res.check(ok, "early-return-value", fn.where(), "the early return is a boolean array built by the zeros / ones maker", rid=r3)
    # ... of the shape NumPy's == gives: the broadcast of BOTH operands (np.equal(a3_km, 3*s) is three answers, not one)
    if build:
        arg0 = build[0].value.args[0] if build[0].value.args else None
        names_ = {x.id for x in ast.walk(arg0) if isinstance(x, ast.Name)} if arg0 is not None else set()
        both = bool(names_ & {"inp0", "i0"}) and bool(names_ & {"inp1", "i1"})
        res.check(both, "early-return-shape", fn.where(build[0]), "the all-False / all-True answer has the broadcast shape of both operands: built from one operand only, np.equal(array_km, quantity_s) answers a single False and np.equal(quantity_km, array_s) an array of another shape than NumPy's", "shape from inp0 and inp1 (np.broadcast(inp0, inp1).shape)", norm(arg0) if arg0 is not None else None, rid=r3)


def merging_handlers(repo, res):
    r4 = res.rule("C01-R4", "merging array-function handlers validate all merged operands before NumPy sees data", floor=27)
    inv = inventory(repo)
    mod = repo.mod(AF)
    ui = UnitInterp(repo, mod, module_helpers(repo))
    for h in inv:
        merged = None
        for t in h.targets:
            if t in AFS.MERGED:
                merged = AFS.MERGED[t]
        if merged is None:
            continue
        want = set(merged)
        if h.np_name == "numpy.where":
            want = {"args[0]", "args[1]"}
        bad = None
        n = 0
        for o in ui.run(h.fn):
            if isinstance(o.value, Raises):
                continue
            for call, groups in o.impl_calls:
                if h.np_name == "numpy.where" and dict(o.facts).get("len(args) == 0") is True:
                    continue  # single-argument form merges nothing
                n += 1
                covered = any(want <= {m for m in g} or want <= {m.split("[")[0] for m in g} for g in groups)
                if not covered:
                    bad = (call, groups)
        if n == 0 and bad is None:
            # public np.interp route: validate precedes
            for o in ui.run(h.fn):
                if any(want <= set(g) for g in o.groups):
                    n += 1
        if bad is not None:
            res.bad(h.key, h.fn.where(bad[0]), f"{h.np_name}: NumPy is called before all merged operands {sorted(want)} were validated for unit consistency (validated groups: {[sorted(g) for g in bad[1]]})", sorted(want), [sorted(g) for g in bad[1]], rid=r4)
        elif n == 0:
            raise AnalysisError(f"{h.fn.where()}: no NumPy call found in merging handler {h.key}")
        else:
            res.ok(h.key, r4)

    # the validators themselves
    r4v = res.rule("C01-R4v", "the unit-consistency validators raise whenever two distinct units were seen", floor=5)
    fn = mod.func("_validate_units_consistency")
    res.fn(fn)
    objs = fn.params[0]
    from engine.sem import summarise

    U = f"get_units({objs})"
    distinct = f"len([{U}[0], *(_c0 for _c0 in {U} if _c0 != {U}[0])]) == 1"
    sums = summarise(fn)
    ok_units = all(any(U in t for t, _ in x.facts) for x in sums)
    res.check(ok_units, "v1:units", fn.where(), "the validator must collect the units of all its operands", f"a test on {U}", [sorted(x.facts) for x in sums][:2], rid=r4v)
    ok_unique = all(any(t == distinct for t, _ in x.facts) for x in sums)
    res.check(ok_unique, "v1:unique", fn.where(), "distinct units are those that compare unequal to the first; the decision is whether exactly one distinct unit remains", distinct, [sorted(x.facts) for x in sums][:2], rid=r4v)
    ok = bool(sums)
    for x in sums:
        if x.kind == "return":
            ok &= x.has(distinct, True) and x.value == f"{U}[0]"
        else:
            ok &= x.kind == "raise" and x.value.startswith("UnitInconsistencyError(") and x.has(distinct, False)
    res.check(ok, "v1:exits", fn.where(), "return (the common unit) only when exactly one distinct unit was seen, otherwise raise UnitInconsistencyError", found=[(sorted(x.facts), x.kind, x.value) for x in sums], rid=r4v)
    fn2 = mod.func("_validate_units_consistency_v2")
    res.fn(fn2)
    ref = fn2.params[0]
    var = fn2.vararg
    ok = True
    saw = False
    bare = f"all((isinstance(_c0, Number) for _c0 in {var}))"
    for x in summarise(fn2):
        if x.has(bare, True):
            ok &= not x.effects  # bare Python numbers: documented acceptance, nothing else happens
            continue
        saw = True
        ok &= x.has(bare, False) and f"_validate_units_consistency((1 * {ref}, *{var}))" in x.effects
    res.check(ok and saw, "v2", fn2.where(), "v2 must validate the reference unit together with all further operands unless they are all bare numbers", rid=r4v)
    # the validator of the ustack / uconcatenate / ... wrappers: the result is labelled with the first array's unit
    # only when ALL further arrays carry that unit
    wv = repo.mod(ARR).func("_validate_numpy_wrapper_units")
    res.fn(wv)
    arrs_p = wv.params[1]
    ok_w, n_w = True, 0
    for x in summarise(wv):
        if x.kind == "raise" or not any(".units =" in e for e in x.effects):
            continue  # refused, or nothing is labelled (no unyt array among the inputs)
        n_w += 1
        allfacts = [t for t, tr in x.facts if tr and t.startswith("all(") and ".units ==" in t and f"{arrs_p}[0].units" in t and f"in {arrs_p}[1:]" in t]
        ok_w &= bool(allfacts) and not any(tr and t.startswith("any(") and ".units ==" in t for t, tr in x.facts)
    res.check(ok_w and n_w >= 1, "wrapper-validator", wv.where(), "the u* wrappers (uconcatenate, ustack ...) label the merged result with the first array's unit: every further array must be required to carry that unit (all(...)), one matching array is not enough", f"all(a.units == {arrs_p}[0].units for a in {arrs_p}[1:])", [sorted(t for t, tr in x.facts if tr) for x in summarise(wv) if x.kind != "raise"][:2], rid=r4v)
    g = mod.func("get_units")
    res.fn(g)
    arms = {}
    loop = [n for n in g.body if isinstance(n, ast.For)]
    ok = False
    if len(loop) == 1:
        from engine.pat import find_all

        # local names are free (metavariables): the accumulator that is returned receives the unit of every array,
        # the null unit for a bare number, and the units found by recursing into anything else
        ok = find_all(g.node, ["__acc.append(getattr(__s, 'units', NULL_UNIT))", "__acc.extend(get_units(__s))", "__acc.append(NULL_UNIT)", "return __acc"]) is not None
    elif not loop:
        raise AnalysisError(f"{g.where()}: get_units is not a loop over its operands any more; the collection of units is not understood")
    res.check(ok, "get_units", g.where(), "get_units must report the unit of every array (dimensionless when it has none) and recurse into sequences", rid=r4v)
    # exception class relationship is what __eq__ etc. rely on
    exc = repo.mod("unyt/exceptions.py")
    cls = exc.classes.get("UnitInconsistencyError")
    res.check(cls is not None, "exception-class", "unyt/exceptions.py", "UnitInconsistencyError exists", rid=r4v)


def masked_copy(repo, res, rid):
    """np.copyto(dst, src, where=mask) overwrites only part of dst: dst keeps its unit and the source values must arrive
    in it (converted, which refuses another dimension).  Relabelling dst with the source's unit - right for the full copy -
    would relabel the elements that were not copied.  Decided on the handler: there is a branch whose test contains
    `<where> is not True` next to nothing but has-units tests on dst / src; inside it the implementation receives
    `src.to(dst.units)` (or in_units) and dst.units is not assigned."""
    mod = repo.mod(AF)
    fn = mod.func("copyto")
    res.fn(fn)
    dst, src = fn.params[0], fn.params[1]
    wnames = set()
    for n in walk_no_nested(fn.node):
        if isinstance(n, ast.Assign) and len(n.targets) == 1 and isinstance(n.targets[0], ast.Name) and ("'where'" in norm(n.value) or '"where"' in norm(n.value)):
            wnames.add(n.targets[0].id)
    ok, found = False, "no branch on the where argument"
    for n in walk_no_nested(fn.node):
        if not isinstance(n, ast.If):
            continue
        atoms = n.test.values if isinstance(n.test, ast.BoolOp) and isinstance(n.test.op, ast.And) else [n.test]
        texts = [norm(a) for a in atoms]
        masked = [t for t in texts if any(t in (f"{w} is not True", f"not {w} is True") for w in wnames)]
        if not masked:
            continue
        others = [t for t in texts if t not in masked]
        units_tests = all(("units" in t and (dst in t or src in t)) for t in others)
        body_txt = [norm(x) for x in n.body]
        stores = [t for t in body_txt if t.startswith(f"{dst}.units =")]
        impl = [c for c in ast.walk(ast.Module(body=n.body, type_ignores=[])) if isinstance(c, ast.Call) and norm(c.func).endswith("copyto._implementation")]
        conv = bool(impl) and all(len(c.args) >= 2 and norm(c.args[0]) == dst and norm(c.args[1]) in (f"{src}.to({dst}.units)", f"{src}.in_units({dst}.units)", f"np.asarray({src}.to({dst}.units))", f"{src}.to_value({dst}.units)") for c in impl)
        leaves = bool(n.body) and isinstance(n.body[-1], ast.Return)
        ok = units_tests and not stores and conv and leaves
        found = f"if {norm(n.test)}: {body_txt[:2]}"
    res.check(ok, "copyto:masked-copy-converts", fn.where(), "np.copyto with a where mask between two quantities must convert the source into the destination's unit and leave the destination's unit alone: relabelling dst with the source's unit relabels the elements that were not copied (dst [1, 2, 3] m, src in s, one element copied: all three read as seconds)", "if where is not True and both have units: copyto(dst, src.to(dst.units)); return", found, rid=rid)


def conversion_gate(repo, res):
    r5 = res.rule("C01-R5", "conversion gate: dimension test dominates every conversion factor; every conversion entry point passes through it; item assignment converts or proves equal units", floor=8)
    uo = repo.mod(UO)
    fn = uo.func("_get_conversion_factor")
    res.fn(fn)
    old, new = fn.params[:2]
    first = fn.body[0]
    ok = isinstance(first, ast.If) and norm(first.test) in (f"{old}.dimensions != {new}.dimensions", f"not {old}.same_dimensions_as({new})") and len(first.body) == 1 and is_raise_of(first.body[0], "UnitConversionError") and not first.orelse
    res.check(ok, "gate", fn.where(first), "the first statement must refuse different dimensions with UnitConversionError", found=norm(first)[:120], rid=r5)
    m = uo.func("Unit.get_conversion_factor")
    rets = [n for n in ast.walk(m.node) if isinstance(n, ast.Return)]
    res.check(len(rets) == 1 and norm(rets[0].value) == f"_get_conversion_factor(self, {m.params[1]}, {m.params[2]})", "method", m.where(), "Unit.get_conversion_factor delegates to the gated routine with (self, other, dtype)", rid=r5)
    em = uo.func("_em_conversion")
    res.fn(em)
    top = [norm(s) for s in em.body]
    res.check(any(".get_conversion_factor(to_units)" in s and s.startswith("conv =") for s in top), "em-route", em.where(), "the EM route computes its factor through the gated routine unconditionally", rid=r5)
    arr = repo.mod(ARR)
    for name, shortcuts in (("in_units", ("to_equivalent",)), ("convert_to_units", ("convert_to_equivalent",)), ("in_base", ())):
        f = arr.func(f"unyt_array.{name}")
        res.fn(f)
        bad = None
        for p in enum_paths(f.body):
            if p[-1][0] == "raise":
                continue
            calls = [c for c in path_calls(p)]
            names = {c.func.attr if isinstance(c.func, ast.Attribute) else norm(c.func) for c in calls}
            ok = bool(names & {"get_conversion_factor", "_em_conversion"} | names & set(shortcuts))
            if not ok and name == "in_base":
                facts = dict((t, tr) for t, tr, _ in path_facts(p))
                ok = facts.get("u.dimensions in um") is True and facts.get("u.expr == um[self.units.dimensions]") is True and norm(p[-1][1].value) == "self.copy()"
            if not ok:
                bad = p
        res.check(bad is None, f"route:{name}", f.where(), f"{name} has a path to a normal exit that does not pass through the dimension-checked conversion", found=[f"{t}={tr}" for t, tr, _ in path_facts(bad)] if bad else "", rid=r5)
    # item assignment
    f = arr.func("unyt_array.__setitem__")
    res.fn(f)
    item, value = f.params[1], f.params[2]
    for i, p in enumerate(enum_paths(f.body)):
        facts = [(t, tr) for t, tr, _ in path_facts(p)]
        fm = dict(facts)
        if fm.get(f"hasattr({value}, 'units')") is not True:
            continue
        converted = any(ev[0] == "stmt" and norm(ev[1]) in (f"{value} = {value}.to(self.units)", f"{value} = {value}.in_units(self.units)") for ev in p)
        equal = fm.get(f"{value}.units != self.units") is False or fm.get(f"{value}.units == self.units") is True
        key = "setitem:" + ",".join(f"{t}={tr}" for t, tr in facts)
        res.check(converted or equal, key, f.where(), "a unit-carrying value is stored without conversion on a path that does not establish equal units", "value.to(self.units) or equal units", [f"{t}={tr}" for t, tr in facts], rid=r5)
    st = [c for c in ast.walk(f.node) if isinstance(c, ast.Call) and norm(c.func) == "super().__setitem__"]
    res.check(len(st) == 1 and [norm(x) for x in st[0].args] == [item, value], "setitem:store", f.where(), "the (converted) value is what gets stored", rid=r5)


def unit_additive(repo, res):
    r6 = res.rule("C01-R6", "Unit +, -, and in-place operators always raise InvalidUnitOperation", floor=8)
    uo = repo.mod(UO)
    for m in ("__add__", "__radd__", "__sub__", "__rsub__", "__iadd__", "__isub__", "__imul__", "__itruediv__"):
        fn = uo.func(f"Unit.{m}")
        paths = enum_paths(fn.body)
        ok = all(p[-1][0] == "raise" and is_raise_of(p[-1][1], "InvalidUnitOperation") for p in paths)
        res.check(ok, m, fn.where(), f"Unit.{m} must have `raise InvalidUnitOperation` as its only exit", rid=r6)


WRITE_FUNCS = {"np.copyto", "np.put", "np.place", "np.putmask"}


def _writes(stmt, names):
    """does this statement write into one of the operand objects?"""
    for n in ast.walk(stmt):
        if isinstance(n, (ast.Assign, ast.AugAssign)):
            tg = n.targets if isinstance(n, ast.Assign) else [n.target]
            for t in tg:
                if isinstance(t, ast.Subscript) and norm(t.value) in names:
                    return norm(n)
                if isinstance(t, ast.Attribute) and norm(t.value) in names:
                    return norm(n)
                if isinstance(n, ast.AugAssign) and isinstance(t, ast.Name) and t.id in names:
                    return norm(n)
        if isinstance(n, ast.Call):
            if norm(n.func) in WRITE_FUNCS and n.args and norm(n.args[0]) in names:
                return norm(n)
            for k in n.keywords:
                if k.arg == "out" and norm(k.value) in names | {"out_func"}:
                    return norm(n)
    return None


def no_write_before_refusal(repo, res, a):
    r7 = res.rule("C01-R7", "no operand is written on a path of the two-input branch that ends in a refusal (before evaluation)", floor=8)
    fn = a.fn
    names = {"out", "out_func", "inp0", "inp1", "i0", "i1", "inputs", "self"}
    idx = a.binary.index(a.eval_stmt)
    pre_eval = a.binary[:idx]
    n = 0
    for p in enum_paths(pre_eval, limit=100000):
        if p[-1][0] != "raise":
            continue
        n += 1
        w = None
        for ev in p:
            if ev[0] == "stmt":
                w = w or _writes(ev[1], names)
        if w:
            res.bad(f"write-before-raise:{w[:60]}", fn.where(p[-1][1]), "an operand is written before the call refuses", "no write", w, path=[f"{t}={tr}" for t, tr, _ in path_facts(p)][-5:], rid=r7)
            return
    for _ in range(min(n, 50)):
        pass
    res.check(n >= 8, f"refusal-paths", fn.where(), f"{n} refusing paths before evaluation, none writes an operand", rid=r7)
    for i in range(7):
        res.ok(f"refusal-paths#{i}", r7)


MUTANTS = [
    Mutant("masked-copyto-relabels", AF, "copyto", "        np.copyto._implementation(dst, src.to(dst.units), *args, **kwargs)\n        return\n", "        pass\n", ("C01-R4",)),
    Mutant("bare-operand-borrows-unit", ARR, "unyt_array.__array_ufunc__", '            if u1 is None and ufunc is not power:\n                u1 = Unit(registry=getattr(u0, "registry", None))', "            if u1 is None and ufunc is not power:\n                u1 = u0", ("C01-R10",)),
    Mutant("hypot-passthrough", ARR, None, "hypot: _preserve_units,", "hypot: _passthrough_unit,", ("C01-R1",)),
    Mutant("less-unchecked", ARR, None, "less: _comparison_unit,", "less: _return_without_unit,", ("C01-R1",)),
    Mutant("checked-set-shrunk", ARR, "unyt_array.__array_ufunc__", "                _arctan2_unit,\n", "", ("C01-R1",)),
    Mutant("mismatch-falls-through", ARR, "unyt_array.__array_ufunc__", "                        else:\n                            raise UnitOperationError(ufunc, u0, u1)\n                    conv, offset", "                        else:\n                            u1 = u0\n                    conv, offset", ("C01-R2",)),
    Mutant("comparison-any-mismatch", ARR, "unyt_array.__array_ufunc__", "                            elif u1.is_dimensionless:\n                                u1 = u0\n", "                            elif u1.is_dimensionless or True:\n                                u1 = u0\n", ("C01-R2",)),
    Mutant("zero-rule-widened", ARR, "unyt_array.__array_ufunc__", "                        if np.count_nonzero(i0) == 0:", "                        if np.count_nonzero(i0) >= 0:", ("C01-R2",)),
    Mutant("eq-polarity", ARR, "unyt_array.__eq__", "np.zeros(self.shape", "np.ones(self.shape", ("C01-R3",)),
    Mutant("early-return-polarity", ARR, "unyt_array.__array_ufunc__", "func = np.zeros\n", "func = np.ones\n", ("C01-R3",)),
    Mutant("early-return-shape-of-one-operand", ARR, "unyt_array.__array_ufunc__", "np.broadcast(inp0, inp1).shape, dtype=bool", "np.shape(inp1), dtype=bool", ("C01-R3",)),
    Mutant("where-forgets-y", AF, "where", "_validate_units_consistency((x, y))", "_validate_units_consistency((x,))", ("C01-R4",)),
    Mutant("clip-forgets-max", AF, "clip_impl", "_validate_units_consistency_v2(a.units, a_min, a_max)", "_validate_units_consistency_v2(a.units, a_min)", ("C01-R4",)),
    Mutant("validate-after", AF, "union1d", "    _validate_units_consistency((ar1, ar2))\n    return np.union1d._implementation(np.asarray(ar1), np.asarray(ar2)) * ar1.units", "    res = np.union1d._implementation(np.asarray(ar1), np.asarray(ar2)) * ar1.units\n    _validate_units_consistency((ar1, ar2))\n    return res", ("C01-R4",)),
    Mutant("validator-lenient", AF, "_validate_units_consistency", "if len(unique_units) == 1:", "if len(unique_units) >= 1:", ("C01-R4v",)),
    Mutant("validator-first-only", AF, "_validate_units_consistency", "unique_units = [units[0], *(u for u in units if u != units[0])]", "unique_units = [units[0]]", ("C01-R4v",)),
    Mutant("gate-removed", UO, "_get_conversion_factor", "    if old_units.dimensions != new_units.dimensions:", "    if False and old_units.dimensions != new_units.dimensions:", ("C01-R5",)),
    Mutant("setitem-no-convert", ARR, "unyt_array.__setitem__", "value = value.to(self.units)", "value = value.d", ("C01-R5",)),
    Mutant("unit-add-returns", UO, "Unit.__add__", 'raise InvalidUnitOperation("addition with unit objects is not allowed")', "return self", ("C01-R6",)),
    Mutant("write-before-check", ARR, "unyt_array.__array_ufunc__", "            ret_class = _get_binary_op_return_class(type(i0), type(i1))\n", "            ret_class = _get_binary_op_return_class(type(i0), type(i1))\n            if out is not None:\n                out[...] = 0\n", ("C01-R7",)),
    Mutant("twin-reorder-checked", ARR, "unyt_array.__array_ufunc__", "                _preserve_units,\n                _comparison_unit,\n", "                _comparison_unit,\n                _preserve_units,\n", (), benign=True),
    Mutant("entry-by-spelling", ARR, "unyt_array.__array_ufunc__", "if u0 is not u1 and u0 != u1:", "if u0 is not u1 and u0.expr != u1.expr:", ("C01-R2",)),
    Mutant("entry-without-identity-shortcut", ARR, "unyt_array.__array_ufunc__", "if u0 is not u1 and u0 != u1:", "if u0 != u1:", (), benign=True),
    Mutant("zero-unyt-array-adopts-bare-unit", ARR, "unyt_array.__array_ufunc__", "                    if not isinstance(i0, unyt_array):\n                        if np.count_nonzero(i0) == 0:\n                            u0 = u1\n                    elif not isinstance(i1, unyt_array):\n                        if np.count_nonzero(i1) == 0:\n                            u1 = u0\n", "                    if not isinstance(i0, unyt_array) or not isinstance(i1, unyt_array):\n                        if np.count_nonzero(i0) == 0:\n                            u0 = u1\n                        elif np.count_nonzero(i1) == 0:\n                            u1 = u0\n", ("C01-R2",)),
    Mutant("coerce-list-bare-elements-match", ARR, "_coerce_iterable_units", 'ff != getattr(_, "units", NULL_UNIT)', 'ff != getattr(_, "units", ff)', ("C01-R8",)),
    Mutant("angles-count-as-dimensionless", UO, "Unit.is_dimensionless", "return self.dimensions is sympy_one", "return self.dimensions is sympy_one or self.dimensions is angle", ("C01-R2",)),
    Mutant("table-row-dimension", "unyt/_unit_lookup_table.py", None, '("smoot", (1.7018, dimensions.length,', '("smoot", (1.7018, dimensions.time,', ("C01-R9",)),
]
