"""Shared extraction of the ufunc machinery of unyt/array.py: the registry, the
unit-rule functions (typed as monomials) and the anchor statements of
unyt_array.__array_ufunc__."""

from __future__ import annotations

import ast
from dataclasses import dataclass
from fractions import Fraction

from engine.core import AnalysisError, Repo, norm, sha
from engine.domains import Mono
from engine.flow import enum_paths, path_facts

ARR = "unyt/array.py"


def registry(repo: Repo):
    """ufunc name (numpy qualname tail) -> (rule function name, gate)"""
    mod = repo.mod(ARR)
    node = mod.assigns.get("unyt_array._ufunc_registry")
    if not node or not isinstance(node[0], ast.Dict):
        raise AnalysisError("anchor-missing unyt_array._ufunc_registry dict literal")
    out = {}
    for k, v in zip(node[0].keys, node[0].values):
        q = mod.qual(k)
        if not q or not q.startswith("numpy."):
            raise AnalysisError(f"_ufunc_registry key {norm(k)} does not resolve to a NumPy ufunc")
        if not isinstance(v, ast.Name):
            raise AnalysisError(f"_ufunc_registry value {norm(v)} is not a function name")
        name = q[len("numpy."):]
        if name in out:
            raise AnalysisError(f"_ufunc_registry has duplicate key {name}")
        out[name] = (v.id, "")
    # gated subscript stores in the class body:  _ufunc_registry[vecdot] = _multiply_units
    cls = mod.classes["unyt_array"]

    def scan(body, gate):
        for st in body:
            if isinstance(st, ast.If):
                scan(st.body, norm(st.test))
                scan(st.orelse, f"not ({norm(st.test)})")
            elif isinstance(st, ast.Assign) and isinstance(st.targets[0], ast.Subscript) and norm(st.targets[0].value) == "_ufunc_registry":
                q = mod.qual(st.targets[0].slice)
                if not q or not isinstance(st.value, ast.Name):
                    raise AnalysisError(f"{ARR}:{st.lineno}: registry store not resolvable")
                out[q[len("numpy."):]] = (st.value.id, gate)

    scan(cls.body, "")
    return out


# ---------------------------------------------------------------------------
# abstract value of a unit-rule function


@dataclass(frozen=True)
class RuleType:
    kinds: frozenset  # of strings: "U1", "U2", "U1*U2", "U1/U2", "U^p:<frac>", "U1^x2", "1", "none", "raises", "CONST:<name>", "?"
    has_coeff: bool  # returns the simplification coefficient (as_coeff_unit) rather than literal 1


def _mono_kind(m: Mono) -> str:
    if m.is_opaque:
        return "?"
    a = m.atoms
    if not a:
        return "1"
    if a == {"U1": 1}:
        return "U1"
    if a == {"U2": 1}:
        return "U2"
    if a == {"U1": 1, "U2": 1}:
        return "U1*U2"
    if a == {"U1": 1, "U2": -1}:
        return "U1/U2"
    if set(a) == {"U1"} and isinstance(a["U1"], Fraction):
        return f"U^{a['U1']}"
    if set(a) == {"U1"}:
        return "U1^x2"
    if len(a) == 1 and list(a)[0].startswith("CONST:"):
        return list(a)[0]
    return "?"


def rule_type(repo: Repo, name: str, depth=0) -> RuleType:
    mod = repo.mod(ARR)
    fn = mod.func(name)
    params = fn.params
    kinds = set()
    coeff = False
    unit_consts = {"NULL_UNIT": Mono(1.0, {})}
    for local, q in mod.imports.items():
        if q.startswith("unyt.unit_symbols."):
            unit_consts[local] = Mono.atom("CONST:" + q.split(".")[-1])

    def ev(e, env):
        if isinstance(e, ast.Name):
            if e.id in env:
                return env[e.id]
            if e.id in unit_consts:
                return unit_consts[e.id]
            return None
        if isinstance(e, ast.Constant):
            if e.value is None:
                return "none"
            if isinstance(e.value, (int, float)):
                return ("num", e.value)
            return None
        if isinstance(e, ast.UnaryOp) and isinstance(e.op, ast.USub):
            v = ev(e.operand, env)
            if isinstance(v, tuple) and v[0] == "num":
                return ("num", -v[1])
            return None
        if isinstance(e, ast.BinOp):
            a, b = ev(e.left, env), ev(e.right, env)
            if isinstance(e.op, ast.Pow) and isinstance(a, Mono):
                if isinstance(b, tuple):
                    return a ** Fraction(b[1]).limit_denominator(1000)
                if isinstance(e.right, ast.BinOp):
                    try:
                        v = eval(compile(ast.Expression(e.right), "<e>", "eval"), {"__builtins__": {}})
                        return a ** Fraction(v).limit_denominator(1000)
                    except Exception:
                        pass
                if isinstance(e.right, ast.Name) and e.right.id in params:
                    from engine.domains import SymExp

                    return a ** SymExp("x2")
                return Mono.opaque()
            if isinstance(a, Mono) and isinstance(b, Mono):
                if isinstance(e.op, ast.Mult):
                    return a * b
                if isinstance(e.op, ast.Div):
                    return a / b
            if isinstance(a, tuple) and a[1] == 1 and isinstance(b, Mono) and isinstance(e.op, ast.Div):
                return b ** -1
            return Mono.opaque()
        if isinstance(e, ast.Attribute):
            if e.attr == "units":
                return ev(e.value, env)
            return None
        if isinstance(e, ast.Subscript) or (isinstance(e, ast.Call) and isinstance(e.func, ast.Attribute) and e.func.attr == "get" and e.args):
            # lookup in a module-level mapping literal whose values are unit constants: any of its values
            d = e.value if isinstance(e, ast.Subscript) else e.func.value
            if isinstance(d, ast.Name) and d.id in mod.assigns and isinstance(mod.assigns[d.id][-1], ast.Dict):
                vals = [ev(v_, env) for v_ in mod.assigns[d.id][-1].values]
                if vals and all(isinstance(v_, Mono) for v_ in vals):
                    return ("multi", vals)
            return None
        if isinstance(e, ast.Call):
            if isinstance(e.func, ast.Attribute) and e.func.attr in ("simplify", "as_coeff_unit") and not e.args:
                v = ev(e.func.value, env)
                if e.func.attr == "as_coeff_unit" and isinstance(v, Mono):
                    return ("coeff", v)
                return v
            return None
        return None

    for path in enum_paths(fn.body):
        env = {}
        for i, p in enumerate(params):
            env[p] = Mono.atom(f"U{i + 1}")
        end = path[-1]
        for evn in path:
            if evn[0] == "stmt" and isinstance(evn[1], ast.Assign) and isinstance(evn[1].targets[0], ast.Name):
                env[evn[1].targets[0].id] = ev(evn[1].value, env)
        if end[0] == "raise":
            exc = norm(end[1].exc) if end[1].exc else ""
            # a raise inside a `try` whose handler recomputes is not an exit
            kinds.add("raises")
            continue
        if end[0] != "return":
            kinds.add("?")
            continue
        v = end[1].value
        if isinstance(v, ast.Call) and isinstance(v.func, ast.Name) and mod.has_func(v.func.id) and depth < 2:
            sub = rule_type(repo, v.func.id, depth + 1)
            # parameter renaming is positional in all uses
            kinds |= set(sub.kinds)
            coeff |= sub.has_coeff
            continue
        if isinstance(v, ast.Tuple) and len(v.elts) == 2:
            first = v.elts[0]
            u = ev(v.elts[1], env)
            if not (isinstance(first, ast.Constant) and first.value == 1):
                kinds.add("?")
            if u == "none":
                kinds.add("none")
            elif isinstance(u, Mono):
                kinds.add(_mono_kind(u))
            elif isinstance(u, tuple) and u[0] == "multi":
                for m_ in u[1]:
                    kinds.add(_mono_kind(m_))
            else:
                kinds.add("?")
            continue
        u = ev(v, env)
        if isinstance(u, tuple) and u[0] == "coeff":
            coeff = True
            kinds.add(_mono_kind(u[1]))
        else:
            kinds.add("?")
    # a function whose only non-handler exits raise
    if kinds - {"raises"}:
        # `raises` coming from explicit refusals inside a rule that also returns is kept
        pass
    return RuleType(frozenset(kinds), coeff)


# ---------------------------------------------------------------------------
# anchors inside __array_ufunc__


class UfuncAnchors:
    def __init__(self, repo: Repo):
        self.repo = repo
        self.mod = repo.mod(ARR)
        self.fn = self.mod.func("unyt_array.__array_ufunc__")
        body = self.fn.body
        # dispatch on len(inputs)
        disp = [st for st in body if isinstance(st, ast.If) and norm(st.test) == "len(inputs) == 1"]
        if len(disp) != 1:
            raise AnalysisError(f"{self.fn.where()}: dispatch on len(inputs) not found")
        self.dispatch = disp[0]
        self.unary = self.dispatch.body
        nxt = self.dispatch.orelse
        if not (len(nxt) == 1 and isinstance(nxt[0], ast.If) and norm(nxt[0].test) == "len(inputs) == 2"):
            raise AnalysisError(f"{self.fn.where()}: binary branch not found")
        self.binary_if = nxt[0]
        self.binary = nxt[0].body
        self.nary = nxt[0].orelse
        # pre-dispatch (out handling) and post-dispatch (wrap-up) statements
        i = body.index(self.dispatch)
        self.pre = body[:i]
        self.post = body[i + 1:]
        # checked block
        chk = [st for st in self.binary if isinstance(st, ast.If) and isinstance(st.test, ast.Compare) and norm(st.test.left) == "unit_operator" and isinstance(st.test.ops[0], ast.In)]
        if len(chk) < 1:
            raise AnalysisError(f"{self.fn.where()}: `if unit_operator in (...)` block not found")
        self.checked_if = chk[0]
        comp = self.checked_if.test.comparators[0]
        if not isinstance(comp, ast.Tuple):
            raise AnalysisError("checked tuple not literal")
        self.checked = {norm(e) for e in comp.elts}
        # differing-units block
        inner = [st for st in self.checked_if.body if isinstance(st, ast.If)]
        if len(inner) != 1:
            raise AnalysisError(f"{self.fn.where(self.checked_if)}: expected one `if units differ` block inside the checked block")
        self.differ_if = inner[0]
        nest = [st for st in self.differ_if.body if isinstance(st, ast.If) and "same_dimensions_as" in norm(st.test)]
        if len(nest) != 1:
            raise AnalysisError(f"{self.fn.where(self.differ_if)}: dimension test not found")
        self.dim_if = nest[0]
        # evaluation call  out_arr = func(...)
        ev = [st for st in self.binary if isinstance(st, ast.Assign) and norm(st.targets[0]) == "out_arr" and isinstance(st.value, ast.Call) and norm(st.value.func) == "func"]
        if len(ev) != 1:
            raise AnalysisError(f"{self.fn.where()}: binary evaluation `out_arr = func(...)` not found")
        self.eval_stmt = ev[0]
        ur = [st for st in self.binary if isinstance(st, ast.Assign) and norm(st.value) == "unit_operator(u0, u1)"]
        if len(ur) != 1:
            raise AnalysisError(f"{self.fn.where()}: `mul, unit = unit_operator(u0, u1)` not found")
        self.unit_stmt = ur[0]


def scaling_call(c, fn_node=None):
    """Is `c` the call that multiplies the out target by the simplification coefficient?  -> None | "dispatching" | "bare".
    multiply(out, mul, out=out) goes through unyt's own __array_ufunc__ again (out still carries its previous unit);
    np.multiply(B, mul, out=B) with B a stripped view of out (np.asarray(out) / out.view(np.ndarray), directly or through a
    local bound once to such a view) works on the buffer."""
    from engine.core import kwarg_of

    if not (isinstance(c, ast.Call) and norm(c.func) in ("multiply", "np.multiply") and len(c.args) >= 2 and norm(c.args[1]) == "mul" and kwarg_of(c, "out") is not None):
        return None
    a0, o = c.args[0], kwarg_of(c, "out")
    if norm(a0) == "out" and norm(o) == "out":
        return "dispatching"

    def bare_view_of_out(e):
        t = norm(e)
        if t in ("np.asarray(out)", "out.view(np.ndarray)", "out.d", "out.ndview"):
            return True
        if isinstance(e, ast.Name) and fn_node is not None:
            defs = [n.value for n in ast.walk(fn_node) if isinstance(n, ast.Assign) and len(n.targets) == 1 and isinstance(n.targets[0], ast.Name) and n.targets[0].id == e.id]
            return len(defs) == 1 and norm(defs[0]) in ("np.asarray(out)", "out.view(np.ndarray)", "out.d", "out.ndview")
        return False

    if bare_view_of_out(a0) and bare_view_of_out(o) and norm(a0) == norm(o):
        return "bare"
    return None


def out_target_scaled(a: "UfuncAnchors"):
    """Typestate along every path through the wrap-up block of __array_ufunc__.  State: what the path knows about
    `mul` (one / not-one / unknown, from the tests on mul and the re-binding `mul = 1`) and whether the out target
    has been multiplied by it.  A feasible path on which out is given, mul is known to differ from 1 and the
    target was never scaled leaves the caller's buffer holding the unscaled numbers.
    Returns (ok, where, path conditions of the offending path)."""
    from engine.core import kwarg_of
    from engine.flow import decompose, enum_paths

    fn = a.fn
    n_out = 0
    for p in enum_paths(a.post, limit=20000):
        if p[-1][0] != "return":
            continue
        know, scaled, ever_not_one, has_out, feasible = None, False, False, False, True
        for ev in p:
            if ev[0] == "cond":
                facts = []
                decompose(ev[1], ev[2], facts)
                for t, tr, _ in facts:
                    if (t == "out is not None" and tr) or (t == "out is None" and not tr):
                        has_out = True
                    if t in ("mul != 1", "mul != 1.0", "mul == 1", "mul == 1.0"):
                        is_one = (tr and "==" in t) or (not tr and "!=" in t)
                        if know is not None and know != is_one:
                            feasible = False
                        know = is_one
                        if not is_one and not scaled:
                            ever_not_one = True
            elif ev[0] == "stmt":
                if isinstance(ev[1], ast.Assign) and norm(ev[1].targets[0]) == "mul":
                    know = True if norm(ev[1].value) in ("1", "1.0") else None
                for c in ast.walk(ev[1]):
                    if scaling_call(c, fn.node) is not None:
                        scaled = True
                        ever_not_one = False
        if not feasible or not has_out:
            continue
        n_out += 1
        if ever_not_one and not scaled:
            conds = [f"{norm(ev[1])}={ev[2]}" for ev in p if ev[0] == "cond"][-5:]
            return False, fn.where(p[-1][1]), conds
    if n_out == 0:
        raise AnalysisError(f"{fn.where()}: no path with an out= target found in the wrap-up block")
    return True, fn.where(), []


def dot_method_units(repo: Repo):
    """units-of-measure type of the ndarray-method override unyt_array.dot: the returned quantity and the unit
    written to out= are U(self) * U(b) - the full unit, including the numeric coefficient a simplification would
    split off.  Yields (key, ok, where, message, expected, found)."""
    from engine.units import Qn, Un, UnitInterp, U

    mod = repo.mod(ARR)
    fn = mod.func("unyt_array.dot")
    it = UnitInterp(repo, mod, {})
    want = U("self") * U(fn.params[1])
    outs = it.run(fn)
    if not outs:
        raise AnalysisError(f"{fn.where()}: no path through dot()")
    for o in outs:
        tag = ",".join(f"{t}={tr}" for t, tr in o.facts)
        v = o.value
        ok = isinstance(v, Qn) and not v.mono.is_opaque and v.mono.same(want)
        yield (f"dot:return[{tag}]", ok, fn.where(), "a.dot(b) must carry the product of the operands' units (including the scale of a.units*b.units): otherwise re-expressing an operand changes the physical result", str(want), repr(v))
        fm = dict(o.facts)
        eff = [val for kind, tgt, val in o.effects if kind == "setattr" and tgt == f"{fn.params[2]}.units"]
        inst = fm.get(f"isinstance({fn.params[2]}, unyt_array)")
        from engine.flow import fact_get

        may_be_unyt_out = inst is True or (inst is None and fact_get(fm, "out is not None"))
        if may_be_unyt_out or eff:
            ok = len(eff) == 1 and isinstance(eff[0], Un) and not eff[0].mono.is_opaque and eff[0].mono.same(want)
            yield (f"dot:out-units[{tag}]", ok, fn.where(), "a.dot(b, out=o) must label o with the product of the operands' units", str(want), repr(eff))


def unit_rule_results(a: "UfuncAnchors", name: str):
    """Where does the variable `name` ("mul" or "unit") of __array_ufunc__ get its value?  Yields
    (assign node, kind, detail) with kind in {"rule", "power-mapping", "literal", "reset", "other"}.  A unit-rule call is
    a call whose callee is the registry lookup self._ufunc_registry[ufunc] - directly or through a local that is only
    ever bound to that lookup - with the operand unit(s) as arguments; _apply_power_mapping is bound by parameter name."""
    from rules.common import bind_call

    fn = a.fn
    mod = a.mod
    lookups = {}
    for n in ast.walk(fn.node):
        if isinstance(n, ast.Assign) and len(n.targets) == 1 and isinstance(n.targets[0], ast.Name):
            lookups.setdefault(n.targets[0].id, []).append(norm(n.value))
    reg_aliases = {k for k, v in lookups.items() if v and all(x == "self._ufunc_registry[ufunc]" for x in v)}
    pm = mod.func("_apply_power_mapping")

    def classify(call):
        if not isinstance(call, ast.Call):
            return None
        f = call.func
        if norm(f) == "self._ufunc_registry[ufunc]" or (isinstance(f, ast.Name) and f.id in reg_aliases):
            args = [norm(x) for x in call.args]
            return ("rule", args)
        if isinstance(f, ast.Name) and f.id == "_apply_power_mapping":
            b = bind_call(call, pm, skip_self=False)
            return ("power-mapping", {k: norm(v) for k, v in b.items() if not isinstance(v, list)})
        return None

    for n in ast.walk(fn.node):
        if not isinstance(n, ast.Assign):
            continue
        t = n.targets[0]
        idx = None
        if isinstance(t, ast.Tuple):
            for i, el in enumerate(t.elts):
                if isinstance(el, ast.Name) and el.id == name:
                    idx = i
        elif isinstance(t, ast.Name) and t.id == name:
            idx = -1
        if idx is None:
            continue
        c = classify(n.value)
        if c is not None and idx in (0, 1):
            yield n, c[0], (idx, c[1])
        elif idx == -1 and isinstance(n.value, ast.Constant):
            yield n, "literal", n.value.value
        elif idx == -1:
            yield n, "reset", norm(n.value)
        else:
            yield n, "other", norm(n.value)


class RefusalModel:
    """The refusals the binary branch of __array_ufunc__ makes before it evaluates the ufunc, as guard chains: for
    every `raise` that precedes the evaluation, the conjunction of the branch tests (with polarity) leading to it.
    A chain is *decided* for abstract operands by folding its tests (engine.dtable.Folder); chains whose tests read
    anything the abstract records do not model (dimension comparison by method call, array contents) are left out -
    they belong to other rules."""

    def __init__(self, a: "UfuncAnchors"):
        self.a = a
        self.chains = []
        stop = a.eval_stmt

        def walk(stmts, conds):
            for st in stmts:
                if st is stop:
                    return True
                if isinstance(st, ast.Raise):
                    self.chains.append((st, list(conds)))
                elif isinstance(st, ast.If):
                    if walk(st.body, conds + [(st.test, True)]):
                        return True
                    if walk(st.orelse, conds + [(st.test, False)]):
                        return True
            return False

        walk(a.binary, [])
        if not self.chains:
            raise AnalysisError(f"{a.fn.where()}: no refusal found before the evaluation in the binary branch")

    def refused(self, rule_name: str, u0, u1, globals_: dict, assume=()):
        """the raise statement that fires for operand units (u0, u1) under unit rule `rule_name`, or None.  Tests listed
        in `assume` are taken as passed (used for states reached by re-binding a unit name inside a block whose entry
        test was decided on the earlier binding)."""
        from engine.dtable import Folder, Tok

        toks = globals_.setdefault("__rule_tokens__", {})
        for n in ("_preserve_units", "_difference_units", "_comparison_unit", "_arctan2_unit", "_multiply_units", "_divide_units", "_power_unit", "_passthrough_unit"):
            toks.setdefault(n, Tok(n))
        env = {"u0": u0, "u1": u1, "unit_operator": toks[rule_name], "ufunc": Tok("ufunc")}
        env["offset"] = None if (u0.attrs["base_offset"] == 0.0 and u1.attrs["base_offset"] == 0.0) else 1.0
        g = {k: v for k, v in globals_.items() if k != "__rule_tokens__"}
        g.update(toks)
        f = Folder(self.a.mod, self.a.fn, env, g)
        for st, conds in self.chains:
            try:
                if all(f.truth(t) == pol for t, pol in conds if not any(t is x for x in assume)):
                    return st
            except AnalysisError:
                continue
        return None


def differ_entry(a: "UfuncAnchors", x="u0", y="u1"):
    """Is the block that checks dimensions and rescales the second operand entered whenever the two units are not
    equal?  The test is split into conjuncts; each must be a comparison of the two unit objects themselves that is
    implied by `x != y` (value inequality implies non-identity), so the conjunction holds whenever the units differ.
    A conjunct that looks at anything else (spelling, a single attribute) can be false for units that differ in
    scale or dimension.  -> (ok, offending conjuncts)"""
    from engine.flow import decompose

    atoms = []
    decompose(a.differ_if.test, True, atoms)
    bad = []
    for text, truth, node in atoms:
        ok = False
        if isinstance(node, ast.Compare) and len(node.ops) == 1 and {norm(node.left), norm(node.comparators[0])} == {x, y}:
            op = node.ops[0]
            ok = (truth and isinstance(op, (ast.NotEq, ast.IsNot))) or (not truth and isinstance(op, (ast.Eq, ast.Is)))
        if not ok:
            bad.append(("" if truth else "not ") + text)
    return not bad, bad


def missing_unit_rule(a: "UfuncAnchors", res, rid):
    """An operand of a two-input ufunc that carries no unit is given the *null unit* (`Unit(registry=...)`, scale 1,
    dimensionless) - it never borrows the other operand's unit.  Every assignment to u0 / u1 between the reading of
    the operands' units and the selection of the unit rule is classified: (a) the reading itself (getattr(.., "units",
    None) of the operand or of its coerced form), (b) the null unit, (c) under `ufunc is power` the exponent handling
    (u1 is then not a unit at all; C04-R6 decides that arm).  Anything else - `u1 = u0` for a bare right operand - makes
    `[50, 60] % > 0.6` compare 60 with 0.6 and lets `[1, 2] m > 5` through without a dimension check."""
    stop = a.binary.index(next(st for st in a.binary if isinstance(st, ast.Assign) and norm(st.targets[0]) == "unit_operator"))
    n = 0

    def visit(stmts, in_power):
        nonlocal n
        for st in stmts:
            if isinstance(st, ast.If):
                t = norm(st.test)
                pw = in_power or t in ("ufunc is power", "power is ufunc") or "ufunc is power" in [norm(x) for x in (st.test.values if isinstance(st.test, ast.BoolOp) and isinstance(st.test.op, ast.And) else [])]
                visit(st.body, pw)
                # `if A and ufunc is not power: ... elif ufunc is power:` - the else arm of a test that mentions power
                visit(st.orelse, in_power)
            elif isinstance(st, (ast.For, ast.While, ast.With, ast.Try)):
                visit(getattr(st, "body", []), in_power)
            elif isinstance(st, ast.Assign):
                for tg in st.targets:
                    names = [e for e in (tg.elts if isinstance(tg, ast.Tuple) else [tg]) if isinstance(e, ast.Name) and e.id in ("u0", "u1")]
                    for nm in names:
                        if in_power and nm.id == "u1":
                            continue
                        n += 1
                        v = st.value
                        txt = norm(v)
                        reads = 'getattr(i0, \'units\', None)' in txt or 'getattr(i1, \'units\', None)' in txt or 'getattr(inp0, \'units\', None)' in txt or 'getattr(inp1, \'units\', None)' in txt
                        other = "u1" if nm.id == "u0" else "u0"
                        reads = reads and other not in {x.id for x in ast.walk(v) if isinstance(x, ast.Name)}
                        null = isinstance(v, ast.Call) and norm(v.func) == "Unit" and not v.args and all(k.arg == "registry" for k in v.keywords)
                        res.check(reads or null, f"missing-unit:{nm.id}:{'read' if reads else 'null' if null else 'other:' + sha(txt)[:6]}", a.fn.where(st), f"{nm.id} is set to something other than the operand's own unit or the null unit before the unit rule is chosen: an operand without units must count as dimensionless with scale 1, not borrow the other operand's unit", "getattr(<operand>, 'units', None) | Unit(registry=...)", txt, rid=rid)

    visit(a.binary[:stop], False)
    if n < 4:
        raise AnalysisError(f"{a.fn.where(a.binary_if)}: fewer than four assignments to u0/u1 before the unit rule is chosen")
