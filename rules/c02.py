"""C02 - every unit's scale and dimension agree with its definition."""

from __future__ import annotations

import ast

from engine.core import sha, AnalysisError, Repo, kwarg_of, norm, walk_no_nested
from engine.fold import DimVec, Tables
from engine.mutate import Mutant
from engine.report import Result
from engine.symb import Expander, factors
from rules.common import bind_call
from spec import unit_definitions as SPEC

TECHNIQUE = "constant folding of the definition tables from the AST and comparison with an independently written definition table; reaching-definition rules for prefix composition, scale/dimension homomorphism and ratio direction"
LEVEL_TEXT = """Static and exhaustive over the finite tables: all 145 rows of default_unit_symbol_lut and all 23 prefix
spellings are constant-folded from the source (no import) and compared with an independent table of definitions
(dimension vector and offset exactly, scale within the row's tolerance class). Structural rules then show that every
other unit is derived from those rows by the same algebra in all three representations: prefix x base composition in
_lookup_unit_symbol, operator/operand agreement of expr/base_value/dimensions in Unit.__mul__/__truediv__/__pow__/
as_coeff_unit and in both accumulators of _get_unit_data_from_expr, and the direction of the ratio and affine offset in
_get_conversion_factor.
(R2, extended) every registry edit drops the derived prefixed rows before the base row changes, and the purge recognises them by recomputing entry scale * prefix value (no division); (R5) the scale filed by define_unit / UnitRegistry.modify from a quantity is its magnitude in SI: every base conversion on the way names the mks system."""
LEVEL_NOTE = """Undecided: the floats sympy produces for generated compound expressions and pairwise .to() numerics
(rounding). Resolution of the oracle: a slip of a table value smaller than the row's tolerance (1e-12 exact rows, 1e-8
astronomical lengths, 2e-6 CODATA, 1e-3..5e-2 solar/planetary) is not detected. Rows added to the table that have no
definition row are listed as unverified, not as violations."""
EXPLANATION = LEVEL_TEXT
ASSUMPTIONS = [
    "Python float arithmetic in source order reproduces the values the module computes at import (np.pi = math.pi, np.sqrt = math.sqrt)",
    "spec/unit_definitions.py is correct",
]

REG = "unyt/unit_registry.py"
UO = "unyt/unit_object.py"
LUT = "unyt/_unit_lookup_table.py"


def rel(a, b):
    if a == b:
        return 0.0
    return abs(a - b) / max(abs(a), abs(b))


def check(repo: Repo) -> Result:
    res = Result("C02")
    t = Tables(repo)
    table_rules(res, t)
    prefix_composition(repo, res)
    homomorphism(repo, res)
    ratio_direction(repo, res)
    filed_scales(repo, res)
    ctor_provenance(repo, res)

    from rules import c11
    from rules.common import share

    r6 = res.rule("C02-R6", "a registry rebuilt from a saved or copied table (deep copy, pickle, HDF5, JSON) keeps the scales of that table: the defaults are not re-added over it (shared with C11-R3)", floor=4)
    share(res, r6, "C11", lambda t: c11.rebuilt_from_table(repo, t), ["C11-R3"], want=lambda k: k.endswith(":no-defaults"), min_keys=4)
    # ... and the saved table is the registry's whole table: rows left out of a pickle (e.g. every name the default table
    # also has) come back with the default scale, whatever the registry had filed under them
    from rules import c13

    share(res, r6, "C13", lambda t: c13.ownership(repo, t), ["C13-R1"], want=lambda k: k == "pickle:complete-table", min_keys=1)
    from rules import c05

    r8 = res.rule("C02-R8", "decision table of Unit * Unit and Unit / Unit over abstract units: the scale of every returned unit is the product / quotient of the operands' scales, also on shortcut paths (shared with C05-R1)", floor=2)
    share(res, r8, "C05", lambda t: t.__dict__.update(c05.check(repo).__dict__), ["C05-R1"], want=lambda k: k.endswith(":table-scale"), min_keys=2)
    return res


def table_rules(res, t):
    r1 = res.rule("C02-R1", "lut row vs independent definition: dimension vector, offset, scale within tolerance class", floor=140)
    unverified = []
    seen = set()
    for sym, row in t.lut_pairs:
        if sym in seen:
            res.bad(f"dup:{sym}", LUT, f"symbol {sym!r} occurs twice in default_unit_symbol_lut", rid=r1)
        seen.add(sym)
        if sym not in SPEC.UNITS:
            unverified.append(sym)
            continue
        dim, scale, offset, tol, prefixable, src = SPEC.UNITS[sym]
        want_dv = DimVec(dim)
        problems = []
        if row[1] != want_dv:
            problems.append(f"dimension {row[1]} != {want_dv}")
        if abs(float(row[2]) - offset) > 1e-9:
            problems.append(f"offset {row[2]} != {offset}")
        if not isinstance(row[0], (int, float)) or rel(float(row[0]), scale) > tol:
            problems.append(f"scale {row[0]!r} differs from {scale!r} by {rel(float(row[0]), scale):.3g} (tolerance {tol:g})")
        if problems:
            res.bad(f"row:{sym}", f"{LUT} row {sym!r}", f"unit {sym!r} disagrees with its definition ({src}): " + "; ".join(problems), f"{want_dv}, {scale!r}, offset {offset}", f"{row[1]}, {row[0]!r}, offset {row[2]}", rid=r1)
        else:
            res.ok(f"row:{sym}", r1)
    if unverified:
        res.note(f"rows without a definition in spec (unverified): {unverified}")

    r1p = res.rule("C02-R1p", "prefix table values are the SI prefix values (all spellings)", floor=23)
    for p, (val, word) in t.prefix_pairs:
        if p not in SPEC.SI_PREFIXES:
            res.bad(f"prefix:{p}", LUT, f"prefix {p!r} is not an SI prefix", rid=r1p)
            continue
        want, wword = SPEC.SI_PREFIXES[p]
        ok = val == want and (word == wword or SPEC.LEGACY_PREFIX_WORDS.get(word) == want)
        res.check(ok, f"prefix:{p}:{word}", f"{LUT} unit_prefixes[{p!r}]", f"prefix {p!r} ({word}) must be {want:g}", (want, wword), (val, word), rid=r1p)


def prefix_composition(repo, res):
    r2 = res.rule("C02-R2", "_lookup_unit_symbol: prefixed row = (base scale * prefix value, base dimension, base offset, ., False)", floor=6)
    mod = repo.mod(REG)
    from rules.anchors import lookup_symbol

    fn = lookup_symbol(repo)
    res.fn(fn)
    ex = Expander(fn)
    sym, lut = fn.params[0], fn.params[1]
    # locate the store into the table and the tuple that is stored
    stores = [
        n
        for n in ast.walk(fn.node)
        if isinstance(n, ast.Assign)
        and isinstance(n.targets[0], ast.Subscript)
        and norm(n.targets[0].value) == lut
    ]
    if len(stores) != 1:
        raise AnalysisError(f"{fn.where()}: expected exactly one write-back into the table, found {len(stores)}")
    st = stores[0]
    from engine.sem import canon_node

    tup = canon_node(ex.expand_node(st.value))
    if isinstance(tup, ast.Tuple) and any(isinstance(e_, ast.Starred) for e_ in tup.elts):
        # (*row[1:3], ..., *row[4:]): unfold slices of a row into its elements (an open end stands for "the rest")
        flat = []
        for e_ in tup.elts:
            if isinstance(e_, ast.Starred) and isinstance(e_.value, ast.Subscript) and isinstance(e_.value.slice, ast.Slice):
                sl = e_.value.slice
                lo = sl.lower.value if isinstance(sl.lower, ast.Constant) else (0 if sl.lower is None else None)
                hi = sl.upper.value if isinstance(sl.upper, ast.Constant) else None
                if lo is None or sl.step is not None:
                    raise AnalysisError(f"{fn.where(st)}: starred slice not understood: {norm(e_)}")
                stop = hi if hi is not None else 5
                for k_ in range(lo, stop):
                    flat.append(ast.Subscript(value=e_.value.value, slice=ast.Constant(value=k_), ctx=ast.Load()))
            else:
                flat.append(e_)
        tup = ast.Tuple(elts=flat, ctx=ast.Load())
    if not isinstance(tup, ast.Tuple) or len(tup.elts) != 5:
        raise AnalysisError(f"{fn.where(st)}: stored value is not a 5-tuple")
    split = f"_split_prefix({sym}, {lut})"
    base = f"{lut}[{split}[1]]"
    pref = f"unit_prefixes[{split}[0]][0]"
    res.check(norm(st.targets[0].slice) == sym, "store-key", fn.where(st), "derived row must be stored under the full prefixed symbol", sym, norm(st.targets[0].slice), rid=r2)
    res.check(factors(tup.elts[0]) == sorted([f"{base}[0]", pref]), "scale", fn.where(st), "scale of a prefixed unit must be base scale x prefix value", f"{base}[0] * {pref}", norm(tup.elts[0]), rid=r2)
    res.check(norm(tup.elts[1]) == f"{base}[1]", "dimension", fn.where(st), "dimension of a prefixed unit must be the base unit's", f"{base}[1]", norm(tup.elts[1]), rid=r2)
    res.check(norm(tup.elts[2]) == f"{base}[2]", "offset", fn.where(st), "offset of a prefixed unit must be the base unit's", f"{base}[2]", norm(tup.elts[2]), rid=r2)
    res.check(isinstance(tup.elts[4], ast.Constant) and tup.elts[4].value is False, "not-prefixable", fn.where(st), "a derived prefixed row must not itself be prefixable", "False", norm(tup.elts[4]), rid=r2)
    rets = [n for n in ast.walk(fn.node) if isinstance(n, ast.Return)]
    ok = all(
        norm(canon_node(ex.expand_node(r.value))) in (norm(tup), f"{lut}[{sym}]") for r in rets
    ) and len(rets) == 2
    res.check(ok, "returns", fn.where(), "the function returns either the direct table hit or exactly the derived row it stored", rid=r2)
    # the derived rows are remembered in the table: every edit of a base row must drop them, or Unit('k'+symbol) keeps
    # prefix x the *old* base scale (same analysis as C12-R2, reported here for the clause "prefix times base scale")
    from rules import c12

    tmp = Result("C12")
    c12.invalidation(repo, tmp)
    bad_keys = {f.key.split("/", 1)[1]: f for f in tmp.findings}
    n = 0
    for k in tmp.rules["C12-R2"]["keys"]:
        if k.endswith(":derived-rows") or k.startswith("_forget_prefixed") or k.endswith(":unit-cache"):
            n += 1
            if k in bad_keys:
                f = bad_keys[k]
                res.bad(f"edit:{k}", f.where, f.msg, f.expected, f.found, rid=r2)
            else:
                res.ok(f"edit:{k}", r2)
    if n < 4:
        raise AnalysisError("C12-R2 no longer reports the derived-row obligations C02-R2 relies on")


def filed_scales(repo, res):
    """C02-R5: the number a user-facing definition files in the table as a unit's scale is the quantity's SI (mks)
    magnitude.  define_unit and UnitRegistry.modify accept a quantity; the value reaching the table is followed back
    through the local assignments, and every base-system conversion on the way must name "mks" explicitly -
    in_base() without a system converts into the *registry's own* unit system (cgs, galactic, code units ...)."""
    r5 = res.rule("C02-R5", "scales filed from a quantity (define_unit, UnitRegistry.modify) are its magnitude in SI: every base conversion on the way names the mks system", floor=3)
    uo, reg = repo.mod(UO), repo.mod(REG)
    sites = []
    du = uo.func("define_unit")
    res.fn(du)
    adds = [c for c in walk_no_nested(du.node) if isinstance(c, ast.Call) and isinstance(c.func, ast.Attribute) and c.func.attr == "add" and len(c.args) >= 2]
    if len(adds) != 1:
        raise AnalysisError(f"{du.where()}: the registry.add call of define_unit was not found")
    sites.append((du, adds[0].args[1], "define_unit", True))
    md = reg.func("UnitRegistry.modify")
    res.fn(md)
    sym = md.params[1]
    stores = [n for n in walk_no_nested(md.node) if isinstance(n, ast.Assign) and any(norm(t) == f"self.lut[{sym}]" for t in n.targets)]
    if len(stores) != 1:
        raise AnalysisError(f"{md.where()}: the table write of modify was not found")
    first = stores[0].value
    while isinstance(first, ast.BinOp):
        first = first.left
    scale = first.elts[0] if isinstance(first, ast.Tuple) and first.elts else None
    if scale is None:
        raise AnalysisError(f"{md.where(stores[0])}: the stored row is not a tuple literal (+ tail)")
    sites.append((md, scale, "modify", False))
    for fn, expr, label, must_convert in sites:
        # closure of the expression over local definitions
        seen, todo, nodes = set(), [expr], []
        while todo:
            e = todo.pop()
            nodes.append(e)
            for x in ast.walk(e):
                if isinstance(x, ast.Name) and x.id not in seen:
                    seen.add(x.id)
                    for st in walk_no_nested(fn.node):
                        if isinstance(st, ast.Assign) and any(norm(t) == x.id for t in st.targets):
                            todo.append(st.value)
        convs = []
        for e in nodes:
            for c in ast.walk(e):
                if isinstance(c, ast.Call) and isinstance(c.func, ast.Attribute) and c.func.attr in ("in_base", "in_mks", "in_cgs", "convert_to_base", "in_units", "to", "to_value"):
                    convs.append(c)
        seen_ids, uniq = set(), []
        for c in convs:
            if id(c) not in seen_ids:
                seen_ids.add(id(c))
                uniq.append(c)
        bad = []
        n_si = 0
        for c in uniq:
            a = c.func.attr
            if a == "in_mks":
                n_si += 1
            elif a in ("in_base", "convert_to_base"):
                arg = c.args[0] if c.args else kwarg_of(c, "unit_system")
                if isinstance(arg, ast.Constant) and arg.value == "mks":
                    n_si += 1
                else:
                    bad.append(norm(c))
            elif a == "in_cgs":
                bad.append(norm(c))
        res.check(not bad, f"{label}:si-system", fn.where(), f"{label} files a scale obtained by a base conversion that does not name the mks system: with a registry whose unit system is cgs / galactic / code units the stored number is not the factor to SI", "in_base('mks') / in_mks()", bad, rid=r5)
        if must_convert:
            res.check(n_si >= 1, f"{label}:converted", fn.where(), f"{label} must convert the defining quantity to SI before filing its magnitude", found=[norm(c) for c in uniq], rid=r5)
        else:
            res.check(n_si >= 1 or not uniq, f"{label}:converted", fn.where(), f"{label}: a quantity argument is converted to SI before its magnitude is filed", found=[norm(c) for c in uniq], rid=r5)


def _unit_ctor_binding(fn, call, repo):
    new = repo.mod(UO).func("Unit.__new__")
    b = bind_call(call, new, skip_self=True)
    return b


def _strip_float_casts(text):
    class T(ast.NodeTransformer):
        def visit_Call(self, n):
            self.generic_visit(n)
            if isinstance(n.func, ast.Name) and n.func.id == "float" and len(n.args) == 1 and not n.keywords:
                return n.args[0]
            return n

    return norm(T().visit(ast.parse(text, mode="eval").body))


def homomorphism(repo, res):
    r3 = res.rule("C02-R3", "expr / base_value / dimensions are built by the same operator on the same operands (Unit arithmetic, as_coeff_unit, expression walk)", floor=14)
    mod = repo.mod(UO)
    FIELDS = {"unit_expr": "expr", "base_value": "base_value", "dimensions": "dimensions"}

    def final_unit_call(fn):
        # the return that builds the result (wherever the layout of the branches puts it)
        rets = [n for n in walk_no_nested(fn.node) if isinstance(n, ast.Return) and isinstance(n.value, ast.Call) and norm(n.value.func) == "Unit"]
        rets.sort(key=lambda n: n.lineno)
        if not rets:
            raise AnalysisError(f"{fn.where()}: final `return Unit(...)` not found")
        return rets[-1].value

    for meth, opcls, ordered in (("__mul__", ast.Mult, False), ("__truediv__", ast.Div, True), ("__pow__", ast.Pow, True)):
        fn = mod.func(f"Unit.{meth}")
        res.fn(fn)
        other = fn.params[1]
        call = final_unit_call(fn)
        b = _unit_ctor_binding(fn, call, repo)
        shapes = {}
        for formal, fld in FIELDS.items():
            e = b.get(formal)
            key = f"{meth}:{fld}"
            if e is None or not isinstance(e, ast.BinOp) or not isinstance(e.op, opcls):
                res.bad(key, fn.where(call), f"Unit.{meth}: {fld} of the result is not built with the operator of the method", opcls.__name__, norm(e) if e is not None else "missing", rid=r3)
                continue
            if meth == "__pow__":
                ok = norm(e.left) == f"self.{fld}" and norm(e.right) == other
                res.check(ok, key, fn.where(call), f"Unit.__pow__: {fld} must be self.{fld} ** {other}", f"self.{fld} ** {other}", norm(e), rid=r3)
            else:
                ops = [norm(e.left), norm(e.right)]
                want = [f"self.{fld}", f"{other}.{fld}"]
                ok = ops == want if ordered else sorted(ops) == sorted(want)
                res.check(ok, key, fn.where(call), f"Unit.{meth}: {fld} must combine self.{fld} and {other}.{fld}" + (" in this order" if ordered else ""), want, ops, rid=r3)

    # as_coeff_unit
    fn = mod.func("Unit.as_coeff_unit")
    res.fn(fn)
    calls = [c for c in ast.walk(fn.node) if isinstance(c, ast.Call) and norm(c.func) == "Unit"]
    if len(calls) != 1:
        raise AnalysisError(f"{fn.where()}: expected one Unit(...) construction")
    b = _unit_ctor_binding(fn, calls[0], repo)
    # coeff is reassigned (float(coeff)); resolve by hand: first element of as_coeff_Mul
    unpack = [s for s in fn.body if isinstance(s, ast.Assign) and isinstance(s.targets[0], ast.Tuple) and norm(s.value) == "self.expr.as_coeff_Mul()"]
    if len(unpack) != 1:
        raise AnalysisError(f"{fn.where()}: `coeff, mul = self.expr.as_coeff_Mul()` not found")
    cname, mname = [e.id for e in unpack[0].targets[0].elts]
    res.check(b.get("unit_expr") is not None and norm(b.get("unit_expr")) == mname, "as_coeff_unit:expr", fn.where(calls[0]), "as_coeff_unit: new expr must be the coefficient-free part", mname, norm(b.get("unit_expr")) if b.get("unit_expr") is not None else None, rid=r3)
    bv = b.get("base_value")
    ok = isinstance(bv, ast.BinOp) and isinstance(bv.op, ast.Div) and norm(bv.left) == "self.base_value" and norm(bv.right) == cname
    res.check(ok, "as_coeff_unit:base_value", fn.where(calls[0]), "as_coeff_unit: base_value must be divided by exactly the coefficient removed from expr", f"self.base_value / {cname}", norm(bv) if bv is not None else None, rid=r3)
    nz = lambda x: norm(x) if x is not None else None  # noqa: E731  (an argument left out takes the constructor's default)
    res.check(nz(b.get("dimensions")) == "self.dimensions" and nz(b.get("base_offset")) == "self.base_offset", "as_coeff_unit:dims-offset", fn.where(calls[0]), "as_coeff_unit keeps dimensions and offset (an offset left out is the constructor's default 0: the coefficient-free part of degC or lat would no longer equal the unit)", "dimensions=self.dimensions, base_offset=self.base_offset", (nz(b.get("dimensions")), nz(b.get("base_offset"))), rid=r3)
    rets = [n for n in ast.walk(fn.node) if isinstance(n, ast.Return)]
    tgt = None
    for s in fn.body:
        if isinstance(s, ast.Assign) and s.value is calls[0]:
            tgt = s.targets[0].id
    res.check(len(rets) == 1 and norm(rets[0].value) == f"({cname}, {tgt})", "as_coeff_unit:return", fn.where(), "as_coeff_unit returns (coefficient, coefficient-free unit)", rid=r3)
    # coefficient rebinding is only a float() cast
    reb = [s for s in fn.body if isinstance(s, ast.Assign) and norm(s.targets[0]) == cname]
    res.check(all(norm(s.value) == f"float({cname})" for s in reb), "as_coeff_unit:coeff-cast", fn.where(), "the coefficient may only be cast to float between extraction and use", rid=r3)

    # _get_unit_data_from_expr
    fn = mod.func("_get_unit_data_from_expr")
    res.fn(fn)
    e, lut = fn.params
    arms = {}
    for st in fn.body:
        if isinstance(st, ast.If) and isinstance(st.test, ast.Call) and norm(st.test.func) == "isinstance" and norm(st.test.args[0]) == e:
            arms[norm(st.test.args[1])] = st
    for need in ("Number", "Symbol", "Pow", "Mul"):
        if need not in arms:
            raise AnalysisError(f"{fn.where()}: isinstance arm for {need} not found")
    # Pow arm
    pw = arms["Pow"]
    exp = Expander(type("F", (), {"node": ast.FunctionDef(name="x", args=fn.node.args, body=pw.body, decorator_list=[], lineno=pw.lineno), "params": fn.params, "vararg": None, "kwarg": None})())
    rets = [n for n in ast.walk(pw) if isinstance(n, ast.Return)]
    ok = False
    found = ""
    if len(rets) == 1 and isinstance(rets[0].value, ast.Tuple) and len(rets[0].value.elts) == 2:
        a = exp.expand(rets[0].value.elts[0])
        bb = exp.expand(rets[0].value.elts[1])
        rec = f"_get_unit_data_from_expr({e}.args[0], {lut})"
        power = f"{e}.args[1]"
        # float(x) only changes the representation of a number, never which number it is: compare without casts
        ok = _strip_float_casts(a) == f"{rec}[0] ** {power}" and _strip_float_casts(bb) == f"{rec}[1] ** {power}"
        found = f"({a}, {bb})"
    res.check(ok, "walk:Pow", fn.where(pw), "Pow arm: scale and dimension must be raised to the same exponent of the same sub-expression", "(float(rec[0] ** e.args[1]), rec[1] ** e.args[1])", found, rid=r3)
    # Mul arm
    ml = arms["Mul"]
    loops = [n for n in ml.body if isinstance(n, ast.For)]
    ok = False
    found = ""
    if len(loops) == 1 and norm(loops[0].iter) == f"{e}.args":
        lv = norm(loops[0].target)
        augs = [n for n in loops[0].body if isinstance(n, ast.AugAssign)]
        recs = [n for n in loops[0].body if isinstance(n, ast.Assign) and norm(n.value) == f"_get_unit_data_from_expr({lv}, {lut})"]
        inits = {norm(n.targets[0]): n.value for n in ml.body if isinstance(n, ast.Assign)}
        if len(recs) == 1 and len(augs) == 2:
            ud = norm(recs[0].targets[0])
            a0 = [a for a in augs if norm(a.value) == f"{ud}[0]"]
            a1 = [a for a in augs if norm(a.value) == f"{ud}[1]"]
            if len(a0) == 1 and len(a1) == 1 and isinstance(a0[0].op, ast.Mult) and isinstance(a1[0].op, ast.Mult):
                n0, n1 = norm(a0[0].target), norm(a1[0].target)
                i0, i1 = inits.get(n0), inits.get(n1)
                rets = [n for n in ml.body if isinstance(n, ast.Return)]
                ok = (
                    i0 is not None and i1 is not None
                    and isinstance(i0, ast.Constant) and float(i0.value) == 1.0
                    and isinstance(i1, ast.Constant) and i1.value == 1
                    and len(rets) == 1
                    and norm(rets[0].value) in (f"(float({n0}), {n1})", f"({n0}, {n1})")
                )
        found = [norm(x) for x in loops[0].body]
    res.check(ok, "walk:Mul", fn.where(ml), "Mul arm: scale and dimension accumulators must both be multiplied by the factor's own [0] and [1], starting from 1", found=found, rid=r3)
    # Symbol arm
    from rules.anchors import lookup_symbol

    LK = lookup_symbol(repo).name
    sy = arms["Symbol"]
    rets = [n for n in ast.walk(sy) if isinstance(n, ast.Return)]
    res.check(len(rets) == 1 and norm(rets[0].value) == f"{LK}({e}.name, {lut})", "walk:Symbol", fn.where(sy), "Symbol arm must look the symbol's own name up in the given table", rid=r3)
    # Number arm
    nu = arms["Number"]
    rets = [norm(n.value) for n in ast.walk(nu) if isinstance(n, ast.Return)]
    res.check(set(rets) <= {f"(float({e}), sympy_one)", "(1.0, sympy_one)"} and f"(float({e}), sympy_one)" in rets, "walk:Number", fn.where(nu), "Number arm: scale is the number itself, dimensionless", found=rets, rid=r3)


def ctor_provenance(repo, res):
    """C02-R7: what Unit.__new__ stores as scale, offset and dimension comes from exactly two sources: the caller's own
    explicit arguments, or the walk of the expression through the *target* registry's table
    (_get_unit_data_from_expr(expr, registry.lut)).  From a unit / quantity passed as `unit_expr` only the expression
    (and a quantity's scalar value / shape) is taken: its scale, offset and dimensions were derived in its own registry
    and need not be what the target registry's definitions imply (two registries defining code_length differently; a
    unit created before registry.modify)."""
    r7 = res.rule("C02-R7", "Unit.__new__: scale, offset and dimensions come from the explicit arguments or from the expression walked through the target registry's table - never from attributes of a unit object passed in", floor=6)
    uo = repo.mod(UO)
    fn = uo.func("Unit.__new__")
    res.fn(fn)
    src = fn.params[1]  # the unit_expr parameter
    allowed = {"is_Unit", "expr", "units", "value", "shape", "decode"}
    # (a) attribute reads on the incoming object
    reads = {}
    for n in walk_no_nested(fn.node):
        if isinstance(n, ast.Attribute) and isinstance(n.ctx, ast.Load):
            base = n
            chain = []
            while isinstance(base, ast.Attribute):
                chain.append(base.attr)
                base = base.value
            if isinstance(base, ast.Name) and base.id == src:
                reads.setdefault(chain[-1], n)
        if isinstance(n, ast.Call) and norm(n.func) == "getattr" and n.args and norm(n.args[0]) == src and len(n.args) > 1 and isinstance(n.args[1], ast.Constant):
            reads.setdefault(str(n.args[1].value), n)
    for attr, node in sorted(reads.items()):
        res.check(attr in allowed, f"__new__:reads:{attr}", fn.where(node), f"Unit.__new__ reads `.{attr}` of the object passed as unit expression: only its expression (and a quantity's scalar value) may be taken over, scale / offset / dimensions must be re-derived in the target registry (Unit(u, registry=R) with R defining a symbol of u differently)", sorted(allowed), attr, rid=r7)
    # (b) every definition of the stored values
    stored = {}
    for n in walk_no_nested(fn.node):
        if isinstance(n, ast.Assign) and len(n.targets) == 1 and isinstance(n.targets[0], ast.Attribute) and n.targets[0].attr in ("base_value", "base_offset", "dimensions") and isinstance(n.value, ast.Name):
            stored[n.targets[0].attr] = n.value.id
    if set(stored) != {"base_value", "base_offset", "dimensions"}:
        raise AnalysisError(f"{fn.where()}: the stores obj.base_value / base_offset / dimensions = <local> were not found")
    walk_names = set()
    for n in walk_no_nested(fn.node):
        if isinstance(n, ast.Assign) and isinstance(n.value, ast.Call) and norm(n.value.func) == "_get_unit_data_from_expr" and isinstance(n.targets[0], ast.Name):
            a = n.value.args
            res.check(len(a) == 2 and norm(a[0]) == src and norm(a[1]) in ("registry.lut",), "__new__:walk-arguments", fn.where(n), "the expression is walked through the target registry's table", f"_get_unit_data_from_expr({src}, registry.lut)", norm(n.value), rid=r7)
            walk_names.add(n.targets[0].id)
    if not walk_names:
        raise AnalysisError(f"{fn.where()}: call of _get_unit_data_from_expr not found in Unit.__new__")
    for attr, local in sorted(stored.items()):
        for n in walk_no_nested(fn.node):
            if not (isinstance(n, ast.Assign) and any(isinstance(t, ast.Name) and t.id == local for t in n.targets)):
                continue
            v = n.value
            ok = False
            if isinstance(v, ast.Subscript) and isinstance(v.value, ast.Name) and v.value.id in walk_names:
                ok = True  # unit_data[k]
            elif isinstance(v, ast.Constant) and isinstance(v.value, (int, float)):
                ok = True
            elif isinstance(v, ast.Name) and (v.id == local or uo.qual(v) is not None or v.id in ("dimensionless",)):
                ok = True
            elif isinstance(v, ast.Call) and norm(v.func) in ("float", "_validate_dimensions", "sympify") and v.args and norm(v.args[0]) == local:
                ok = True  # normalisation of the caller's own argument
            res.check(ok, f"__new__:def:{attr}:{sha(norm(v))[:6]}", fn.where(n), f"Unit.__new__ computes the stored {attr} from something other than the caller's argument or the expression walk in the target registry", f"{local} = unit_data[k] | float({local}) | a constant", norm(n), rid=r7)


def ratio_direction(repo, res):
    r4 = res.rule("C02-R4", "_get_conversion_factor: ratio = old scale / new scale; offset term = ratio*old_offset - new_offset", floor=3)
    mod = repo.mod(UO)
    fn = mod.func("_get_conversion_factor")
    res.fn(fn)
    old, new = fn.params[0], fn.params[1]
    ex = Expander(fn)
    rets = [n for n in ast.walk(fn.node) if isinstance(n, ast.Return)]
    if len(rets) < 2:
        raise AnalysisError(f"{fn.where()}: the plain and the affine return were not both found")
    ratio_txt = f"{old}.base_value / {new}.base_value"
    # facts under which each return is reached (a literal factor is sound only where the two scales are known equal)
    from engine.flow import enum_paths, path_facts

    facts_of = {}
    for pth in enum_paths(fn.body):
        if pth[-1][0] == "return":
            facts_of.setdefault(id(pth[-1][1]), []).append({(t, tr) for t, tr, _ in path_facts(pth)})
    same_scale = {(f"{old} is {new}", True), (f"{old} == {new}", True), (f"{old}.base_value == {new}.base_value", True), (f"{new} is {old}", True), (f"{new} == {old}", True), (f"{old} is not {new}", False), (f"{old} != {new}", False)}
    n_ratio = 0
    for i, r in enumerate(rets):
        if not isinstance(r.value, ast.Tuple) or len(r.value.elts) != 2:
            raise AnalysisError(f"{fn.where(r)}: return is not a pair")
        first = ex.expand(r.value.elts[0])
        tag = 'none' if norm(r.value.elts[1]) == 'None' else 'affine'
        if first == ratio_txt:
            n_ratio += 1
            res.ok(f"ratio@{tag}", r4)
            continue
        lit = isinstance(r.value.elts[0], ast.Constant) and r.value.elts[0].value in (1, 1.0)
        guarded = lit and tag == "none" and all(fs & same_scale for fs in facts_of.get(id(r), [set()]))
        conds = sorted(t for fs in facts_of.get(id(r), []) for t, tr in fs if tr)[-3:]
        res.check(guarded, f"ratio@{tag}" if n_ratio < 2 and not lit else f"shortcut:{norm(r.value)}", fn.where(r), "a conversion factor is returned that is not old scale / new scale" + (f": the literal factor is taken under {conds}, which does not make the two scales equal (units of the same spelling from two registries, or a symbol modified in one of them, differ in scale)" if lit else ""), ratio_txt, first, rid=r4)
    if n_ratio < 2:
        res.bad("ratio-returns", fn.where(), "the plain and the affine exit must both return old scale / new scale", rid=r4)
    # affine exit: offset term = ratio * old_offset - new_offset, where an offset is divided by the unit's own scale
    # exactly when the unit carries an SI prefix (the prefix must not scale the offset); value flow per path
    from engine.sem import summarise

    R = ratio_txt
    n_aff = 0
    ok = True
    found = []
    for x in summarise(fn):
        if x.kind != "return":
            continue
        val = ast.parse(x.value).body[0].value
        if not (isinstance(val, ast.Tuple) and len(val.elts) == 2) or norm(val.elts[1]) == "None":
            continue
        n_aff += 1
        second = norm(val.elts[1])
        # part of the offset computed by a branching in-package helper the summariser does not expand: undecidable here
        # (analysis error, exit 2) - neither a pass nor a violation
        opaque = [norm(c.func) for c in ast.walk(val.elts[1]) if isinstance(c, ast.Call) and isinstance(c.func, ast.Name) and c.func.id in fn.mod.funcs and c.func.id != "_split_prefix"]
        if opaque:
            raise AnalysisError(f"{fn.where()}: the offset term is computed through the helper {opaque[0]}(), which has more than one path; the rule cannot follow it")
        forms = {}
        for oname, u in (("old", old), ("new", new)):
            pfx_plain = x.has(f"_split_prefix(str({u}), {u}.registry.lut)[0] == ''", True)
            pfx_set = x.has(f"_split_prefix(str({u}), {u}.registry.lut)[0] == ''", False)
            temp = x.has(f"{old}.dimensions == temperature", True)
            forms[oname] = f"{u}.base_offset / {u}.base_value" if (temp and pfx_set) else f"{u}.base_offset"
        want = f"{R} * {forms['old']} - {forms['new']}"
        alt = f"{R} * ({forms['old']}) - {forms['new']}"
        good = second.replace("(", "").replace(")", "") == want.replace("(", "").replace(")", "")
        ok &= good and norm(val.elts[0]) == R
        if not good:
            found.append((second, want))
    if n_aff == 0:
        raise AnalysisError(f"{fn.where()}: affine return not found")
    res.check(ok, "affine-offset", fn.where(), "offset term must be ratio * old_offset - new_offset (an offset divided by its unit's scale exactly when that unit carries an SI prefix)", "ratio * old.base_offset - new.base_offset", found[:2], rid=r4)
    # the plain exit (no offset) is taken only when both offsets are zero
    for x in summarise(fn):
        if x.kind == "return" and x.value.endswith(", None)"):
            res.check(x.has(f"{old}.base_offset == 0", True) and x.has(f"{new}.base_offset == 0", True), "plain-exit-guard", fn.where(), "a conversion without an offset term is returned only when both units have no offset (otherwise readings on offset scales are converted as differences)", f"{old}.base_offset == 0 and {new}.base_offset == 0", sorted(x.facts), rid=r4)


MUTANTS = [
    Mutant("ctor-copies-foreign-scale", UO, "Unit.__new__", "            # grab the unit object's sympy expression.\n            unit_expr = unit_expr.expr\n", "            if base_value is None:\n                base_value = unit_expr.base_value\n                dimensions = unit_expr.dimensions\n            unit_expr = unit_expr.expr\n", ("C02-R7",)),
    Mutant("ctor-walks-default-table", UO, "Unit.__new__", "_get_unit_data_from_expr(unit_expr, registry.lut)", "_get_unit_data_from_expr(unit_expr, default_unit_registry.lut)", ("C02-R7",)),
    Mutant("row-digit-slip", LUT, None, '("yd", (0.9144,', '("yd", (0.9141,', ("C02-R1",)),
    Mutant("row-dimension", LUT, None, '("Ba", (0.1, dimensions.pressure', '("Ba", (0.1, dimensions.force', ("C02-R1",)),
    Mutant("row-offset", LUT, None, "-459.67", "-459.76", ("C02-R1",)),
    Mutant("ratio-slip", "unyt/_physical_ratios.py", None, "m_per_inch = 0.0254", "m_per_inch = 0.0245", ("C02-R1",)),
    Mutant("prefix-value", LUT, None, '("n", (1e-9, "nano"))', '("n", (1e-8, "nano"))', ("C02-R1p",)),
    Mutant("prefix-compose-div", REG, "_lookup_unit_symbol", "unit_data[0] * prefix_value", "unit_data[0] / prefix_value", ("C02-R2",)),
    Mutant("prefix-keeps-prefixable", REG, "_lookup_unit_symbol", "            False,\n", "            unit_data[4],\n", ("C02-R2",)),
    Mutant("mul-scale", UO, "Unit.__mul__", "base_value=(self.base_value * u.base_value)", "base_value=(self.base_value * self.base_value)", ("C02-R3",)),
    Mutant("div-order", UO, "Unit.__truediv__", "dimensions=(self.dimensions / u.dimensions)", "dimensions=(u.dimensions / self.dimensions)", ("C02-R3",)),
    Mutant("pow-scale", UO, "Unit.__pow__", "base_value=(self.base_value**p)", "base_value=(self.base_value*p)", ("C02-R3",)),
    Mutant("coeff-mul", UO, "Unit.as_coeff_unit", "self.base_value / coeff", "self.base_value * coeff", ("C02-R3",)),
    Mutant("walk-pow-dim", UO, "_get_unit_data_from_expr", "unit = unit_data[1] ** power", "unit = unit_data[1]", ("C02-R3",)),
    Mutant("walk-mul-acc", UO, "_get_unit_data_from_expr", "base_value *= unit_data[0]", "base_value = unit_data[0]", ("C02-R3",)),
    Mutant("ratio-inverted", UO, "_get_conversion_factor", "ratio = old_basevalue / new_basevalue", "ratio = new_basevalue / old_basevalue", ("C02-R4",)),
    Mutant("offset-swapped", UO, "_get_conversion_factor", "ratio * old_baseoffset - new_baseoffset", "ratio * new_baseoffset - old_baseoffset", ("C02-R4",)),
    Mutant("twin-mul-commute", UO, "Unit.__mul__", "self.base_value * u.base_value", "u.base_value * self.base_value", (), benign=True),
    Mutant("twin-rename-ratio", UO, "_get_conversion_factor", "ratio", "rr", (), count=4, benign=True),
    Mutant("twin-row-float-spelling", LUT, None, '("bar", (1.0e5,', '("bar", (100000.0,', (), benign=True),
    Mutant("modify-purges-derived-late", REG, "UnitRegistry.modify", "        self._forget_prefixed(symbol)\n        self.lut[symbol] = (float(base_value), new_dimensions) + self.lut[symbol][2:]\n", "        self.lut[symbol] = (float(base_value), new_dimensions) + self.lut[symbol][2:]\n        self._forget_prefixed(symbol)\n", ("C02-R2",)),
    Mutant("walk-float-exponent", UO, "_get_unit_data_from_expr", "conv = float(unit_data[0] ** power)", "conv = float(unit_data[0] ** float(power))", (), benign=True),
    Mutant("define-unit-default-system", UO, "define_unit", 'value.in_base(unit_system="mks")', "value.in_base()", ("C02-R5",)),
    Mutant("define-unit-in-mks", UO, "define_unit", 'value.in_base(unit_system="mks")', "value.in_mks()", (), benign=True),
    Mutant("modify-default-system", REG, "UnitRegistry.modify", 'base_value.in_base("mks")', "base_value.in_base()", ("C02-R5",)),
    Mutant("purge-divides-prefix-out", REG, "UnitRegistry._forget_prefixed", "and derived[:3] == (entry[0] * prefix_value, entry[1], entry[2])", "and (derived[0] / prefix_value, derived[1], derived[2]) == entry[:3]", ("C02-R2",)),
    Mutant("deepcopy-readds-defaults", "unyt/unit_registry.py", "UnitRegistry.__deepcopy__", "add_default_symbols=False, lut=lut, unit_system=self.unit_system", "lut=lut, unit_system=self.unit_system", ("C02-R6",)),
]
