"""C07 - NumPy functions propagate units covariantly and never drop them."""

from __future__ import annotations

import ast
import itertools
import re
from fractions import Fraction

from engine.core import AnalysisError, Repo, kwarg_of, norm, walk_no_nested
from engine.domains import Mono, SymExp
from engine.mutate import Mutant
from engine.report import Result
from engine.units import Bare, Each, Qn, Raises, Text, Tup, Un, UnitInterp, Unk, canonical
from rules.handlers import AF, inventory, module_helpers
from spec import array_function_signatures as SPEC

TECHNIQUE = "units-of-measure type inference: abstract interpretation of every @implements handler (all paths, helpers inlined) in a unit-monomial domain, compared with a dimensional-analysis signature table of NumPy"
LEVEL_TEXT = """Static units-of-measure type checking of all 107 handler definitions (every version-gated variant): each
handler body is interpreted path by path in a domain of formal unit monomials over U(parameter), with helpers inlined and
unit-consistency validations turning the validated parameters into one atom. For every returned value (every tuple
element, every path) the inferred unit must equal the unit that dimensional analysis of the NumPy function demands
(spec/array_function_signatures.py): this is exactly the condition under which re-expressing the inputs changes the
result only by re-expression, and an output that must carry a unit may not be bare. Also decided: units attached to out=
targets equal the returned unit, views inherit units (__array_finalize__), and the ufunc wrap-up returns a bare array only
when the unit rule said so.
(R4, extended) the common-unit block is entered whenever the units differ by value; (R6) every registered ufunc maps to a unit rule of the ufunc's homogeneity type (shared with C04-R1); (R7) handlers with out= label the caller's buffer with the unit of the numbers written into it (shared with C06-R4)."""
LEVEL_NOTE = """Undecided: the ~110 NumPy functions unyt leaves to NumPy's default implementation (their behaviour is
NumPy-internal); bit-for-bit covariance under dyadic rescaling; numerical values. Trusted: the signature table (written
from the NumPy documentation) and that handler parameter names mirror NumPy's (checked by the repository's own
signature tests)."""
EXPLANATION = LEVEL_TEXT
ASSUMPTIONS = ["spec/array_function_signatures.py states the homogeneity degree of each NumPy function correctly"]

ARR = "unyt/array.py"


def parse_mono(s: str) -> Mono:
    s = s.strip()
    m = Mono(1.0, {})
    if s in ("", "1"):
        return m
    # split on '*' outside braces / parentheses
    parts, depth, cur = [], 0, ""
    for ch in s:
        if ch in "({[":
            depth += 1
        elif ch in ")}]":
            depth -= 1
        if ch == "*" and depth == 0:
            parts.append(cur)
            cur = ""
        else:
            cur += ch
    parts.append(cur)
    for p in parts:
        p = p.strip()
        mm = re.fullmatch(r"(U\(.*?\))((?:\^(?:\{.*?\}|-?\d+(?:/\d+)?))*)", p)
        if not mm:
            raise AnalysisError(f"spec monomial not understood: {s!r}")
        atom = Mono.atom(mm.group(1))
        for e in re.findall(r"\^(\{.*?\}|-?\d+(?:/\d+)?)", mm.group(2)):
            if e.startswith("{"):
                atom = atom ** SymExp(e[1:-1])
            else:
                atom = atom ** Fraction(e)
        m = m * atom
    return m


def _eval_fact(node, A):
    """three-valued evaluation of a condition under the atom assignment A"""
    t = norm(node)
    if t in A:
        return A[t]
    from engine.flow import fact_get

    v = fact_get(A, t)
    if v is not None:
        return v
    if isinstance(node, ast.UnaryOp) and isinstance(node.op, ast.Not):
        v = _eval_fact(node.operand, A)
        return None if v is None else (not v)
    if isinstance(node, ast.BoolOp):
        vals = [_eval_fact(v, A) for v in node.values]
        if isinstance(node.op, ast.And):
            if any(v is False for v in vals):
                return False
            return None if any(v is None for v in vals) else True
        if any(v is True for v in vals):
            return True
        return None if any(v is None for v in vals) else False
    return None


def consistent_assignments(atoms, facts):
    out = []
    parsed = []
    for t, tr in facts:
        try:
            parsed.append((ast.parse(t, mode="eval").body, tr))
        except SyntaxError:
            continue
    for bits in itertools.product((True, False), repeat=len(atoms)):
        A = dict(zip(atoms, bits))
        ok = True
        for node, tr in parsed:
            v = _eval_fact(node, A)
            if v is not None and v != tr:
                ok = False
                break
        # `weights is not None` false makes hasattr(weights) irrelevant: canonical form
        if ok and A.get("weights is not None") is False and A.get(SPEC.has("weights")) is True:
            ok = False
        if ok:
            out.append(A)
    return out


def drop_ones(m: Mono, ones) -> Mono:
    if m.is_opaque:
        return m
    return Mono(m.c, {k: v for k, v in m.atoms.items() if k not in ones})


def show(v, groups=(), ones=()):
    if isinstance(v, Qn):
        return f"Q[{drop_ones(canonical(v.mono, groups), ones)}]"
    if isinstance(v, Tup):
        return "(" + ", ".join(show(x, groups, ones) for x in v.items) + ")"
    if isinstance(v, Each):
        return f"Each[{show(v.v, groups, ones)}]"
    if isinstance(v, Bare):
        return "bare"
    return repr(v)


def match(exp, v, groups, ones):
    """-> (ok, undetermined)"""
    kind = exp[0]
    if kind == "ANY":
        return True, False
    if isinstance(v, Raises):
        return True, False  # refusing is always allowed by the property
    if isinstance(v, Unk):
        return False, True
    if kind == "Q":
        want = drop_ones(canonical(parse_mono(exp[1]), groups), ones)
        if isinstance(v, Qn):
            got = drop_ones(canonical(v.mono, groups), ones)
            return got.same(want), got.is_opaque
        if isinstance(v, Bare):
            # a bare result is acceptable only where the expected unit is 1 on this path
            return (not want.atoms and not want.is_opaque), False
        return False, False
    if kind == "BARE":
        if isinstance(v, Qn):
            got = drop_ones(canonical(v.mono, groups), ones)
            return (not got.is_opaque and not got.atoms), False
        return isinstance(v, Bare), False
    if kind == "TEXT":
        return isinstance(v, Text), False
    if kind == "NONE":
        return isinstance(v, Bare) and v.kind == "none", False
    if kind == "RAISES":
        return isinstance(v, Raises), False
    if kind == "T":
        if isinstance(v, Bare) and v.origin == "impl":
            # the raw NumPy tuple is returned: every element is bare
            oks = [match(e, Bare("data", "impl"), groups, ones) for e in exp[1]]
            return all(o for o, _ in oks), False
        if not isinstance(v, Tup):
            return False, False
        items = list(v.items)
        rest = [i for i, x in enumerate(items) if isinstance(x, Bare) and x.kind == "rest"]
        if len(rest) == 1 and len(items) - 1 <= len(exp[1]):
            # `*bare_sequence` stands for as many bare elements as are needed
            i = rest[0]
            items[i : i + 1] = [Bare("data", items[i].origin)] * (len(exp[1]) - len(items) + 1)
        if len(items) != len(exp[1]):
            return False, False
        oks = [match(e, x, groups, ones) for e, x in zip(exp[1], items)]
        return all(o for o, _ in oks), any(u for _, u in oks)
    if kind == "EACH":
        if isinstance(v, Each):
            return match(exp[1], v.v, groups, ones)
        return False, False
    raise AnalysisError(f"spec expectation not understood: {exp!r}")


def show_exp(exp):
    if exp[0] == "Q":
        return f"Q[{exp[1]}]"
    if exp[0] == "T":
        return "(" + ", ".join(show_exp(e) for e in exp[1]) + ")"
    if exp[0] == "EACH":
        return f"Each[{show_exp(exp[1])}]"
    return exp[0].lower()


def check(repo: Repo) -> Result:
    res = Result("C07")
    handler_types(repo, res)
    finalize_rule(repo, res)
    wrapup_rule(repo, res)
    range_helper_rule(repo, res)
    from rules import c04, c06
    from rules.common import share
    from rules.handlers import inventory

    r6 = res.rule("C07-R6", "every registered ufunc (np.add ... np.vecdot are NumPy functions too) maps to a unit rule of the ufunc's homogeneity type", floor=80)
    share(res, r6, "C04", lambda t: c04.signatures(repo, t), ["C04-R1"], min_keys=80)
    r7 = res.rule("C07-R7", "array-function handlers with out=: the caller's buffer is labelled with the unit of the numbers NumPy wrote into it", floor=8)
    share(res, r7, "C06", lambda t: c06.out_rule(repo, t, inventory(repo)), ["C06-R4"], min_keys=8)
    from rules import c01

    from rules.ufunc import UfuncAnchors as _UA

    r9 = res.rule("C07-R9", "np.power: the exponent applied to the unit is the exponent's own value (also for a scaled dimensionless base)", floor=3)
    share(res, r9, "C04", lambda t: c04.power_gate(repo, t, _UA(repo)), ["C04-R6"], min_keys=3)
    r8 = res.rule("C07-R8", "get_units reports one unit per operand, in order (products over the operands' units - einsum, convolve, tensordot - need every factor, also when two operands share a unit)", floor=1)
    share(res, r8, "C01", lambda t: c01.merging_handlers(repo, t), ["C01-R4v"], want=lambda k: k == "get_units")
    r11 = res.rule("C07-R11", "a masked np.copyto keeps the destination's unit and receives the source converted into it: the elements that are not copied keep denoting what they denoted (shared with C01-R4)", floor=1)

    def _mc(t):
        t.rule("C01-R4", "x")
        c01.masked_copy(repo, t, "C01-R4")

    share(res, r11, "C01", _mc, ["C01-R4"], want=lambda k: k == "copyto:masked-copy-converts")
    return res


def handler_types(repo, res):
    r1 = res.rule("C07-R1", "inferred unit type of every handler output equals the dimensional-analysis signature of its NumPy function, on every path", floor=105)
    r1e = res.rule("C07-R1e", "units stored on out= / destination arguments equal the unit of the returned data", floor=9)
    inv = inventory(repo)
    mod = repo.mod(AF)
    ui = UnitInterp(repo, mod, module_helpers(repo))
    untyped = []
    r10 = res.rule("C07-R10", "a result of X._implementation on operands that still carry their units (NumPy's Python-level implementation does not strip them first, spec/numpy_strips.json) may come back labelled: it is re-labelled by construction or stripped, never multiplied by the unit again", floor=3)
    strips = _numpy_strips()
    n_raw = 0
    for h in inv:
        res.fn(h.fn)
        np_name = h.np_name
        ui.hazards = []
        spec = SPEC.SIG.get(np_name)
        if spec is None:
            untyped.append(h.key)
            continue
        atoms = SPEC.ATOMS.get(np_name, [])
        outs = ui.run(h.fn)
        bad = []
        undet = []
        eff_bad = []
        eff_seen = 0
        for o in outs:
            if o.infeasible:
                continue
            asg = consistent_assignments(atoms, o.facts)
            for A in asg:
                ones = set(o.ones)
                for cond, unit_atoms in SPEC.ABSENT.items():
                    if A.get(cond) is False:
                        ones |= set(unit_atoms)
                if A.get("weights is not None") is False:
                    ones.add("U(weights)")
                exp = spec(lambda k: A[k]) if callable(spec) else spec
                ok, und = match(exp, o.value, o.groups, ones)
                if und:
                    undet.append((show(o.value, o.groups, ones), o.facts))
                elif not ok:
                    bad.append((show_exp(exp), show(o.value, o.groups, ones), [f"{t}={tr}" for t, tr in o.facts][:6]))
            # effects on destination arguments
            ret = o.value
            for kind, target, val in o.effects:
                if kind == "setattr" and target.endswith(".units"):
                    eff_seen += 1
                    owner = target[: -len(".units")]
                    want = None
                    if np_name == "numpy.copyto":
                        want = canonical(parse_mono("U(src)"), o.groups)
                    elif isinstance(ret, Qn):
                        want = canonical(ret.mono, o.groups)
                    if want is not None and isinstance(val, Un):
                        got = canonical(val.mono, o.groups)
                        if not got.same(want):
                            eff_bad.append((owner, repr(want), repr(got)))
                    elif want is not None:
                        eff_bad.append((owner, repr(want), repr(val)))
        # C07-R10 ---------------------------------------------------------------------------------------------------
        seen_raw = set()
        for o in outs:
            for call, _g in o.impl_calls:
                for i, a in enumerate(call.args):
                    n = a.value if isinstance(a, ast.Starred) else a
                    if isinstance(n, ast.Name) and (_reads_units_of(h.fn, n.id) or _reads_units_of(h.fn, _alias_root(h.fn, n.id))) and not _numpy_strips_first(strips, norm(call.func.value), i, isinstance(a, ast.Starred)) and not _stripped_before(h.fn, n.id, call):
                        seen_raw.add((norm(call.func.value), n.id))
        hz = []
        for node, raw, mono in ui.hazards:
            for npf, pos, pexpr, name in raw:
                # the unit multiplied in is (in part) the unit of that very operand
                base = re.match(r"\w+", pexpr).group(0)
                own = (not mono.is_opaque) and any(re.match(r"U\((%s|%s)\b" % (re.escape(base), re.escape(name)), k) for k in mono.atoms)
                if own and _reads_units_of(h.fn, name) and not _numpy_strips_first(strips, npf, pos, pos == "*"):
                    hz.append((node, npf, name))
        # several operands handed over with their units on (or a starred list of them): NumPy's Python-level paths
        # combine them through unyt's own multiply / tensordot, which moves the ratio of commensurable units into the
        # numbers (km * 1/m: data * 1000, unit dimensionless).  Labelling that result with the handler's own,
        # unsimplified product of the units counts the factor twice - whether the label is multiplied in or constructed.
        by_fn = {}
        starred_raw = set()
        for o in outs:
            for call, _g in o.impl_calls:
                for i, a in enumerate(call.args):
                    n = a.value if isinstance(a, ast.Starred) else a
                    if isinstance(n, ast.Name) and (norm(call.func.value), n.id) in seen_raw:
                        by_fn.setdefault(norm(call.func.value), set()).add(n.id)
                        if isinstance(a, ast.Starred):
                            starred_raw.add((norm(call.func.value), n.id))
        for npf, names in sorted(by_fn.items()):
            multi = len(names) >= 2 or any((npf, nm) in starred_raw for nm in names)
            if multi:
                n_raw += 1
                res.bad(f"{h.key}:raw-operands-combined", h.fn.where(), f"{h.key} hands several operands ({', '.join(sorted(names))}) to {npf}._implementation with their units on and labels the result with its own product of the units: on NumPy's Python-level paths (einsum with optimize=True) the operands are combined through unyt's multiply, which already moves the ratio of commensurable units into the numbers - np.einsum('i,i->', [1, 2] km, [1, 1] 1/m, optimize=True) is 3e6 instead of 3000", "operands stripped (np.asarray) before the NumPy call", sorted(names), rid=r10)
        for npf, name in sorted(seen_raw):
            n_raw += 1
            mine = [x for x in hz if x[1] == npf and x[2] == name]
            if mine:
                node = mine[0][0]
                res.bad(f"{h.key}:{name}", h.fn.where(node), f"{h.key} hands `{name}` to {npf}._implementation with its units on (the implementation does not convert it to a base array first, so Python-level paths inside NumPy dispatch back to unyt and the result can already carry the unit) and then multiplies the result by the unit: the unit is applied twice on those paths", "result re-labelled by construction (cls(res, units)) or stripped with .view(np.ndarray) first", norm(node)[:120], rid=r10)
            else:
                res.ok(f"{h.key}:{name}", r10)
        if undet and not bad:
            raise AnalysisError(f"{h.fn.where()}: unit type of {h.key} could not be inferred ({undet[0][0]})")
        if bad:
            exp_s, got_s, facts = bad[0]
            res.bad(h.key, h.fn.where(), f"{np_name}: result unit {got_s} is not the unit dimensional analysis demands {exp_s} ({len(bad)} path/assignment combinations)", exp_s, got_s, path=facts, rid=r1)
        else:
            res.ok(h.key, r1)
        if eff_seen:
            if eff_bad:
                res.bad(h.key, h.fn.where(), f"{np_name}: unit stored on {eff_bad[0][0]} differs from the unit of the returned data", eff_bad[0][1], eff_bad[0][2], rid=r1e)
            else:
                res.ok(h.key, r1e)
    if untyped:
        res.note(f"handlers without a signature row (not typed): {untyped}")


_STRIPS = None


def _numpy_strips():
    global _STRIPS
    if _STRIPS is None:
        import json
        import os

        with open(os.path.join(os.path.dirname(os.path.dirname(os.path.abspath(__file__))), "spec", "numpy_strips.json"), encoding="utf-8") as f:
            _STRIPS = json.load(f)["functions"]
    return _STRIPS


def _numpy_strips_first(strips, npf_text, pos, star):
    """True when the operand certainly comes back without units: NumPy's implementation is not Python source we could
    read (C implementations return base arrays for the functions wrapped here: not claimed), or its first use of the
    parameter at that position is `p = asarray(p)`."""
    name = "numpy." + npf_text.split(".", 1)[1] if npf_text.startswith(("np.", "numpy.")) else None
    row = strips.get(name) if name else None
    if row is None or not row.get("source"):
        return True
    if star or not isinstance(pos, int):
        return False
    params = row["params"]
    if pos >= len(params):
        return False
    return params[pos] in row["stripped"]


def _alias_root(fn, name, depth=0):
    """the name a plain copy was made from: x = y | list(y) | tuple(y) | [v for v in y]  (single definition)"""
    if depth > 3:
        return name
    defs = [n.value for n in walk_no_nested(fn.node) if isinstance(n, ast.Assign) and len(n.targets) == 1 and isinstance(n.targets[0], ast.Name) and n.targets[0].id == name]
    if len(defs) != 1:
        return name
    v = defs[0]
    if isinstance(v, ast.Call) and norm(v.func) in ("list", "tuple") and len(v.args) == 1:
        v = v.args[0]
    if isinstance(v, (ast.ListComp, ast.GeneratorExp)) and len(v.generators) == 1 and not v.generators[0].ifs and isinstance(v.generators[0].target, ast.Name) and isinstance(v.elt, ast.Name) and v.elt.id == v.generators[0].target.id:
        v = v.generators[0].iter
    if isinstance(v, ast.Name) and v.id != name:
        return _alias_root(fn, v.id, depth + 1)
    return name


def _stripped_before(fn, name, call):
    """has `name` been re-bound, before the NumPy call, to bare-array versions of itself?
    name = np.asarray(name) | name.view(np.ndarray) | [np.asarray(x) for x in name] (list / tuple / generator forms)"""

    def bare(e, var):
        if isinstance(e, ast.Call):
            f = norm(e.func)
            if f in ("np.asarray", "np.array", "np.asanyarray", "numpy.asarray") and e.args and isinstance(e.args[0], ast.Name) and e.args[0].id == var:
                return f != "np.asanyarray"
            if isinstance(e.func, ast.Attribute) and e.func.attr == "view" and isinstance(e.func.value, ast.Name) and e.func.value.id == var and e.args and norm(e.args[0]) in ("np.ndarray", "numpy.ndarray"):
                return True
        return False

    for n in walk_no_nested(fn.node):
        if not (isinstance(n, ast.Assign) and len(n.targets) == 1 and isinstance(n.targets[0], ast.Name) and n.targets[0].id == name and n.lineno < call.lineno):
            continue
        v = n.value
        if isinstance(v, ast.Call) and norm(v.func) in ("list", "tuple") and len(v.args) == 1:
            v = v.args[0]
        if bare(v, name):
            return True
        if isinstance(v, (ast.ListComp, ast.GeneratorExp)) and len(v.generators) == 1 and not v.generators[0].ifs:
            g = v.generators[0]
            if isinstance(g.iter, ast.Name) and g.iter.id == name and isinstance(g.target, ast.Name) and bare(v.elt, g.target.id):
                return True
    return False


def _reads_units_of(fn, name):
    for n in walk_no_nested(fn.node):
        if isinstance(n, ast.Attribute) and n.attr == "units" and isinstance(n.value, ast.Name) and n.value.id == name:
            return True
        if isinstance(n, ast.Call) and norm(n.func) in ("get_units", "_validate_units_consistency", "_validate_units_consistency_v2", "getattr"):
            if n.args and isinstance(n.args[0], ast.Name) and n.args[0].id == name:
                if norm(n.func) != "getattr" or (len(n.args) > 1 and isinstance(n.args[1], ast.Constant) and n.args[1].value == "units"):
                    return True
    return False


def finalize_rule(repo, res):
    r3 = res.rule("C07-R3", "__array_finalize__ copies units (and name) from the template object", floor=2)
    fn = repo.mod(ARR).func("unyt_array.__array_finalize__")
    res.fn(fn)
    obj = fn.params[1]
    got = {norm(s.targets[0]): norm(s.value) for s in fn.body if isinstance(s, ast.Assign)}
    res.check(got.get("self.units") == f"getattr({obj}, 'units', NULL_UNIT)", "units", fn.where(), "views / new-from-template arrays must inherit the template's units (dimensionless when it has none)", f"getattr({obj}, 'units', NULL_UNIT)", got.get("self.units"), rid=r3)
    res.check(got.get("self.name") == f"getattr({obj}, 'name', None)", "name", fn.where(), "views inherit the name", found=got.get("self.name"), rid=r3)


def range_helper_rule(repo, res):
    """C07-R5: _sanitize_range is the one helper the handler typing treats as a black box ("converts the range
    limits into the samples' units").  Its body is checked here: per axis i the two limits taken from position i of
    the flat range are converted into units[i] - the same index everywhere - and stored in row i."""
    r5 = res.rule("C07-R5", "histogram range limits of axis i are converted into the unit of axis i (index agreement inside _sanitize_range)", floor=4)
    fn = repo.mod(AF).func("_sanitize_range")
    res.fn(fn)
    rng, units = fn.params[0], fn.params[1]
    loops = [n for n in fn.body if isinstance(n, ast.For)]
    if len(loops) != 1 or not isinstance(loops[0].target, ast.Name):
        raise AnalysisError(f"{fn.where()}: per-axis loop not found")
    lp = loops[0]
    i = lp.target.id
    from engine.sem import canon_expr, summarise

    res.check(canon_expr(lp.iter, fn) in (f"range(len({units}))",), "loop-over-axes", fn.where(lp), "the loop runs over the axes (one per unit)", found=canon_expr(lp.iter, fn), rid=r5)
    sums = summarise(fn, body=lp.body, keep={i})
    n_store = 0
    ok_conv = ok_const = ok_row = True
    found = []
    for x in sums:
        if x.kind == "raise":
            continue
        stores = []
        for eff in x.effects:
            try:
                node = ast.parse(eff).body[0]
            except SyntaxError:
                continue
            # limits rescaled as bare numbers: `imin *= units[K]`
            for sub in ast.walk(node):
                if isinstance(sub, ast.Subscript) and norm(sub.value) == units and norm(sub.slice) != i:
                    single = x.has(f"len({units}) == 1", True)
                    ok_const &= norm(sub.slice) == "0" and single
                    if not (norm(sub.slice) == "0" and single):
                        found.append(eff)
            if isinstance(node, ast.Assign) and isinstance(node.targets[0], ast.Subscript) and isinstance(node.value, ast.Tuple) and len(node.value.elts) == 2:
                stores.append(node)
        if len(stores) != 1:
            ok_row = False
            found.append(("no single row store", x.effects))
            continue
        n_store += 1
        st = stores[0]
        ok_row &= norm(st.targets[0].slice) == i
        for el in st.value.elts:
            good = isinstance(el, ast.Call) and isinstance(el.func, ast.Attribute) and el.func.attr in ("to_value",) and len(el.args) == 1 and norm(el.args[0]) == f"{units}[{i}]"
            ok_conv &= good
            if not good:
                found.append(norm(el))
    if n_store == 0:
        raise AnalysisError(f"{fn.where(lp)}: the per-axis row store was not found")
    res.check(ok_conv, "convert-into-own-axis-unit", fn.where(lp), f"both limits of axis {i} must be converted into {units}[{i}]: converting into another axis' unit relabels instead of rescaling whenever the axes use different units of one dimension", f"x.to_value({units}[{i}]) twice", found[:3], rid=r5)
    res.check(ok_const, "constant-index-only-single-axis", fn.where(lp), f"{units}[0] may stand for the axis unit only when there is exactly one axis", found=found[:3], rid=r5)
    sl = [n for n in ast.walk(lp) if isinstance(n, ast.Subscript) and norm(n.value) == rng]
    range_call_sites(repo, res, r5)
    res.check(ok_row and len(sl) == 1 and norm(sl[0].slice).replace(" ", "") in (f"2*{i}:2*({i}+1)", f"2*{i}:2*{i}+2"), "row-and-slice-index", fn.where(lp), f"limits are read from position {i} of the flat range and stored in row {i}", found=[norm(x) for x in sl][:3], rid=r5)


def range_call_sites(repo, res, rid):
    """... and the caller side: the unit list handed to _sanitize_range names, in order, the units of the coordinate
    arrays that NumPy receives in that order (axis i of the range belongs to the i-th coordinate)."""
    mod = repo.mod(AF)
    helpers = module_helpers(repo)
    n = 0
    for q, fns in sorted(helpers.items()):
        for fn in fns:
            calls = [c for c in walk_no_nested(fn.node) if isinstance(c, ast.Call) and norm(c.func) == "_sanitize_range"]
            impl = [c for c in walk_no_nested(fn.node) if isinstance(c, ast.Call) and isinstance(c.func, ast.Attribute) and c.func.attr == "_implementation"]
            if not calls:
                continue
            res.fn(fn)
            for c in calls:
                n += 1
                u = kwarg_of(c, "units") or (c.args[1] if len(c.args) > 1 else None)
                key = f"sanitize-call:{fn.name}" + (f"@{len(fn.gate)}" if fn.gate else "")
                if isinstance(u, (ast.List, ast.Tuple)):
                    # element i must read the units of the i-th positional coordinate of the NumPy call
                    from rules.c11 import _names_through_locals

                    coords = []
                    for ic in impl:
                        coords = [({x.id for x in ast.walk(a) if isinstance(x, ast.Name)} | _names_through_locals(fn, a)) & set(fn.params) for a in ic.args[: len(u.elts)]]
                        break
                    got = []
                    for el in u.elts:
                        names = {x.id for x in ast.walk(el) if isinstance(x, ast.Name)} & set(fn.params)
                        got.append(names)
                    ok = bool(coords) and len(coords) == len(got) and all(len(g) == 1 and g == c_ for g, c_ in zip(got, coords))
                    res.check(ok, key, fn.where(c), f"{fn.name}: the unit list given to _sanitize_range does not name the coordinates in the order NumPy receives them: the range limits of one axis are converted into another axis' unit (same dimension, other scale: NumPy bins over a different window)", [sorted(c_) for c_ in coords], [sorted(g) for g in got], rid=rid)
                elif isinstance(u, (ast.ListComp, ast.GeneratorExp)) and len(u.generators) == 1:
                    g = u.generators[0]
                    it_names = {x.id for x in ast.walk(g.iter) if isinstance(x, ast.Name)} & set(fn.params)
                    from rules.c11 import _names_through_locals

                    first = ({x.id for ic in impl[:1] for x in ast.walk(ic.args[0]) if isinstance(x, ast.Name)} | _names_through_locals(fn, impl[0].args[0])) & set(fn.params) if impl and impl[0].args else set()
                    ok = len(it_names) == 1 and it_names == first and isinstance(g.target, ast.Name) and g.target.id in {x.id for x in ast.walk(u.elt) if isinstance(x, ast.Name)} and not g.ifs
                    res.check(ok, key, fn.where(c), f"{fn.name}: the units handed to _sanitize_range are not those of the sample's coordinates in order", sorted(first), sorted(it_names), rid=rid)
                else:
                    raise AnalysisError(f"{fn.where(c)}: units argument of _sanitize_range not understood: {norm(u) if u is not None else None}")
    if n < 3:
        raise AnalysisError("call sites of _sanitize_range not found")


def wrapup_rule(repo, res):
    """C07-R4: at the end of __array_ufunc__ a bare array is produced only under
    `unit is None`; every other arm wraps with the variable that came from the unit rule."""
    r4 = res.rule("C07-R4", "__array_ufunc__ wrap-up: bare result only when the unit rule returned None; every other arm wraps with `unit`", floor=5)
    fn = repo.mod(ARR).func("unyt_array.__array_ufunc__")
    res.fn(fn)
    chain = None
    for st in fn.body:
        if isinstance(st, ast.If) and norm(st.test) == "unit is None":
            chain = st
    if chain is None:
        raise AnalysisError(f"{fn.where()}: wrap-up chain `if unit is None` not found")
    arms = []
    cur = chain
    first = True
    while True:
        arms.append((norm(cur.test), cur.body, first))
        first = False
        if len(cur.orelse) == 1 and isinstance(cur.orelse[0], ast.If):
            cur = cur.orelse[0]
        else:
            arms.append(("else", cur.orelse, False))
            break
    ctors = {"unyt_quantity", "unyt_array", "ret_class"}
    for test, body, is_none_arm in arms:
        assigns = [n for n in ast.walk(ast.Module(body=body, type_ignores=[])) if isinstance(n, ast.Assign) and norm(n.targets[0]) == "out_arr"]
        if is_none_arm:
            ok = all(not any(isinstance(c, ast.Call) and norm(c.func) in ctors for c in ast.walk(a.value)) for a in assigns)
            res.check(ok, "arm:unit is None", fn.where(chain), "under `unit is None` the result stays a bare array", rid=r4)
            continue
        ok = bool(assigns)
        for a in assigns:
            calls = [c for c in ast.walk(a.value) if isinstance(c, ast.Call) and norm(c.func) in ctors]
            ok &= len(calls) >= 1 and all(len(c.args) >= 2 and norm(c.args[1]) == "unit" for c in calls)
        res.check(ok, f"arm:{test}", fn.where(body[0]) if body else fn.where(), f"wrap-up arm `{test}` must wrap the result with the unit computed by the unit rule", "ctor(out_arr, unit)", [norm(a.value) for a in assigns], rid=r4)
    # the out= target holds the same (scaled) numbers as the returned value: otherwise re-expressing an operand
    # changes what the caller's buffer holds by more than re-expression
    from rules.ufunc import UfuncAnchors, out_target_scaled

    ok, where, conds = out_target_scaled(UfuncAnchors(repo))
    res.check(ok, "out-target-scaled", where, "with out= given and a simplification coefficient != 1 (e.g. km/m) the out target is not multiplied by the coefficient on some path: the buffer's numbers depend on the units the operands were written in", "multiply(out, mul, out=out) on every such path", conds, path=conds, rid=r4)
    # every definition of `unit` is a unit-rule result (element 1), the dimensionless reset of the ratio shortcut, or
    # the first input's unit in the clip arm
    from rules.ufunc import unit_rule_results

    ua = UfuncAnchors(repo)
    n_defs = 0
    for node, kind, detail in unit_rule_results(ua, "unit"):
        n_defs += 1
        ok = (kind == "rule" and detail[0] == 1 and detail[1] in (["u"], ["u0", "u1"])) or (kind == "power-mapping" and detail[0] == 1 and detail[1].get("in_unit") == "u") or (kind == "reset" and detail in ("Unit(registry=unit.registry)", "inputs[0].units"))
        res.check(ok, f"unit-def:{kind}:{str(detail)[:40]}", fn.where(node), "the unit attached to the result must come from the ufunc's unit rule", found=(kind, detail), rid=r4)
    if n_defs < 4:
        raise AnalysisError(f"{fn.where()}: definitions of `unit` not found")
    # binary ufuncs on operands in different units: the common-unit block is entered whenever the units differ by
    # value, so re-expressing one input cannot switch the conversion off (same analysis as C04-R2)
    from rules.ufunc import differ_entry

    ok_e, bad_e = differ_entry(ua)
    res.check(ok_e, "common-unit-entry", fn.where(ua.differ_if), "np.add / np.maximum / comparisons ... skip the conversion to a common unit for some operands whose units differ: the entry test has a conjunct that can be false although scale or dimension differ", "only comparisons of the two unit objects (is not / !=)", bad_e, rid=r4)


UO = "unyt/unit_object.py"

MUTANTS = [
    Mutant("einsum-plain-copy-keeps-units-on", AF, "einsum", "    operands = [np.asarray(op) for op in operands]\n    res = np.einsum._implementation(subscripts, *operands, out=out_view, **kwargs)\n", "    arrays = [op for op in operands]\n    res = np.einsum._implementation(subscripts, *arrays, out=out_view, **kwargs)\n", ("C07-R10",)),
    Mutant("einsum-operands-with-units-on", AF, "einsum", "    operands = [np.asarray(op) for op in operands]\n", "", ("C07-R10",)),
    Mutant("twin-einsum-strips-into-tuple", AF, "einsum", "    operands = [np.asarray(op) for op in operands]\n", "    operands = tuple(np.asarray(op) for op in operands)\n", (), benign=True),
    Mutant("masked-copyto-relabels", AF, "copyto", "        np.copyto._implementation(dst, src.to(dst.units), *args, **kwargs)\n        return\n", "        pass\n", ("C07-R11",)),
    Mutant("product-helper-drops-coefficient", AF, "product_helper", 'prod_units = getattr(a, "units", NULL_UNIT) * getattr(b, "units", NULL_UNIT)', '_, prod_units = _multiply_units(getattr(a, "units", NULL_UNIT), getattr(b, "units", NULL_UNIT))', ("C07-R1",)),
    Mutant("var-linear", AF, "var", "a.units**2", "a.units", ("C07-R1",)),
    Mutant("inv-not-inverted", AF, "linalg_inv", "**kwargs) / a.units", "**kwargs) * a.units", ("C07-R1",)),
    Mutant("solve-swapped", AF, "linalg_solve", "* bu\n        / au", "* au\n        / bu", ("C07-R1",)),
    Mutant("svd-units-on-u", AF, "linalg_svd", "return (u, s * ret_units, vh)", "return (u * ret_units, s, vh)", ("C07-R1",)),
    Mutant("eig-vectors", AF, "linalg_eig", "return w * ret_units, v", "return w * ret_units, v * ret_units", ("C07-R1",)),
    Mutant("trapezoid-dx", AF, "trapezoid", 'ret_units = ret_units * getattr(dx, "units", NULL_UNIT)', "ret_units = ret_units", ("C07-R1",)),
    Mutant("hist-density", AF, "_histogram", "counts /= a.units", "counts *= a.units", ("C07-R1",)),
    Mutant("hist2d-forget-y", AF, "_histogram2d", '        if hasattr(y, "units"):\n            counts /= y.units\n', "", ("C07-R1",)),
    Mutant("hist-edges-bare", AF, "_histogram", 'return counts, bins * getattr(a, "units", 1)', "return counts, bins", ("C07-R1",)),
    Mutant("linspace-step", AF, "_linspace", "result[1] * start.units", "result[1]", ("C07-R1",)),
    Mutant("where-drops", AF, "where", "        * retu\n", "", ("C07-R1",)),
    Mutant("percentile-bare", AF, "percentile", " * a.units", "", ("C07-R1",)),
    Mutant("prod-exponent", AF, "prod", "a.units ** (a.size // res.size)", "a.units ** (a.size)", ("C07-R1",)),
    Mutant("interp-x-units", AF, "interp", 'getattr(fp, "units", 1)', 'getattr(xp, "units", 1)', ("C07-R1",)),
    Mutant("kron-one-unit", AF, "kron", 'getattr(a, "units", NULL_UNIT) * getattr(b, "units", NULL_UNIT)', 'getattr(a, "units", NULL_UNIT)', ("C07-R1",)),
    Mutant("out-units-wrong", AF, "product_helper", "out.units = prod_units", 'out.units = getattr(a, "units", NULL_UNIT)', ("C07-R1e",)),
    Mutant("copyto-keeps-dst", AF, "copyto", 'dst.units = getattr(src, "units", dst.units)', "dst.units = dst.units", ("C07-R1e",)),
    Mutant("finalize-null", ARR, "unyt_array.__array_finalize__", 'getattr(obj, "units", NULL_UNIT)', "NULL_UNIT", ("C07-R3",)),
    Mutant("wrapup-size1-bare", ARR, "unyt_array.__array_ufunc__", "out_arr = unyt_array(np.asarray(out_arr), unit)", "out_arr = np.asarray(out_arr)", ("C07-R4",)),
    Mutant("wrapup-other-unit", ARR, "unyt_array.__array_ufunc__", "out_arr = unyt_quantity(np.asarray(out_arr), unit)", "out_arr = unyt_quantity(np.asarray(out_arr), u0)", ("C07-R4",)),
    Mutant("twin-rename", AF, "linalg_solve", "au", "unit_a", (), count=2, benign=True),
    Mutant("twin-commute", AF, "kron", 'getattr(a, "units", NULL_UNIT) * getattr(b, "units", NULL_UNIT)', 'getattr(b, "units", NULL_UNIT) * getattr(a, "units", NULL_UNIT)', (), benign=True),
    Mutant("twin-hoist", AF, "var", "return np.var._implementation(np.asarray(a), *args, **kwargs) * a.units**2", "u2 = a.units**2\n    return np.var._implementation(np.asarray(a), *args, **kwargs) * u2", (), benign=True),
    Mutant("common-unit-entry-by-spelling", ARR, "unyt_array.__array_ufunc__", "if u0 is not u1 and u0 != u1:", "if u0 is not u1 and u0.expr != u1.expr:", ("C07-R4",)),
    Mutant("entry-without-identity-shortcut", ARR, "unyt_array.__array_ufunc__", "if u0 is not u1 and u0 != u1:", "if u0 != u1:", (), benign=True),
    Mutant("vecdot-passthrough", ARR, None, "_ufunc_registry[vecdot] = _multiply_units", "_ufunc_registry[vecdot] = _passthrough_unit", ("C07-R6",)),
    Mutant("clip-out-not-relabelled", AF, "clip_impl", "        out.units = a.units\n", "        pass\n", ("C07-R7",)),
    Mutant("get-units-dedupes", AF, "get_units", "    return units\n", "    return list(dict.fromkeys(units))\n", ("C07-R8",)),
    # with the operands stripped before the NumPy call (repair of the einsum defect) multiplying the unit in is correct
    Mutant("twin-einsum-multiplies-unit-in", AF, "einsum", "    if res.ndim == 0:\n        cls = unyt_quantity\n    else:\n        cls = unyt_array\n\n    return cls(res, ret_units, bypass_validation=True)", "    return res * ret_units", (), benign=True),
    Mutant("einsum-raw-operands-and-unit-multiplied-in", AF, "einsum", "    operands = [np.asarray(op) for op in operands]\n    res = np.einsum._implementation(subscripts, *operands, out=out_view, **kwargs)\n", "    res = np.asarray(np.einsum._implementation(subscripts, *operands, out=out_view, **kwargs)) * ret_units\n", ("C07-R10",)),
    Mutant("einsum-strips-then-multiplies", AF, "einsum", "    res = np.einsum._implementation(subscripts, *operands, out=out_view, **kwargs)\n\n    if getattr(out, \"units\", None) is not None:\n        out.units = ret_units\n\n    if res.ndim == 0:\n        cls = unyt_quantity\n    else:\n        cls = unyt_array\n\n    return cls(res, ret_units, bypass_validation=True)", "    res = np.einsum._implementation(subscripts, *[np.asarray(o) for o in operands], out=out_view, **kwargs)\n\n    if getattr(out, \"units\", None) is not None:\n        out.units = ret_units\n\n    return res * ret_units", (), benign=True),
    Mutant("range-limit-wrong-axis", AF, "_sanitize_range", "imin.to_value(units[i]), imax.to_value(units[i])", "imin.to_value(units[i]), imax.to_value(units[0])", ("C07-R5",)),
]
