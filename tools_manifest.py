#!/venv/bin/python
"""Regenerates MANIFEST.json from rules/*.py metadata (run by hand after adding a rule module)."""
import importlib, json, os, sys
HERE = os.path.dirname(os.path.abspath(__file__))
sys.path.insert(0, HERE)
props = [json.loads(l) for l in open(os.path.join(HERE, "properties.jsonl"))]
from engine.core import Repo  # noqa: E402

REPO = Repo.from_disk("/repo")


def rule_list(m):
    """the rules the module actually evaluates, with the number of obligations on the current tree"""
    res = m.check(REPO)
    out = []
    for rid, r in res.rules.items():
        out.append(f"{rid} [{len(r['keys'])}]: {r['description']}")
    return "\nRules evaluated on every run (id [obligations on the pinned tree]: statement): " + " | ".join(out)

checks, na = [], []
for p in props:
    pid = p["id"]
    path = os.path.join(HERE, "rules", pid.lower() + ".py")
    if not os.path.exists(path):
        na.append({"property_id": pid, "reason": "check not built yet (static rules planned in DESIGN.md section 2)"})
        continue
    m = importlib.import_module("rules." + pid.lower())
    if getattr(m, "NOT_APPLICABLE", None):
        na.append({"property_id": pid, "reason": m.NOT_APPLICABLE})
        continue
    checks.append({
        "property_id": pid,
        "quick_cmd": f"./check {pid} --tier quick",
        "thorough_cmd": f"./check {pid} --tier thorough",
        "evidence_file": f"evidence/{pid}.json",
        "replay_cmd_template": f"./check {pid} --replay {{path}}",
        "engine": "unyt-static",
        "level_claimed": {
            "category": "other",
            "text": m.LEVEL_TEXT.strip() + rule_list(m),
            "design_ref": f"DESIGN.md section 2, {pid}",
        },
        "level_note": m.LEVEL_NOTE.strip(),
        "technique": m.TECHNIQUE.strip(),
    })
man = {
    "version": 1,
    "setup_cmd": "/venv/bin/python -m compileall -q engine rules spec check >/dev/null 2>&1 || true",
    "hooks": {
        "guard": "UNYT_VERIF",
        "enable": "none needed: the checks only parse /repo/unyt/*.py, nothing is built or instrumented",
        "baseline_off_cmd": "cd /repo && /venv/bin/python -m pytest -ra -q -p no:cacheprovider --timeout=900 --continue-on-collection-errors",
        "source_commits": [],
        "add_only": True,
    },
    "engines": [{
        "name": "unyt-static",
        "path": "check",
        "serves_properties": [c["property_id"] for c in checks],
        "kind_free_text": "repository-specific static analysis on the Python AST: resolver, constant folder for the definition tables, structured control-flow walker with finite abstract state, units-of-measure type inference for handlers and equivalences; stdlib only, never imports or runs unyt",
    }],
    "checks": checks,
    "not_applicable": na,
    "notes": "All checks are static (AST) analyses of /repo/unyt as it is on disk at the time of the call. Exit 0/1/2; 2 = ANALYSIS-ERROR (vanished anchor / dead rule), never a VIOLATION. Each property is claimed only for the structural clauses listed in DESIGN.md section 2/3; the undecided (numerical / runtime) clauses are repeated in level_note.",
}
json.dump(man, open(os.path.join(HERE, "MANIFEST.json"), "w"), indent=1, ensure_ascii=False)
print(len(checks), "checks;", len(na), "not applicable")
