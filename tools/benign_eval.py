#!/venv/bin/python
"""Run the 20 checks against behaviour-preserving refactorings (false-alarm audit).

usage: benign_eval.py [dir-with-*.diff ...]   (default: /verif/selftest/benign)
Each diff is applied to a scratch worktree of /repo HEAD; every check runs with --repo on it.  Exit status 1 of a check
(VIOLATION) on such a tree is a false alarm; exit 2 (ANALYSIS-ERROR: anchor moved) is the designed answer to a refactoring
the resolver cannot follow.  Writes selftest/benign/RESULTS.json when run on the default directory.
"""
import json, os, re, shutil, subprocess, sys, tempfile
from concurrent.futures import ThreadPoolExecutor

VERIF = os.path.dirname(os.path.dirname(os.path.abspath(__file__)))
PIDS = [f"C{i:02d}" for i in range(1, 21)]


def sh(cmd, cwd=None):
    p = subprocess.run(cmd, cwd=cwd, capture_output=True, text=True)
    return p.returncode, p.stdout + p.stderr


def one(diff):
    wt = tempfile.mkdtemp(prefix="ben_", dir="/tmp")
    os.rmdir(wt)
    out = {"diff": os.path.basename(diff)}
    try:
        rc, o = sh(["git", "-C", "/repo", "worktree", "add", "-q", "--detach", wt, os.environ.get("EVAL_BASE", "HEAD")])
        if rc:
            return dict(out, error="worktree: " + o[-200:])
        rc, o = sh(["git", "-C", wt, "apply", diff])
        if rc:
            return dict(out, error="apply: " + o[-200:])
        od = tempfile.mkdtemp(prefix="benout_", dir="/tmp")
        res = {}
        for pid in PIDS:
            rc, o = sh([os.path.join(VERIF, "check"), pid, "--tier", "quick", "--no-evidence", "--repo", wt, "--outdir", od], cwd=VERIF)
            if rc:
                lines = [l.strip()[:300] for l in o.splitlines() if re.match(r"\s+C\d\d-R", l) and "obligations discharged" not in l or l.startswith("ANALYSIS-ERROR")]
                res[pid] = {"rc": rc, "reports": lines[:3]}
        shutil.rmtree(od, ignore_errors=True)
        out["checks"] = res
        return out
    finally:
        sh(["git", "-C", "/repo", "worktree", "remove", "--force", wt])
        shutil.rmtree(wt, ignore_errors=True)


def main():
    global PIDS
    args = sys.argv[1:]
    only = None
    while args and args[0].startswith("--"):
        if args[0] == "--pids":
            PIDS = args[1].split(",")
        elif args[0] == "--diffs":
            only = args[1].split(",")
        args = args[2:]
    sys.argv[1:] = args
    dirs = [os.path.abspath(d) for d in sys.argv[1:]] or [os.path.join(VERIF, "selftest", "benign")]
    diffs = sorted(os.path.join(d, f) for d in dirs for f in os.listdir(d) if f.endswith(".diff"))
    if only:
        diffs = [d for d in diffs if any(os.path.basename(d).startswith(o) for o in only)]
    # the unchanged tree must be silent first, otherwise every refactoring would be blamed
    base_wt = None
    if os.environ.get("EVAL_BASE"):
        base_wt = tempfile.mkdtemp(prefix="ben_base_", dir="/tmp")
        os.rmdir(base_wt)
        sh(["git", "-C", "/repo", "worktree", "add", "-q", "--detach", base_wt, os.environ["EVAL_BASE"]])
    for pid in PIDS:
        rc, o = sh([os.path.join(VERIF, "check"), pid, "--tier", "quick", "--no-evidence", "--outdir", tempfile.mkdtemp(prefix="benout_", dir="/tmp")] + (["--repo", base_wt] if base_wt else []), cwd=VERIF)
        if rc:
            print(f"check {pid} is not silent on the unchanged tree (rc={rc}); fix that first")
            print("\n".join(l for l in o.splitlines() if "VIOLATION" in l or "ANALYSIS-ERROR" in l or l.startswith("  C"))[:1500])
            return 2
    if base_wt:
        sh(["git", "-C", "/repo", "worktree", "remove", "--force", base_wt])
    with ThreadPoolExecutor(6) as ex:
        rows = list(ex.map(one, diffs))
    sh(["git", "-C", "/repo", "worktree", "prune"])
    fa = [(r["diff"], p, v["reports"]) for r in rows for p, v in r.get("checks", {}).items() if v["rc"] == 1]
    ae = [(r["diff"], p, v["reports"]) for r in rows for p, v in r.get("checks", {}).items() if v["rc"] == 2]
    print(f"refactorings={len(rows)} false_alarms={len(fa)} analysis_errors={len(ae)} apply_errors={sum(1 for r in rows if 'error' in r)}")
    for d, p, rep in fa:
        print("FALSE-ALARM", d, p, rep[:1])
    for d, p, rep in ae:
        print("ANALYSIS-ERROR", d, p, rep[:1])
    for r in rows:
        if "error" in r:
            print("ERR", r["diff"], r["error"])
    if not sys.argv[1:] and len(PIDS) == 20 and not only:
        with open(os.path.join(VERIF, "selftest", "benign", "RESULTS.json"), "w") as f:
            json.dump(rows, f, indent=1)
    return 0


if __name__ == "__main__":
    sys.exit(main())
