#!/bin/bash
# re-confirm every seeded change against the current /repo HEAD (after repairs of the repository a seed may have become
# harmless or may no longer apply): prints one line per seed that is NOT confirmed
cd "$(dirname "$0")/.."
ls -d seeded/C??-? | xargs -P ${JOBS:-8} -I{} sh -c 'tools/seed_eval.py confirm {} 2>&1 | /venv/bin/python -c "
import sys,json,re
s=sys.stdin.read()
try:
    o=json.loads(s[s.index(\"{\"):])
    c=o.get(\"confirm\",{})
    if not c.get(\"confirmed\"): print(\"NOT-CONFIRMED\", \"{}\", json.dumps(c)[:300])
except Exception as e:
    print(\"PARSE-ERROR\", \"{}\", s[-200:].replace(chr(10),\" \"))
"'
