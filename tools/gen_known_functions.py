#!/venv/bin/python
"""Generate spec/known_functions.json: the module-level function names of every analysed module of the reference tree.
The normal form (engine/normal.py N14 / N14b) inlines only helpers that are NOT in this inventory - i.e. helpers a later
refactoring introduced - so that the functions the rules are written against are never normalised away.
Re-run after a deliberate change of the reference tree."""
import ast, glob, json, os, sys
repo = sys.argv[1] if len(sys.argv) > 1 else "/repo"
out = {}
for f in sorted(glob.glob(os.path.join(repo, "unyt", "*.py"))):
    rel = os.path.relpath(f, repo)
    t = ast.parse(open(f, encoding="utf-8").read())
    names = set()
    for n in ast.walk(t):
        if isinstance(n, ast.FunctionDef):
            names.add(n.name)
    out[rel] = sorted(names)
here = os.path.dirname(os.path.dirname(os.path.abspath(__file__)))
json.dump(out, open(os.path.join(here, "spec", "known_functions.json"), "w"), indent=0, sort_keys=True)
print(sum(len(v) for v in out.values()), "functions")
