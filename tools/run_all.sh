#!/bin/bash
# run every check in the given tier (default quick) and print one line per property with the exit code
tier=${1:-quick}
cd "$(dirname "$0")/.."
bad=0
for i in $(seq -w 1 20); do
  out=$(./check C$i --tier $tier --no-evidence 2>&1); rc=$?
  echo "C$i rc=$rc $(echo "$out" | grep -c '^KNOWN-FINDING') known  $(echo "$out" | grep 'liveness' | sed 's/^ *//')"
  if [ $rc -ne 0 ]; then bad=1; echo "$out" | grep -v '^  C[0-9][0-9]-R[0-9a-z]*:' | grep -v KNOWN | head -8; fi
done
exit $bad
