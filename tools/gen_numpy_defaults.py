#!/venv/bin/python
"""Generate spec/numpy_defaults.json: the plain-constant parameter defaults of every NumPy function unyt registers a
handler for (read with inspect.signature from the NumPy of the repository's environment).  The checks compare the
handlers' own literal defaults with this table (C06-R8); they never import NumPy themselves.
Re-run when the environment's NumPy changes."""
import inspect
import json
import os
import sys

HERE = os.path.dirname(os.path.abspath(__file__))
VERIF = os.path.dirname(HERE)
sys.path.insert(0, VERIF)
import numpy as np  # noqa: E402

from engine.core import Repo  # noqa: E402
from rules.handlers import inventory  # noqa: E402


def resolve(t):
    obj = np
    for part in t.split(".")[1:]:
        obj = getattr(obj, part, None)
        if obj is None:
            return None
    return obj


def main():
    repo = Repo.from_disk(sys.argv[1] if len(sys.argv) > 1 else "/repo")
    out = {}
    names = {}
    positional = {}
    for h in inventory(repo):
        for t in h.targets:
            f = resolve(t)
            if f is None:
                continue
            try:
                sig = inspect.signature(f)
            except (TypeError, ValueError):
                continue
            d = {}
            for p, prm in sig.parameters.items():
                if prm.default is not inspect._empty and type(prm.default) in (int, float, str, bool, type(None)):
                    d[p] = prm.default
            out[t] = d
            names[t] = [p for p, prm in sig.parameters.items() if prm.kind not in (prm.VAR_POSITIONAL, prm.VAR_KEYWORD)]
            positional[t] = [p for p, prm in sig.parameters.items() if prm.kind in (prm.POSITIONAL_ONLY, prm.POSITIONAL_OR_KEYWORD)]
    with open(os.path.join(VERIF, "spec", "numpy_defaults.json"), "w", encoding="utf-8") as f:
        json.dump({"numpy_version": np.__version__, "defaults": out, "params": names, "positional": positional}, f, indent=0, sort_keys=True)
    print(f"{len(out)} functions, numpy {np.__version__}")


if __name__ == "__main__":
    main()
