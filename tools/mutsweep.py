#!/venv/bin/python
"""Generic mutation sweep used to *test the checkers* (never to decide a property).

For every function the 20 checks say they analysed (plus the literal tables),
enumerate small syntactic mutants (operator swaps, negated tests, deleted
statements, swapped sibling names/arguments, dropped keywords, perturbed
constants, retargeted table entries).  Stage A: run all rule modules in-process
on the mutated source (parsed only, nothing executed) and record which rules
report a *new* finding or an analysis error.  Stage B (--tests): for mutants
that no check reports, run the pinned test-suite on a scratch copy to see
whether the suite kills them.  What survives both stages is the triage list:
each entry is either behaviour-preserving / outside the 20 properties, or a gap
in a rule.

usage: mutsweep.py --out DIR [--jobs N] [--tests] [--only REGEX] [--limit K] [--ops a,b]
"""

from __future__ import annotations

import argparse
import ast
import copy
import importlib
import json
import os
import re
import shutil
import subprocess
import sys
import tempfile
import time
from concurrent.futures import ProcessPoolExecutor

VERIF = os.path.dirname(os.path.dirname(os.path.abspath(__file__)))
sys.path.insert(0, VERIF)
from engine.core import AnalysisError, Repo  # noqa: E402

PIDS = [f"c{i:02d}" for i in range(1, 21)]
TABLE_MODULES = ["unyt/_unit_lookup_table.py", "unyt/_physical_ratios.py", "unyt/dimensions.py", "unyt/unit_systems.py"]

CMP_SWAP = {
    ast.Eq: ast.NotEq, ast.NotEq: ast.Eq, ast.Lt: ast.LtE, ast.LtE: ast.Lt, ast.Gt: ast.GtE, ast.GtE: ast.Gt,
    ast.Is: ast.IsNot, ast.IsNot: ast.Is, ast.In: ast.NotIn, ast.NotIn: ast.In,
}
BIN_SWAP = {ast.Mult: ast.Div, ast.Div: ast.Mult, ast.Add: ast.Sub, ast.Sub: ast.Add, ast.Pow: ast.Mult, ast.FloorDiv: ast.Div}
SIB = re.compile(r"^(.*?)([0-9])$")


def sibling(name, pool):
    m = SIB.match(name)
    if m:
        for d in "0123":
            if d != m.group(2) and m.group(1) + d in pool:
                return m.group(1) + d
    for a, b in (("old", "new"), ("new", "old"), ("self", "other"), ("actual", "desired"), ("desired", "actual"), ("act", "des"), ("des", "act"), ("min", "max"), ("max", "min"), ("left", "right"), ("right", "left")):
        if a in name:
            c = name.replace(a, b)
            if c in pool:
                return c
    return None


def sites(fn_node):
    """Yield (op, description, mutate(node_in_copy)) for one function/module node.
    The walk order of ast.walk on a deepcopy is identical, so a site is addressed by index."""
    names = {n.id for n in ast.walk(fn_node) if isinstance(n, ast.Name)}
    for idx, n in enumerate(ast.walk(fn_node)):
        if isinstance(n, ast.Compare) and len(n.ops) == 1 and type(n.ops[0]) in CMP_SWAP:
            yield idx, "cmp", f"{ast.unparse(n)} : {type(n.ops[0]).__name__}->{CMP_SWAP[type(n.ops[0])].__name__}"
        if isinstance(n, ast.BinOp) and type(n.op) in BIN_SWAP:
            yield idx, "binop", f"{ast.unparse(n)} : {type(n.op).__name__}->{BIN_SWAP[type(n.op)].__name__}"
            if isinstance(n.op, (ast.Div, ast.Sub, ast.Pow)):
                yield idx, "binswap", f"{ast.unparse(n)} : operands swapped"
        if isinstance(n, (ast.If, ast.While, ast.IfExp)):
            yield idx, "negate", f"if {ast.unparse(n.test)} : negated"
        if isinstance(n, ast.BoolOp) and len(n.values) >= 2:
            yield idx, "boolop", f"{ast.unparse(n)} : and<->or"
            yield idx, "booldrop", f"{ast.unparse(n)} : last operand dropped"
        if isinstance(n, (ast.Expr, ast.Assign, ast.AugAssign, ast.Raise, ast.Delete)) and not (
            isinstance(n, ast.Expr) and isinstance(n.value, ast.Constant)
        ):
            yield idx, "delete", f"{ast.unparse(n)[:100]} : statement deleted"
        if isinstance(n, ast.Return) and n.value is not None and isinstance(n.value, ast.Tuple) and len(n.value.elts) == 2:
            yield idx, "retswap", f"{ast.unparse(n)[:100]} : tuple elements swapped"
        if isinstance(n, ast.Call):
            if len(n.args) >= 2 and not any(isinstance(a, ast.Starred) for a in n.args[:2]) and ast.dump(n.args[0]) != ast.dump(n.args[1]):
                yield idx, "argswap", f"{ast.unparse(n)[:100]} : first two args swapped"
            for k, kw in enumerate(n.keywords):
                if kw.arg is not None:
                    yield idx, f"kwdrop{k}", f"{ast.unparse(n)[:100]} : keyword {kw.arg} dropped"
        if isinstance(n, ast.Name) and isinstance(n.ctx, ast.Load):
            s = sibling(n.id, names)
            if s:
                yield idx, "sibname", f"{n.id}->{s} (line {n.lineno}: {n.col_offset})"
        if isinstance(n, ast.Attribute) and isinstance(n.ctx, ast.Load) and n.attr in ("base_value", "base_offset", "dimensions", "expr"):
            alt = {"base_value": "base_offset", "base_offset": "base_value", "dimensions": "expr", "expr": "dimensions"}[n.attr]
            yield idx, "attr", f"{ast.unparse(n)} -> .{alt}"
        if isinstance(n, ast.Constant):
            if isinstance(n.value, bool):
                yield idx, "const", f"{n.value!r} -> {not n.value!r} (line {n.lineno})"
            elif isinstance(n.value, (int, float)) and not isinstance(n.value, bool):
                yield idx, "const", f"{n.value!r} perturbed (line {n.lineno})"
            elif isinstance(n.value, str) and n.value in ("cgs", "mks", "reduce", "radian", "i", "u", "c", "f"):
                alt = {"cgs": "mks", "mks": "cgs", "reduce": "accumulate", "radian": "degree", "i": "u", "u": "i", "c": "f", "f": "c"}[n.value]
                yield idx, "const", f"{n.value!r} -> {alt!r} (line {n.lineno})"
        if isinstance(n, ast.Dict) and len(n.values) >= 2:
            vals = [ast.unparse(v) for v in n.values]
            for k, v in enumerate(n.values):
                if isinstance(v, ast.Name):
                    other = next((w for w in vals if w != v.id and w.isidentifier()), None)
                    if other:
                        yield idx, f"dictval{k}", f"{{{ast.unparse(n.keys[k]) if n.keys[k] else '**'}: {v.id}}} -> {other}"


def apply_site(node, idx, op):
    tgt = None
    parent_of = {}
    for i, n in enumerate(ast.walk(node)):
        for ch in ast.iter_child_nodes(n):
            parent_of[id(ch)] = n
        if i == idx:
            tgt = n
    n = tgt
    if op == "cmp":
        n.ops = [CMP_SWAP[type(n.ops[0])]()]
    elif op == "binop":
        n.op = BIN_SWAP[type(n.op)]()
    elif op == "binswap":
        n.left, n.right = n.right, n.left
    elif op == "negate":
        n.test = ast.UnaryOp(op=ast.Not(), operand=n.test)
    elif op == "boolop":
        n.op = ast.Or() if isinstance(n.op, ast.And) else ast.And()
    elif op == "booldrop":
        n.values = n.values[:-1]
        if len(n.values) == 1:
            n.values.append(copy.deepcopy(n.values[0]))
    elif op == "delete":
        p = parent_of[id(n)]
        for fld in ("body", "orelse", "finalbody", "handlers"):
            lst = getattr(p, fld, None)
            if isinstance(lst, list) and n in lst:
                lst[lst.index(n)] = ast.Pass()
                break
        else:
            return False
    elif op == "retswap":
        n.value.elts = n.value.elts[::-1]
    elif op == "argswap":
        n.args[0], n.args[1] = n.args[1], n.args[0]
    elif op.startswith("kwdrop"):
        del n.keywords[int(op[6:])]
    elif op == "sibname":
        names = {x.id for x in ast.walk(node) if isinstance(x, ast.Name)}
        n.id = sibling(n.id, names)
    elif op == "attr":
        n.attr = {"base_value": "base_offset", "base_offset": "base_value", "dimensions": "expr", "expr": "dimensions"}[n.attr]
    elif op == "const":
        v = n.value
        if isinstance(v, bool):
            n.value = not v
        elif isinstance(v, int):
            n.value = v + 1
        elif isinstance(v, float):
            n.value = v * 1.01 if v else 1.0
        else:
            n.value = {"cgs": "mks", "mks": "cgs", "reduce": "accumulate", "radian": "degree", "i": "u", "u": "i", "c": "f", "f": "c"}[v]
    elif op.startswith("dictval"):
        k = int(op[7:])
        vals = [ast.unparse(v) for v in n.values]
        cur = n.values[k].id
        other = next(w for w in vals if w != cur and w.isidentifier())
        n.values[k] = ast.Name(id=other, ctx=ast.Load())
    else:
        return False
    return True


def target_functions(repo):
    """file -> set of qualnames analysed by at least one rule (from a clean in-process run)."""
    out = {}
    base = {}
    for pid in PIDS:
        res = importlib.import_module("rules." + pid).check(repo)
        base[pid] = {f.key for f in res.findings}
        for f in res.analysed_functions:
            rel, q = f.split(":", 1)
            out.setdefault(rel, set()).add(q)
    return out, base


def enumerate_mutants(repo, only=None, ops=None):
    targets, base = target_functions(repo)
    muts = []
    for rel in sorted(set(targets) | set(TABLE_MODULES)):
        mod = repo.mod(rel)
        regions = []
        if rel in TABLE_MODULES:
            regions.append(("<module>", 0, mod.tree))
        for q in sorted(targets.get(rel, ())):
            for w, fi in enumerate(mod.funcs.get(q, [])):
                regions.append((q, w, fi.node))
        seen_lines = set()
        for q, w, node in regions:
            if only and not re.search(only, f"{rel}:{q}"):
                continue
            for idx, op, desc in sites(node):
                if ops and re.sub(r"\d+$", "", op) not in ops:
                    continue
                if q == "<module>" and op not in ("const", "binop", "binswap") and not op.startswith("dictval"):
                    continue
                muts.append({"file": rel, "func": q, "which": w, "lineno": node.lineno if q != "<module>" else 0, "idx": idx, "op": op, "desc": desc})
    for i, m in enumerate(muts):
        m["id"] = i
    return muts, base


def mutated_source(repo, m):
    mod = repo.mod(m["file"])
    tree = copy.deepcopy(mod.tree)
    if m["func"] == "<module>":
        node = tree
    else:
        node = None
        for n in ast.walk(tree):
            if isinstance(n, (ast.FunctionDef, ast.AsyncFunctionDef)) and n.lineno == m["lineno"] and n.name == m["func"].split(".")[-1]:
                node = n
                break
        if node is None:
            return None
    if not apply_site(node, m["idx"], m["op"]):
        return None
    ast.fix_missing_locations(tree)
    try:
        src = ast.unparse(tree)
        compile(src, m["file"], "exec")
    except Exception:
        return None
    return src


_repo = None
_base = None
_scratch = None


def _init(base, tests):
    global _repo, _base, _scratch
    _repo = Repo.from_disk("/repo")
    _base = base
    if tests:
        _scratch = tempfile.mkdtemp(prefix="msw_", dir="/tmp")
        subprocess.run(f"git -C /repo archive HEAD | tar -x -C {_scratch}", shell=True, check=True)
        import atexit

        atexit.register(shutil.rmtree, _scratch, True)
        _clean_failures()


_deselect = None


def _clean_failures():
    """The pinned environment makes 28 tests fail on the clean tree (NumPy 2.5 deprecations); they are
    deselected so that `-x` stops at the first failure a *mutant* causes among the 652 stable-pass tests."""
    global _deselect
    env = dict(os.environ, PYTHONPATH=_scratch, PYTHONDONTWRITEBYTECODE="1")
    r = subprocess.run(
        ["/venv/bin/python", "-m", "pytest", "-q", "-rfE", "--color=no", "-p", "no:cacheprovider", "--no-header", "--timeout=900", "unyt"],
        cwd=_scratch, env=env, capture_output=True, text=True, timeout=1800,
    )
    ids = []
    for l in r.stdout.splitlines():
        if l.startswith(("FAILED ", "ERROR ")):
            i = l.split(" ", 1)[1].split(" - ", 1)[0].strip()
            if " " in i:  # pytest does not match --deselect ids that contain blanks: fall back to the prefix
                i = i.split("[")[0]
            ids.append(i)
    _deselect = [a for i in ids for a in ("--deselect", i)]
    chk = subprocess.run(
        ["/venv/bin/python", "-m", "pytest", "-x", "-q", "--color=no", "-p", "no:cacheprovider", "--no-header", "--timeout=900", *_deselect, "unyt"],
        cwd=_scratch, env=env, capture_output=True, text=True, timeout=1800,
    )
    if chk.returncode != 0:
        raise RuntimeError("clean tree does not pass with the environment failures deselected: " + chk.stdout[-400:])


def _job(m):
    t0 = time.time()
    src = mutated_source(_repo, m)
    if src is None:
        return dict(m, status="invalid")
    if ast.dump(ast.parse(src)) == ast.dump(_repo.mod(m["file"]).tree):
        return dict(m, status="noop")
    mrepo = _repo.with_sources({m["file"]: src})
    fired, errors = {}, {}
    for pid in PIDS:
        try:
            res = importlib.import_module("rules." + pid).check(mrepo)
            new = sorted({f.rule for f in res.findings if f.key not in _base[pid]})
            if new:
                fired[pid.upper()] = new
            else:
                low = [rid for rid, r in res.rules.items() if r["instances"] < r["floor"]]
                if low:
                    errors[pid.upper()] = "floor " + ",".join(low)
        except AnalysisError as e:
            errors[pid.upper()] = str(e)[:120]
        except Exception as e:  # checker bug: worth knowing
            errors[pid.upper()] = "CRASH " + repr(e)[:120]
    out = dict(m, fired=fired, errors=errors)
    if fired:
        out["status"] = "caught"
    elif errors:
        out["status"] = "analysis-error"
    else:
        out["status"] = "silent"
        if _scratch:
            p = os.path.join(_scratch, m["file"])
            orig = open(p).read()
            try:
                open(p, "w").write(src)
                env = dict(os.environ, PYTHONPATH=_scratch, PYTHONDONTWRITEBYTECODE="1")
                r = subprocess.run(
                    ["/venv/bin/python", "-m", "pytest", "-x", "-q", "--color=no", "-p", "no:cacheprovider", "--no-header", "--timeout=120", *_deselect, "unyt"],
                    cwd=_scratch, env=env, capture_output=True, text=True, timeout=900,
                )
                out["tests"] = "pass" if r.returncode == 0 else "fail"
                if r.returncode != 0:
                    fl = [l for l in r.stdout.splitlines() if l.startswith(("FAILED", "ERROR"))]
                    out["test_first_failure"] = fl[0][:160] if fl else r.stdout[-160:]
            except subprocess.TimeoutExpired:
                out["tests"] = "timeout"
            finally:
                open(p, "w").write(orig)
            out["status"] = "survived" if out["tests"] == "pass" else "test-killed"
    out["wall"] = round(time.time() - t0, 2)
    return out


def main():
    ap = argparse.ArgumentParser()
    ap.add_argument("--out", required=True)
    ap.add_argument("--jobs", type=int, default=12)
    ap.add_argument("--tests", action="store_true")
    ap.add_argument("--only")
    ap.add_argument("--ops")
    ap.add_argument("--limit", type=int)
    ap.add_argument("--list", action="store_true")
    a = ap.parse_args()
    repo = Repo.from_disk("/repo")
    muts, base = enumerate_mutants(repo, a.only, set(a.ops.split(",")) if a.ops else None)
    if a.limit:
        step = max(1, len(muts) // a.limit)
        muts = muts[::step]
    print(f"mutants: {len(muts)}", flush=True)
    if a.list:
        from collections import Counter

        print(Counter(re.sub(r"\d+$", "", m["op"]) for m in muts))
        return 0
    os.makedirs(a.out, exist_ok=True)
    done = 0
    counts = {}
    with open(os.path.join(a.out, "results.jsonl"), "w", encoding="utf-8") as fh, ProcessPoolExecutor(
        a.jobs, initializer=_init, initargs=(base, a.tests)
    ) as ex:
        for r in ex.map(_job, muts, chunksize=4):
            fh.write(json.dumps(r, ensure_ascii=False) + "\n")
            fh.flush()
            counts[r["status"]] = counts.get(r["status"], 0) + 1
            done += 1
            if done % 200 == 0:
                print(done, counts, flush=True)
    print("done", counts)
    with open(os.path.join(a.out, "summary.json"), "w") as f:
        json.dump(counts, f)
    return 0


if __name__ == "__main__":
    sys.exit(main())
