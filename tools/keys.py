import sys
sys.path.insert(0,'/verif')
from engine.core import Repo
import importlib
pid, rid = sys.argv[1], sys.argv[2]
m = importlib.import_module('rules.'+pid.lower())
repo = Repo.from_disk('/repo')
res = m.check(repo)
for r, v in res.rules.items():
    if r == rid or rid == 'all':
        print(r, len(v['keys']))
        for k in v['keys']: print('   ', k)
