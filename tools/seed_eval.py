#!/venv/bin/python
"""Confirm a seeded breaking change and run the 20 checks against it.

usage: seed_eval.py <patch.diff> <demo.py> [--skip-confirm]

1. confirmation in a scratch worktree under /tmp (removed afterwards):
   demo passes on the clean tree, patch applies, 652 baseline tests still pass,
   demo fails on the patched tree;
2. detection: the patch is applied to /repo (git apply), every check is run in
   quick tier without touching the committed evidence, /repo is restored
   (git checkout -- .) in a finally block.
Prints one JSON object.
"""

import json
import os
import shutil
import subprocess
import sys
import tempfile

VERIF = os.path.dirname(os.path.dirname(os.path.abspath(__file__)))
PY = "/venv/bin/python"


def sh(cmd, cwd=None, timeout=900):
    p = subprocess.run(cmd, cwd=cwd, capture_output=True, text=True, timeout=timeout)
    return p.returncode, p.stdout + p.stderr


def confirm(patch, demo):
    out = {}
    wt = tempfile.mkdtemp(prefix="seval_", dir="/tmp")
    os.rmdir(wt)
    rc, o = sh(["git", "-C", "/repo", "worktree", "add", "-q", "--detach", wt, "HEAD"])
    if rc:
        return {"error": "worktree: " + o}
    try:
        rc, o = sh([PY, demo], cwd=wt)
        out["demo_clean_rc"] = rc
        rc, o = sh(["git", "-C", wt, "apply", patch])
        out["apply_rc"] = rc
        if rc:
            out["apply_err"] = o[-300:]
            return out
        rc, o = sh([PY, os.path.join(VERIF, "tools", "baseline_check.py"), wt])
        out["baseline_rc"] = rc
        out["baseline"] = o.strip().splitlines()[0] if o.strip() else ""
        rc, o = sh([PY, demo], cwd=wt)
        out["demo_patched_rc"] = rc
        out["demo_patched_tail"] = o.strip().splitlines()[-1:] if o.strip() else []
    finally:
        sh(["git", "-C", "/repo", "worktree", "remove", "--force", wt])
        shutil.rmtree(wt, ignore_errors=True)
    out["confirmed"] = out.get("demo_clean_rc") == 0 and out.get("baseline_rc") == 0 and out.get("demo_patched_rc") not in (0, None)
    return out


def detect(patch):
    res = {}
    rc, o = sh(["git", "-C", "/repo", "status", "--porcelain", "--untracked-files=no"])
    if o.strip():
        return {"error": "/repo is not clean"}
    rc, o = sh(["git", "-C", "/repo", "apply", patch])
    if rc:
        return {"error": "apply to /repo failed: " + o[-200:]}
    try:
        for i in range(1, 21):
            pid = f"C{i:02d}"
            rc, o = sh([os.path.join(VERIF, "check"), pid, "--tier", "quick", "--no-evidence"], cwd=VERIF)
            if rc != 0:
                lines = [l.strip() for l in o.splitlines() if l.strip().startswith(("C", "ANALYSIS-ERROR")) and (" unyt/" in l or "ANALYSIS" in l)]
                res[pid] = {"rc": rc, "first": lines[:3]}
    finally:
        sh(["git", "-C", "/repo", "checkout", "--", "."])
        # replay files written by the runs are scratch
        rp = os.path.join(VERIF, "evidence", "replays")
        for f in os.listdir(rp):
            os.remove(os.path.join(rp, f))
    return res


def main():
    patch, demo = os.path.abspath(sys.argv[1]), os.path.abspath(sys.argv[2])
    out = {"patch": patch}
    if "--skip-confirm" not in sys.argv:
        out["confirm"] = confirm(patch, demo)
    out["detected_by"] = detect(patch)
    print(json.dumps(out, indent=1, ensure_ascii=False))


if __name__ == "__main__":
    main()
