#!/venv/bin/python
"""Confirm seeded breaking changes and run the 20 checks against them.

usage:
  seed_eval.py confirm <seed_dir>...      # demo passes clean, patch applies, 652 baseline tests pass, demo fails patched
  seed_eval.py detect  <seed_dir>...      # which checks fire on the patched tree (quick tier)
  seed_eval.py matrix                     # detect over /verif/seeded/*, writes seeded/MATRIX.json and MATRIX.md

A seed dir holds patch.diff, demo.py and (after confirmation) meta.json.
Everything runs in scratch git worktrees of /repo under /tmp which are removed
afterwards; /repo's working tree is never modified.  The checks are pointed at
the scratch tree with --repo and write their replay files to a scratch --outdir,
so the committed evidence is not touched.
"""

import json
import os
import re
import shutil
import subprocess
import sys
import tempfile
from concurrent.futures import ThreadPoolExecutor

VERIF = os.path.dirname(os.path.dirname(os.path.abspath(__file__)))
PY = "/venv/bin/python"
PIDS = [f"C{i:02d}" for i in range(1, 21)]


def sh(cmd, cwd=None, timeout=1800, env=None):
    e = dict(os.environ)
    if env:
        e.update(env)
    p = subprocess.run(cmd, cwd=cwd, capture_output=True, text=True, timeout=timeout, env=e)
    return p.returncode, p.stdout + p.stderr


class Worktree:
    def __enter__(self):
        self.dir = tempfile.mkdtemp(prefix="seval_", dir="/tmp")
        os.rmdir(self.dir)
        rc, o = sh(["git", "-C", "/repo", "worktree", "add", "-q", "--detach", self.dir, os.environ.get("EVAL_BASE", "HEAD")])
        if rc:
            raise RuntimeError("worktree: " + o)
        return self.dir

    def __exit__(self, *a):
        sh(["git", "-C", "/repo", "worktree", "remove", "--force", self.dir])
        shutil.rmtree(self.dir, ignore_errors=True)
        sh(["git", "-C", "/repo", "worktree", "prune"])


def confirm(sdir):
    patch, demo = os.path.join(sdir, "patch.diff"), os.path.join(sdir, "demo.py")
    out = {}
    with Worktree() as wt:
        env = {"PYTHONPATH": wt, "PYTHONDONTWRITEBYTECODE": "1"}
        rc, o = sh([PY, demo], cwd=wt, env=env)
        out["demo_clean_rc"] = rc
        if rc:
            out["demo_clean_tail"] = o.strip().splitlines()[-3:]
        rc, o = sh(["git", "-C", wt, "apply", patch])
        out["apply_rc"] = rc
        if rc:
            out["apply_err"] = o[-300:]
            out["confirmed"] = False
            return out
        rc, o = sh([PY, os.path.join(VERIF, "tools", "baseline_check.py"), wt], env=env)
        out["baseline_rc"] = rc
        out["baseline"] = o.strip().splitlines()[:4] if o.strip() else []
        rc, o = sh([PY, demo], cwd=wt, env=env)
        out["demo_patched_rc"] = rc
        out["demo_patched_tail"] = o.strip().splitlines()[-2:] if o.strip() else []
    out["confirmed"] = (
        out.get("demo_clean_rc") == 0 and out.get("baseline_rc") == 0 and out.get("demo_patched_rc") not in (0, None)
    )
    return out


def detect(sdir, tier="quick"):
    patch = os.path.join(sdir, "patch.diff")
    res = {}
    with Worktree() as wt:
        rc, o = sh(["git", "-C", wt, "apply", patch])
        if rc:
            return {"error": "apply failed: " + o[-200:]}
        outdir = tempfile.mkdtemp(prefix="sevalout_", dir="/tmp")
        try:
            def one(pid):
                return pid, sh(
                    [os.path.join(VERIF, "check"), pid, "--tier", tier, "--no-evidence", "--repo", wt, "--outdir", outdir],
                    cwd=VERIF,
                )

            with ThreadPoolExecutor(8) as ex:
                for pid, (rc, o) in ex.map(one, PIDS):
                    if rc != 0:
                        lines = []
                        for l in o.splitlines():
                            s = l.strip()
                            if re.match(r"C\d\d-R", s) or s.startswith("ANALYSIS-ERROR"):
                                lines.append(s[:260])
                        res[pid] = {"rc": rc, "reports": lines[:4]}
        finally:
            shutil.rmtree(outdir, ignore_errors=True)
    return res


def load_meta(sdir):
    p = os.path.join(sdir, "meta.json")
    if os.path.exists(p):
        with open(p, encoding="utf-8") as f:
            return json.load(f)
    return {}


def main():
    mode = sys.argv[1]
    if mode == "confirm":
        for d in sys.argv[2:]:
            d = os.path.abspath(d)
            print(json.dumps({"seed": d, "confirm": confirm(d)}, indent=1, ensure_ascii=False))
    elif mode == "detect":
        for d in sys.argv[2:]:
            d = os.path.abspath(d)
            print(json.dumps({"seed": d, "detected_by": detect(d)}, indent=1, ensure_ascii=False))
    elif mode == "matrix":
        root = os.path.join(VERIF, "seeded")
        seeds = sorted(x for x in os.listdir(root) if os.path.isdir(os.path.join(root, x)) and not x.startswith("_"))
        with ThreadPoolExecutor(4) as ex:
            dets = list(ex.map(lambda s: detect(os.path.join(root, s)), seeds))
        rows = []
        for s, det in zip(seeds, dets):
            meta = load_meta(os.path.join(root, s))
            target = meta.get("property", s[:3])
            fired = sorted(p for p, v in det.items() if isinstance(v, dict) and v.get("rc") == 1)
            errs = sorted(p for p, v in det.items() if isinstance(v, dict) and v.get("rc") == 2)
            rows.append(
                {
                    "seed": s,
                    "property": target,
                    "what": meta.get("what", ""),
                    "caught_by_own_check": target in fired,
                    "violation_from": fired,
                    "analysis_error_from": errs,
                    "reports": {p: det[p]["reports"][:2] for p in fired + errs},
                }
            )
        with open(os.path.join(root, "MATRIX.json"), "w", encoding="utf-8") as f:
            json.dump(rows, f, indent=1, ensure_ascii=False)
        with open(os.path.join(root, "MATRIX.md"), "w", encoding="utf-8") as f:
            f.write("| seed | breaks | caught by its own check | VIOLATION from | ANALYSIS-ERROR from | change |\n|---|---|---|---|---|---|\n")
            for r in rows:
                f.write(
                    f"| {r['seed']} | {r['property']} | {'yes' if r['caught_by_own_check'] else 'NO'} | "
                    f"{' '.join(r['violation_from']) or '-'} | {' '.join(r['analysis_error_from']) or '-'} | {r['what']} |\n"
                )
        n = len(rows)
        own = sum(r["caught_by_own_check"] for r in rows)
        anyc = sum(bool(r["violation_from"]) for r in rows)
        print(f"seeds={n} caught_by_own_check={own} caught_by_any_check={anyc}")
        for r in rows:
            if not r["caught_by_own_check"]:
                print("  missed:", r["seed"], "fired:", r["violation_from"], "errors:", r["analysis_error_from"])
    else:
        print(__doc__)
        return 2
    return 0


if __name__ == "__main__":
    sys.exit(main())
