#!/venv/bin/python
"""Generate spec/local_roles.json: for every function of the analysed modules, the names of its locals together with
the shapes of their defining statements (engine/roles.py).  The rules are written against these names; the table lets
the engine rename the locals of a later tree back to them when only the spelling changed.

Run after a deliberate change of the reference tree (e.g. a fix: commit in /repo):  tools/gen_local_roles.py [/repo]
"""
import ast
import json
import os
import sys

HERE = os.path.dirname(os.path.abspath(__file__))
VERIF = os.path.dirname(HERE)
sys.path.insert(0, VERIF)
from engine import normal, roles  # noqa: E402
from engine.core import ANCHOR_MODULES, OTHER_MODULES  # noqa: E402


def main():
    root = sys.argv[1] if len(sys.argv) > 1 else "/repo"
    out = {}
    n_f = n_l = 0
    for rel in ANCHOR_MODULES + OTHER_MODULES:
        p = os.path.join(root, rel)
        if not os.path.exists(p):
            continue
        tree = normal.normalise(ast.parse(open(p, encoding="utf-8").read()))
        tab = {}

        def visit(body, prefix):
            global n_f, n_l
            for st in body:
                if isinstance(st, ast.ClassDef):
                    visit(st.body, prefix + st.name + ".")
                elif isinstance(st, (ast.FunctionDef, ast.AsyncFunctionDef)):
                    sh = roles.definition_shapes(st)
                    if sh:
                        tab.setdefault(prefix + st.name, []).append([[k, list(v)] for k, v in sh.items()])
                elif isinstance(st, (ast.If, ast.Try)):
                    for sub in ("body", "orelse", "finalbody"):
                        visit(getattr(st, sub, []) or [], prefix)
                    for h in getattr(st, "handlers", []) or []:
                        visit(h.body, prefix)

        visit(tree.body, "")
        if tab:
            out[rel] = tab
            n_f += sum(len(v) for v in tab.values())
            n_l += sum(len(r) for v in tab.values() for r in v)
    with open(os.path.join(VERIF, "spec", "local_roles.json"), "w", encoding="utf-8") as f:
        json.dump(out, f, indent=0, ensure_ascii=False, sort_keys=True)
    print(f"{n_f} functions, {n_l} locals")


if __name__ == "__main__":
    main()
