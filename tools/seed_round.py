#!/venv/bin/python
"""Compact first-pass detection table for a set of seeds: seed_round.py C19-m C19-n ...  (or a letter suffix: -m -n)"""
import json, os, sys
from concurrent.futures import ThreadPoolExecutor
HERE = os.path.dirname(os.path.abspath(__file__))
sys.path.insert(0, HERE)
import seed_eval
root = os.path.join(os.path.dirname(HERE), "seeded")
args = sys.argv[1:]
seeds = []
for a in args:
    if a.startswith("-"):
        seeds += sorted(x for x in os.listdir(root) if x.endswith(a) and os.path.isdir(os.path.join(root, x)))
    else:
        seeds.append(a)
with ThreadPoolExecutor(3) as ex:
    dets = list(ex.map(lambda s: seed_eval.detect(os.path.join(root, s)), seeds))
for s, d in zip(seeds, dets):
    own = s[:3]
    if "error" in d:
        print(f"{s}: ERROR {d['error']}"); continue
    viol = [p for p, v in d.items() if v["rc"] == 1]
    err = [p for p, v in d.items() if v["rc"] not in (0, 1)]
    print(f"{s}: own={'YES' if own in viol else ('err' if own in err else 'no ')} viol={' '.join(viol) or '-'} err={' '.join(err) or '-'}")
    if own in d:
        for l in d[own]["reports"][:2]:
            print("     ", l[:200])
