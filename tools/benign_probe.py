#!/venv/bin/python
"""Metamorphic robustness probe of the checkers: mechanical, provably behaviour-preserving rewrites.

For every function of the analysed modules and every rewrite kind below, a variant of the tree is built IN MEMORY with
that rewrite applied at every applicable site of that one function.  Each rewrite preserves behaviour for every input
by construction, so every check must stay silent:

  kwargs     keyword arguments of every call sorted in reverse order        f(a, x=1, y=2) -> f(a, y=2, x=1)
  flip-if    if A: X else: Y  ->  if not A: Y else: X        (only `if` statements with a plain else, no elif)
  elif       elif chains written as nested else: if
  swap-eq    operands of == / != / is / is not exchanged when both sides are names, attributes or constants
  temp-ret   return E  ->  _ret_tmp = E; return _ret_tmp     (E not a bare name / constant)
  v-value    x.v -> x.value   and   x.d -> x.ndview     (documented aliases)
  not-none   `x is not None` -> `not x is None`
  tuple-in   `x in (a, b)` <-> `x in [a, b]`
  demorgan   if A and B -> if not (not A or not B)  (and the dual), tests of if / while only
  tail-flip  if C: A(leaves) REST(leaves) -> if not C: REST; A
  swap-independent  adjacent independent call-free assignments exchanged
  extract-temp  x = f(A, ..) -> _arg_tmp = A; x = f(_arg_tmp, ..)  for a call-free first argument A

  FALSE-ALARM     a check reports a finding that is not there on the unchanged tree
  ANALYSIS-ERROR  a check gives up (exit 2)

Nothing is executed and nothing is written to /repo; variants are parsed and analysed only.
usage: benign_probe.py [--kinds kwargs,flip-if] [--pids C01,..] [--files ..] [--funcs a,b] [--jobs 16] [--out FILE]
"""

import argparse
import ast
import copy
import importlib
import json
import os
import sys
import traceback
from concurrent.futures import ProcessPoolExecutor

HERE = os.path.dirname(os.path.abspath(__file__))
VERIF = os.path.dirname(HERE)
sys.path.insert(0, VERIF)

from engine.core import ANCHOR_MODULES, AnalysisError, Repo  # noqa: E402

PIDS = [f"C{i:02d}" for i in range(1, 21)]


class Kwargs(ast.NodeTransformer):
    n = 0

    def visit_Call(self, c):
        self.generic_visit(c)
        named = [k for k in c.keywords if k.arg is not None]
        if len(named) >= 2 and len(named) == len(c.keywords):
            new = sorted(c.keywords, key=lambda k: k.arg, reverse=True)
            if [k.arg for k in new] != [k.arg for k in c.keywords]:
                # evaluation order of the argument expressions changes: only when they are all side-effect free names,
                # attributes, constants or simple subscripts
                if all(_simple(k.value) for k in c.keywords):
                    c.keywords = new
                    self.n += 1
        return c


def _simple(e):
    return all(isinstance(x, (ast.Name, ast.Attribute, ast.Constant, ast.Load, ast.Subscript, ast.Tuple, ast.UnaryOp, ast.USub, ast.Not)) for x in ast.walk(e))


class FlipIf(ast.NodeTransformer):
    n = 0

    def visit_If(self, s):
        self.generic_visit(s)
        if s.orelse and not (len(s.orelse) == 1 and isinstance(s.orelse[0], ast.If)):
            t = s.test
            nt = t.operand if isinstance(t, ast.UnaryOp) and isinstance(t.op, ast.Not) else ast.UnaryOp(op=ast.Not(), operand=t)
            s.test, s.body, s.orelse = nt, s.orelse, s.body
            self.n += 1
        return s


class Elif(ast.NodeTransformer):
    """an elif is already `orelse=[If]`; make the nesting explicit by adding a `pass`-free wrapper is impossible in the
    AST (same tree), so instead turn `else: if B: X` chains the other way: no-op on the AST.  What can differ is a
    trailing else of an elif chain hoisted: if A: return X \n elif B: ... -> if A: return X \n if B: ...   (only when
    the first arm always leaves)"""

    n = 0

    def _leaves(self, body):
        last = body[-1]
        return isinstance(last, (ast.Return, ast.Raise, ast.Continue, ast.Break))

    def visit_body(self, body):
        out = []
        for s in body:
            s = self.visit(s)
            if isinstance(s, ast.If) and s.orelse and self._leaves(s.body) and not isinstance(s, ast.While):
                rest = s.orelse
                s.orelse = []
                out.append(s)
                out.extend(rest)
                self.n += 1
            else:
                out.append(s)
        return out

    def generic_visit(self, node):
        for fld in ("body", "orelse", "finalbody"):
            b = getattr(node, fld, None)
            if isinstance(b, list) and b and isinstance(b[0], ast.stmt):
                setattr(node, fld, self.visit_body(b))
        for h in getattr(node, "handlers", []) or []:
            h.body = self.visit_body(h.body)
        return node

    def visit(self, node):
        return self.generic_visit(node)


class SwapEq(ast.NodeTransformer):
    n = 0

    def visit_Compare(self, c):
        self.generic_visit(c)
        if len(c.ops) == 1 and isinstance(c.ops[0], (ast.Eq, ast.NotEq, ast.Is, ast.IsNot)):
            l, r = c.left, c.comparators[0]
            ok = lambda e: isinstance(e, (ast.Name, ast.Constant)) or (isinstance(e, ast.Attribute) and _simple(e))  # noqa: E731
            if ok(l) and ok(r) and isinstance(c.ops[0], (ast.Is, ast.IsNot)):
                # identity is symmetric for every pair of objects; == may dispatch to a different __eq__
                c.left, c.comparators = r, [l]
                self.n += 1
        return c


class TempRet(ast.NodeTransformer):
    n = 0

    def _body(self, body):
        out = []
        for s in body:
            s = self.visit(s)
            if isinstance(s, ast.Return) and s.value is not None and not isinstance(s.value, (ast.Name, ast.Constant)):
                out.append(ast.Assign(targets=[ast.Name(id="_ret_tmp", ctx=ast.Store())], value=s.value, lineno=s.lineno))
                out.append(ast.Return(value=ast.Name(id="_ret_tmp", ctx=ast.Load())))
                self.n += 1
            else:
                out.append(s)
        return out

    def generic_visit(self, node):
        if isinstance(node, (ast.FunctionDef, ast.Lambda, ast.ClassDef)) and getattr(self, "_inside", False):
            return node
        for fld in ("body", "orelse", "finalbody"):
            b = getattr(node, fld, None)
            if isinstance(b, list) and b and isinstance(b[0], ast.stmt):
                self._inside = True
                setattr(node, fld, self._body(b))
        for h in getattr(node, "handlers", []) or []:
            h.body = self._body(h.body)
        return node

    def visit(self, node):
        return self.generic_visit(node)


class VValue(ast.NodeTransformer):
    n = 0

    def visit_Attribute(self, a):
        self.generic_visit(a)
        if isinstance(a.ctx, ast.Load) and a.attr == "v":
            a.attr = "value"
            self.n += 1
        elif isinstance(a.ctx, ast.Load) and a.attr == "d":
            a.attr = "ndview"
            self.n += 1
        return a


class NotNone(ast.NodeTransformer):
    n = 0

    def visit_Compare(self, c):
        self.generic_visit(c)
        if len(c.ops) == 1 and isinstance(c.ops[0], ast.IsNot) and isinstance(c.comparators[0], ast.Constant) and c.comparators[0].value is None:
            self.n += 1
            return ast.UnaryOp(op=ast.Not(), operand=ast.Compare(left=c.left, ops=[ast.Is()], comparators=c.comparators))
        return c


class TupleIn(ast.NodeTransformer):
    n = 0

    def visit_Compare(self, c):
        self.generic_visit(c)
        if len(c.ops) == 1 and isinstance(c.ops[0], (ast.In, ast.NotIn)):
            r = c.comparators[0]
            if isinstance(r, ast.Tuple) and r.elts:
                c.comparators = [ast.List(elts=r.elts, ctx=ast.Load())]
                self.n += 1
            elif isinstance(r, ast.List) and r.elts:
                c.comparators = [ast.Tuple(elts=r.elts, ctx=ast.Load())]
                self.n += 1
        return c


def _neg(e):
    """exact logical negation of a test expression"""
    if isinstance(e, ast.UnaryOp) and isinstance(e.op, ast.Not):
        return e.operand
    if isinstance(e, ast.Compare) and len(e.ops) == 1 and type(e.ops[0]) in (ast.Is, ast.IsNot, ast.In, ast.NotIn):
        f = {ast.Is: ast.IsNot, ast.IsNot: ast.Is, ast.In: ast.NotIn, ast.NotIn: ast.In}[type(e.ops[0])]
        return ast.Compare(left=e.left, ops=[f()], comparators=e.comparators)
    return ast.UnaryOp(op=ast.Not(), operand=e)


class DeMorgan(ast.NodeTransformer):
    """if A and B: -> if not (not A or not B):     if A or B: -> if not (not A and not B):   (tests of if / while only)"""

    n = 0

    def _rewrite(self, t):
        if isinstance(t, ast.BoolOp):
            other = ast.Or() if isinstance(t.op, ast.And) else ast.And()
            self.n += 1
            return ast.UnaryOp(op=ast.Not(), operand=ast.BoolOp(op=other, values=[_neg(v) for v in t.values]))
        return t

    def visit_If(self, s):
        self.generic_visit(s)
        s.test = self._rewrite(s.test)
        return s

    def visit_While(self, s):
        self.generic_visit(s)
        s.test = self._rewrite(s.test)
        return s


class ExtractTemp(ast.NodeTransformer):
    """x = f(A, ...)  ->  _arg_tmp = A; x = f(_arg_tmp, ...)   for the first positional argument A of a call on the
    right-hand side of a simple assignment, when the callee expression and A are free of calls (so nothing observable is
    reordered) and A is not a bare name / constant"""

    n = 0

    def _body(self, body):
        out = []
        for s in body:
            s = self.generic_visit(s)
            if isinstance(s, ast.Assign) and isinstance(s.value, ast.Call) and s.value.args and not isinstance(s.value.args[0], (ast.Name, ast.Constant, ast.Starred)):
                a = s.value.args[0]
                if _simple(a) and _simple(s.value.func) and not any(isinstance(x, ast.Name) and x.id == "_arg_tmp" for x in ast.walk(s)):
                    nm = f"_arg_tmp{self.n}"
                    out.append(ast.Assign(targets=[ast.Name(id=nm, ctx=ast.Store())], value=a, lineno=s.lineno))
                    s.value.args[0] = ast.Name(id=nm, ctx=ast.Load())
                    self.n += 1
            out.append(s)
        return out

    def generic_visit(self, node):
        if isinstance(node, (ast.FunctionDef, ast.Lambda, ast.ClassDef)) and getattr(self, "_inside", False):
            return node
        for fld in ("body", "orelse", "finalbody"):
            b = getattr(node, fld, None)
            if isinstance(b, list) and b and isinstance(b[0], ast.stmt):
                self._inside = True
                setattr(node, fld, self._body(b))
        for h in getattr(node, "handlers", []) or []:
            h.body = self._body(h.body)
        return node

    def visit(self, node):
        return self.generic_visit(node)


def _leaves(body):
    return bool(body) and isinstance(body[-1], (ast.Return, ast.Raise))


class TailFlip(ast.NodeTransformer):
    """if C: A(leaves)  REST(leaves)   ->   if not C: REST  A        (function-body level and nested blocks whose
    remainder ends the block with return / raise)"""

    n = 0

    def _body(self, body):
        body = [self.generic_visit(s) for s in body]
        for i, s_ in enumerate(body):
            if isinstance(s_, ast.If) and not s_.orelse and _leaves(s_.body) and i + 1 < len(body) and _leaves(body[i + 1:]):
                rest = body[i + 1:]
                new_if = ast.If(test=_neg(s_.test), body=rest, orelse=[])
                ast.copy_location(new_if, s_)
                self.n += 1
                return body[:i] + [new_if] + s_.body
        return body

    def generic_visit(self, node):
        if isinstance(node, (ast.FunctionDef, ast.Lambda, ast.ClassDef)) and getattr(self, "_inside", False):
            return node
        for fld in ("body", "orelse", "finalbody"):
            b = getattr(node, fld, None)
            if isinstance(b, list) and b and isinstance(b[0], ast.stmt):
                self._inside = True
                setattr(node, fld, self._body(b))
        for h in getattr(node, "handlers", []) or []:
            h.body = self._body(h.body)
        return node

    def visit(self, node):
        return self.generic_visit(node)


class SwapIndependent(ast.NodeTransformer):
    """two adjacent simple assignments `a = E1; b = E2` with call-free right-hand sides, different plain-name targets and
    no data dependence between them are exchanged"""

    n = 0

    def _body(self, body):
        body = [self.generic_visit(s) for s in body]
        i = 0
        out = list(body)
        while i + 1 < len(out):
            a, b = out[i], out[i + 1]
            if all(isinstance(x, ast.Assign) and len(x.targets) == 1 and isinstance(x.targets[0], ast.Name) and _simple(x.value) for x in (a, b)):
                ta, tb = a.targets[0].id, b.targets[0].id
                na = {x.id for x in ast.walk(a.value) if isinstance(x, ast.Name)}
                nb = {x.id for x in ast.walk(b.value) if isinstance(x, ast.Name)}
                if ta != tb and ta not in nb and tb not in na:
                    out[i], out[i + 1] = b, a
                    self.n += 1
                    i += 2
                    continue
            i += 1
        return out

    generic_visit = TailFlip.generic_visit
    visit = TailFlip.visit


KINDS = {"tail-flip": TailFlip, "swap-independent": SwapIndependent, "demorgan": DeMorgan, "extract-temp": ExtractTemp, "kwargs": Kwargs, "flip-if": FlipIf, "elif": Elif, "swap-is": SwapEq, "temp-ret": TempRet, "v-value": VValue, "not-none": NotNone, "tuple-in": TupleIn}


def functions(tree):
    out = []

    def visit(body, prefix):
        for st in body:
            if isinstance(st, ast.ClassDef):
                visit(st.body, prefix + st.name + ".")
            elif isinstance(st, (ast.FunctionDef, ast.AsyncFunctionDef)):
                out.append((prefix + st.name, st))
            elif isinstance(st, (ast.If, ast.Try)):
                for sub in ("body", "orelse", "finalbody"):
                    visit(getattr(st, sub, []) or [], prefix)
                for h in getattr(st, "handlers", []) or []:
                    visit(h.body, prefix)

    visit(tree.body, "")
    return out


def apply_variant(src, qual, lineno, kind):
    tree = ast.parse(src)
    for q, fn in functions(tree):
        if q == qual and fn.lineno == lineno:
            t = KINDS[kind]()
            if kind in ("elif", "temp-ret", "extract-temp", "tail-flip", "swap-independent"):
                t.generic_visit(fn)
            else:
                for i, st in enumerate(fn.body):
                    fn.body[i] = t.visit(st)
            if t.n == 0:
                return None
            ast.fix_missing_locations(tree)
            return ast.unparse(tree)
    return None


_BASE = {}


def _run_rules(pid, repo):
    mod = importlib.import_module(f"rules.{pid.lower()}")
    res = mod.check(repo)
    errs = [rid for rid, r in res.rules.items() if r["instances"] < r["floor"]]
    return res, errs


def _job(args):
    root, rel, qual, lineno, kind, pids = args
    sys.path.insert(0, VERIF)
    try:
        repo = Repo.from_disk(root)
        if root not in _BASE:
            b = {}
            for pid in pids:
                try:
                    res, errs = _run_rules(pid, repo)
                    b[pid] = ({f.key for f in res.findings}, bool(errs))
                except AnalysisError:
                    b[pid] = (None, True)
            _BASE[root] = b
        base = _BASE[root]
        new_src = apply_variant(repo.sources[rel], qual, lineno, kind)
        if new_src is None:
            return (rel, qual, kind, "n/a", {})
        vrepo = repo.with_sources({rel: new_src})
        bad = {}
        for pid in pids:
            if base[pid][0] is None:
                continue
            try:
                res, errs = _run_rules(pid, vrepo)
            except AnalysisError as e:
                bad[pid] = ("ANALYSIS-ERROR", str(e)[:220])
                continue
            except Exception:
                bad[pid] = ("CRASH", traceback.format_exc()[-300:])
                continue
            newf = [f for f in res.findings if f.key not in base[pid][0]]
            if newf:
                bad[pid] = ("FALSE-ALARM", [f"{f.rule} {f.key} :: {f.msg[:120]}" for f in newf[:2]])
            elif errs and not base[pid][1]:
                bad[pid] = ("ANALYSIS-ERROR", f"floor of {errs}")
        return (rel, qual, kind, "ok" if not bad else "bad", bad)
    except Exception:
        return (rel, qual, kind, "crash", {"*": ("CRASH", traceback.format_exc()[-400:])})


def main():
    ap = argparse.ArgumentParser()
    ap.add_argument("--pids", default=",".join(PIDS))
    ap.add_argument("--files", default=",".join(ANCHOR_MODULES))
    ap.add_argument("--kinds", default=",".join(KINDS))
    ap.add_argument("--funcs", default="")
    ap.add_argument("--jobs", type=int, default=16)
    ap.add_argument("--repo", default="/repo")
    ap.add_argument("--out", default="")
    a = ap.parse_args()
    pids = a.pids.split(",")
    repo = Repo.from_disk(a.repo)
    files = [f for f in a.files.split(",") if f in repo.sources]
    only = set(a.funcs.split(",")) if a.funcs else None
    jobs = []
    for rel in files:
        for q, fn in functions(ast.parse(repo.sources[rel])):
            if only and q not in only:
                continue
            for kind in a.kinds.split(","):
                # cheap pre-filter: is the rewrite applicable at all?
                if apply_variant(repo.sources[rel], q, fn.lineno, kind) is not None:
                    jobs.append((a.repo, rel, q, fn.lineno, kind, pids))
    print(f"{len(jobs)} variants over {len(files)} modules, {len(pids)} checks each")
    with ProcessPoolExecutor(max_workers=a.jobs) as ex:
        rows = list(ex.map(_job, jobs, chunksize=4))
    fa = [(r, p, d) for r in rows for p, d in r[4].items() if d[0] == "FALSE-ALARM"]
    ae = [(r, p, d) for r in rows for p, d in r[4].items() if d[0] in ("ANALYSIS-ERROR", "CRASH")]
    print(f"variants={len(rows)} silent={sum(1 for r in rows if r[3] == 'ok')} false_alarms={len(fa)} analysis_errors={len(ae)}")
    for r, p, d in fa:
        print(f"FALSE-ALARM {p} {r[2]} {r[0]}:{r[1]} :: {d[1]}")
    for r, p, d in ae:
        print(f"{d[0]} {p} {r[2]} {r[0]}:{r[1]} :: {d[1]}")
    if a.out:
        with open(a.out, "w", encoding="utf-8") as f:
            json.dump([{"file": r[0], "function": r[1], "kind": r[2], "status": r[3], "reports": r[4]} for r in rows], f, indent=1, ensure_ascii=False)
    return 1 if fa or ae else 0


if __name__ == "__main__":
    sys.exit(main())
