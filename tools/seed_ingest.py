#!/venv/bin/python
"""Ingest sub-agent seeds: /tmp/seedout/<PID>/<x>/{patch.diff,demo.py,notes.md} -> /verif/seeded/<PID>-<x>/ .

Each seed is re-confirmed here (never trusted from the agent's report): the demo exits 0 on a clean scratch worktree of
/repo HEAD, the patch applies, the 652 pinned stable-pass tests still pass with it, the demo exits non-zero with it.
Only confirmed seeds are kept; meta.json records what was run.  usage: seed_ingest.py C06 C12 ...   (or 'all')
"""
import json, os, shutil, subprocess, sys
HERE = os.path.dirname(os.path.abspath(__file__))
VERIF = os.path.dirname(HERE)
sys.path.insert(0, HERE)
import seed_eval  # noqa: E402

SRC = os.environ.get("SEED_SRC", "/tmp/seedout")
# round 2 delivers a/ and b/ again: SEED_RENAME="a=c,b=d" files them as <PID>-c, <PID>-d
RENAME = dict(kv.split("=") for kv in os.environ.get("SEED_RENAME", "").split(",") if kv)


def main():
    pids = sys.argv[1:]
    if pids == ["all"]:
        pids = sorted(d for d in os.listdir(SRC) if os.path.isdir(os.path.join(SRC, d)) and d[0] == "C" and len(d) == 3)
    head = subprocess.run(["git", "-C", "/repo", "rev-parse", "--short", "HEAD"], capture_output=True, text=True).stdout.strip()
    for pid in pids:
        for x in sorted(os.listdir(os.path.join(SRC, pid))):
            d = os.path.join(SRC, pid, x)
            if not (os.path.isdir(d) and os.path.exists(os.path.join(d, "patch.diff")) and os.path.exists(os.path.join(d, "demo.py"))):
                continue
            dst = os.path.join(VERIF, "seeded", f"{pid}-{RENAME.get(x, x)}")
            if os.path.exists(os.path.join(dst, "meta.json")):
                continue
            os.makedirs(dst, exist_ok=True)
            for f in ("patch.diff", "demo.py", "notes.md"):
                if os.path.exists(os.path.join(d, f)):
                    shutil.copy(os.path.join(d, f), os.path.join(dst, f))
            c = seed_eval.confirm(dst)
            if not c.get("confirmed"):
                print(f"{pid}-{x}: NOT CONFIRMED {json.dumps(c)[:600]}")
                shutil.rmtree(dst)
                continue
            notes = open(os.path.join(dst, "notes.md"), encoding="utf-8").read() if os.path.exists(os.path.join(dst, "notes.md")) else ""
            files = sorted({l[6:].strip() for l in open(os.path.join(dst, "patch.diff"), encoding="utf-8") if l.startswith("+++ b/")})
            meta = {
                "property": pid,
                "origin": "independent sub-agent given only the property text and a scratch worktree",
                "files_touched": files,
                "what": "",
                "needs_to_manifest": "",
                "repo_head": head,
                "ran": [
                    "scratch worktree of /repo HEAD: demo.py exits 0",
                    "git apply patch.diff; tools/baseline_check.py <worktree>: all 652 pinned stable-pass tests pass",
                    "demo.py on the patched worktree exits non-zero",
                ],
                "confirm": c,
            }
            with open(os.path.join(dst, "meta.json"), "w", encoding="utf-8") as f:
                json.dump(meta, f, indent=1, ensure_ascii=False)
            print(f"{pid}-{x}: confirmed")


if __name__ == "__main__":
    main()
