#!/bin/bash
# usage: try_diff.sh <diff> <PID>... : apply the diff to a scratch worktree of /repo HEAD and run the given checks on it
d=$(realpath "$1"); shift
W=$(mktemp -d /tmp/try.XXXX); rmdir $W
git -C /repo worktree add -q --detach $W HEAD
git -C $W apply "$d" || { echo APPLY-FAILED; git -C /repo worktree remove --force $W; exit 3; }
for p in "$@"; do
  /verif/check $p --tier quick --no-evidence --repo $W --outdir /tmp/try_out 2>&1 | grep -v "obligations discharged" | grep -v "^KNOWN" | head -${LINES_MAX:-14}
done
git -C /repo worktree remove --force $W
