#!/venv/bin/python
"""Run the pinned baseline suite in a repo dir (default /repo) and report which of the 652 stable-pass tests no longer pass."""
import json, subprocess, sys, tempfile, os, xml.etree.ElementTree as ET
repo = sys.argv[1] if len(sys.argv) > 1 else "/repo"
base = json.load(open("/root/.vp/BASELINE.json"))
want = set(base["stable_pass"])
with tempfile.TemporaryDirectory() as d:
    x = os.path.join(d, "j.xml")
    subprocess.run(["/venv/bin/python", "-m", "pytest", "-ra", "-q", "-p", "no:cacheprovider", "--timeout=900",
                    "--continue-on-collection-errors", f"--junitxml={x}"], cwd=repo, stdout=subprocess.DEVNULL, stderr=subprocess.DEVNULL)
    passed = set()
    for tc in ET.parse(x).getroot().iter("testcase"):
        if not any(c.tag in ("failure", "error", "skipped") for c in tc):
            passed.add(f"{tc.get('classname')}::{tc.get('name')}")
miss = sorted(want - passed)
print(f"stable_pass={len(want)} passed_now={len(passed)} missing={len(miss)}")
for m in miss[:40]: print("  MISSING", m)
sys.exit(1 if miss else 0)
