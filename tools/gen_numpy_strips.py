#!/venv/bin/python
"""Generate spec/numpy_strips.json: for every NumPy function unyt registers a handler for, the positional parameters of
its Python implementation and those of them that the implementation converts to a base ndarray before any other use
(first statement mentioning the parameter is `p = asarray(p, ...)`).  Read from NumPy's own source with ast (nothing is
called).  C07-R10 uses it to decide whether a unit-carrying operand handed to X._implementation can come back with
units on it.  Functions without Python source (C implementations) get no "stripped" entry.
Re-run when the environment's NumPy changes."""
import ast
import inspect
import json
import os
import sys
import textwrap

HERE = os.path.dirname(os.path.abspath(__file__))
VERIF = os.path.dirname(HERE)
sys.path.insert(0, VERIF)
import numpy as np  # noqa: E402

from engine.core import Repo  # noqa: E402
from rules.handlers import inventory  # noqa: E402


def resolve(t):
    obj = np
    for part in t.split(".")[1:]:
        obj = getattr(obj, part, None)
        if obj is None:
            return None
    return obj


def stripped_params(fn_node):
    a = fn_node.args
    params = [x.arg for x in a.posonlyargs + a.args]
    body = fn_node.body
    if body and isinstance(body[0], ast.Expr) and isinstance(getattr(body[0], "value", None), ast.Constant):
        body = body[1:]
    out = []
    for p in params:
        for st in body:
            if not any(isinstance(n, ast.Name) and n.id == p for n in ast.walk(st)):
                continue
            # first statement that mentions p
            if isinstance(st, ast.Assign) and len(st.targets) == 1 and isinstance(st.targets[0], ast.Name) and st.targets[0].id == p:
                v = st.value
                if isinstance(v, ast.Call) and ast.unparse(v.func) in ("asarray", "np.asarray", "_nx.asarray") and v.args and isinstance(v.args[0], ast.Name) and v.args[0].id == p:
                    out.append(p)
            break
    return params, out, a.vararg.arg if a.vararg else None


def main():
    repo = Repo.from_disk(sys.argv[1] if len(sys.argv) > 1 else "/repo")
    table = {}
    for h in inventory(repo):
        for t in h.targets:
            f = resolve(t)
            impl = getattr(f, "_implementation", None)
            if impl is None:
                continue
            try:
                src = textwrap.dedent(inspect.getsource(impl))
                node = ast.parse(src).body[0]
            except (TypeError, OSError, SyntaxError, IndexError):
                table[t] = {"source": False}
                continue
            if not isinstance(node, ast.FunctionDef):
                table[t] = {"source": False}
                continue
            params, st, var = stripped_params(node)
            table[t] = {"source": True, "params": params, "vararg": var, "stripped": st}
    with open(os.path.join(VERIF, "spec", "numpy_strips.json"), "w", encoding="utf-8") as f:
        json.dump({"numpy_version": np.__version__, "functions": table}, f, indent=0, sort_keys=True)
    n = sum(1 for v in table.values() if v.get("stripped"))
    print(f"{len(table)} functions ({n} strip at least one parameter first), numpy {np.__version__}")


if __name__ == "__main__":
    main()
