#!/venv/bin/python
"""Metamorphic robustness probe of the checkers: behaviour-preserving *local renames*.

For every function of the analysed modules and every local variable of it (a name that is assigned in the function,
is not a parameter, is not declared global/nonlocal and does not collide with any other name visible in the function),
a variant of the tree is built IN MEMORY in which that one local is renamed.  Renaming a local can never change
behaviour, so every check must stay silent on every variant:

  FALSE-ALARM     a check reports a finding that is not there on the unchanged tree   (a rule matches local names as text)
  ANALYSIS-ERROR  a check gives up (exit 2)                                           (an anchor is located by a local's name)

Nothing is executed and nothing is written to /repo; variants are parsed and analysed only.

usage: rename_probe.py [--pids C01,C02] [--files unyt/array.py,...] [--jobs 16] [--out FILE] [--funcs a,b]
"""

import argparse
import ast
import builtins
import importlib
import json
import os
import sys
import traceback
from concurrent.futures import ProcessPoolExecutor

HERE = os.path.dirname(os.path.abspath(__file__))
VERIF = os.path.dirname(HERE)
sys.path.insert(0, VERIF)

from engine.core import ANCHOR_MODULES, AnalysisError, Repo  # noqa: E402

PIDS = [f"C{i:02d}" for i in range(1, 21)]


def _run_rules(pid, repo):
    mod = importlib.import_module(f"rules.{pid.lower()}")
    res = mod.check(repo)
    errs = [rid for rid, r in res.rules.items() if r["instances"] < r["floor"]]
    return res, errs


def locals_of(fn: ast.AST):
    """renamable locals of a function: assigned (Store) directly in its body or in comprehensions/withs/fors of it,
    never a parameter, never global/nonlocal, never used by a nested def/lambda/class (closures keep their names)"""
    params = {a.arg for a in fn.args.posonlyargs + fn.args.args + fn.args.kwonlyargs}
    if fn.args.vararg:
        params.add(fn.args.vararg.arg)
    if fn.args.kwarg:
        params.add(fn.args.kwarg.arg)
    stored, banned = set(), set()

    def walk(n, top):
        for c in ast.iter_child_nodes(n):
            if isinstance(c, (ast.FunctionDef, ast.AsyncFunctionDef, ast.Lambda, ast.ClassDef)):
                for x in ast.walk(c):
                    if isinstance(x, ast.Name):
                        banned.add(x.id)
                    elif isinstance(x, ast.arg):
                        banned.add(x.arg)
                if isinstance(c, (ast.FunctionDef, ast.ClassDef)):
                    banned.add(c.name)
                continue
            if isinstance(c, (ast.Global, ast.Nonlocal)):
                banned.update(c.names)
            if isinstance(c, ast.Name) and isinstance(c.ctx, (ast.Store, ast.Del)):
                stored.add(c.id)
            if isinstance(c, (ast.Import, ast.ImportFrom)):
                for a in c.names:
                    banned.add((a.asname or a.name).split(".")[0])
            if isinstance(c, ast.ExceptHandler) and c.name:
                banned.add(c.name)
            walk(c, False)

    walk(fn, True)
    # a call of locals()/vars()/eval would see the names
    for x in ast.walk(fn):
        if isinstance(x, ast.Call) and isinstance(x.func, ast.Name) and x.func.id in ("locals", "vars", "eval", "exec"):
            return []
    return sorted(n for n in stored - params - banned if not n.startswith("__"))


class _Ren(ast.NodeTransformer):
    def __init__(self, old, new):
        self.old, self.new = old, new

    def visit_Name(self, n):
        if n.id == self.old:
            n.id = self.new
        return n


def variants(src_by_file, files, only_funcs=None):
    """(file, qualname, old, new) for every renamable local"""
    out = []
    for rel in files:
        tree = ast.parse(src_by_file[rel])
        module_names = {n.id for n in ast.walk(tree) if isinstance(n, ast.Name)} | set(dir(builtins))

        def visit(body, prefix):
            for st in body:
                if isinstance(st, ast.ClassDef):
                    visit(st.body, prefix + st.name + ".")
                elif isinstance(st, (ast.FunctionDef, ast.AsyncFunctionDef)):
                    q = prefix + st.name
                    if only_funcs and q not in only_funcs:
                        continue
                    for loc in locals_of(st):
                        new = loc + "_rn"
                        if new in module_names:
                            new = loc + "_rn9"
                        out.append((rel, q, st.lineno, loc, new))

        visit(tree.body, "")
    return out


def apply_variant(src, qual, lineno, old, new):
    tree = ast.parse(src)

    def find(body, prefix):
        for st in body:
            if isinstance(st, ast.ClassDef):
                r = find(st.body, prefix + st.name + ".")
                if r is not None:
                    return r
            elif isinstance(st, (ast.FunctionDef, ast.AsyncFunctionDef)) and prefix + st.name == qual and st.lineno == lineno:
                return st
        return None

    fn = find(tree.body, "")
    if fn is None:
        return None
    # rename inside the function but not inside nested defs (locals_of made sure they do not mention the name)
    _Ren(old, new).visit(fn)
    return ast.unparse(tree)


_BASE = {}


def _job(args):
    root, rel, qual, lineno, old, new, pids = args
    sys.path.insert(0, VERIF)
    try:
        repo = Repo.from_disk(root)
        # baseline on the *unparsed* clean tree would be the fair comparison for line-keyed findings; findings are
        # keyed by rule and construct, so the baseline of the tree as it is on disk is used
        if root not in _BASE:
            b = {}
            for pid in pids:
                try:
                    res, errs = _run_rules(pid, repo)
                    b[pid] = ({f.key for f in res.findings}, bool(errs))
                except AnalysisError:
                    b[pid] = (None, True)
            _BASE[root] = b
        base = _BASE[root]
        new_src = apply_variant(repo.sources[rel], qual, lineno, old, new)
        if new_src is None:
            return (rel, qual, old, "stale", {})
        vrepo = repo.with_sources({rel: new_src})
        bad = {}
        for pid in pids:
            if base[pid][0] is None:
                continue
            try:
                res, errs = _run_rules(pid, vrepo)
            except AnalysisError as e:
                bad[pid] = ("ANALYSIS-ERROR", str(e)[:200])
                continue
            except Exception:
                bad[pid] = ("CRASH", traceback.format_exc()[-300:])
                continue
            newf = [f for f in res.findings if f.key not in base[pid][0]]
            if newf:
                bad[pid] = ("FALSE-ALARM", [f"{f.rule} {f.key} :: {f.msg[:120]}" for f in newf[:2]])
            elif errs and not base[pid][1]:
                bad[pid] = ("ANALYSIS-ERROR", f"floor of {errs}")
        return (rel, qual, old, "ok" if not bad else "bad", bad)
    except Exception:
        return (rel, qual, old, "crash", {"*": ("CRASH", traceback.format_exc()[-400:])})


def main():
    ap = argparse.ArgumentParser()
    ap.add_argument("--pids", default=",".join(PIDS))
    ap.add_argument("--files", default=",".join(ANCHOR_MODULES))
    ap.add_argument("--funcs", default="")
    ap.add_argument("--jobs", type=int, default=16)
    ap.add_argument("--repo", default="/repo")
    ap.add_argument("--out", default="")
    a = ap.parse_args()
    pids = a.pids.split(",")
    files = [f for f in a.files.split(",") if f]
    repo = Repo.from_disk(a.repo)
    files = [f for f in files if f in repo.sources]
    vs = variants(repo.sources, files, set(a.funcs.split(",")) if a.funcs else None)
    print(f"{len(vs)} local renames over {len(files)} modules, {len(pids)} checks each")
    jobs = [(a.repo, rel, q, ln, old, new, pids) for rel, q, ln, old, new in vs]
    rows = []
    with ProcessPoolExecutor(max_workers=a.jobs) as ex:
        for r in ex.map(_job, jobs, chunksize=4):
            rows.append(r)
    fa = [(r, p, d) for r in rows for p, d in r[4].items() if d[0] == "FALSE-ALARM"]
    ae = [(r, p, d) for r in rows for p, d in r[4].items() if d[0] in ("ANALYSIS-ERROR", "CRASH")]
    print(f"variants={len(rows)} silent={sum(1 for r in rows if r[3] == 'ok')} false_alarms={len(fa)} analysis_errors={len(ae)} stale={sum(1 for r in rows if r[3] == 'stale')}")
    for r, p, d in fa:
        print(f"FALSE-ALARM {p} {r[0]}:{r[1]} rename {r[2]} :: {d[1]}")
    for r, p, d in ae:
        print(f"{d[0]} {p} {r[0]}:{r[1]} rename {r[2]} :: {d[1]}")
    if a.out:
        with open(a.out, "w", encoding="utf-8") as f:
            json.dump([{"file": r[0], "function": r[1], "local": r[2], "status": r[3], "reports": r[4]} for r in rows], f, indent=1, ensure_ascii=False)
    return 1 if fa or ae else 0


if __name__ == "__main__":
    sys.exit(main())
