"""Abstract domains shared by the rules: formal monomials (units-of-measure
types) with rational or symbolic exponents."""

from __future__ import annotations

from fractions import Fraction


class SymExp:
    """exponent  q * <text>  with q rational and <text> a normalised source
    expression (e.g. ``a.shape[-1]``)"""

    __slots__ = ("text", "q")

    def __init__(self, text, q=1):
        self.text = text
        self.q = Fraction(q)

    def __eq__(self, o):
        return isinstance(o, SymExp) and (self.text, self.q) == (o.text, o.q)

    def __hash__(self):
        return hash((self.text, self.q))

    def __repr__(self):
        return f"{self.text}" if self.q == 1 else f"{self.q}*({self.text})"


def _addexp(a, b):
    if isinstance(a, SymExp) or isinstance(b, SymExp):
        if isinstance(a, SymExp) and isinstance(b, SymExp) and a.text == b.text:
            q = a.q + b.q
            return SymExp(a.text, q) if q else Fraction(0)
        return None  # not representable
    return a + b


def _mulexp(a, p):
    if isinstance(p, SymExp):
        if isinstance(a, SymExp):
            return None
        return SymExp(p.text, p.q * a)
    if isinstance(a, SymExp):
        return SymExp(a.text, a.q * p)
    return a * p


class Mono:
    """coeff * prod(atom ** exp).  ``None`` exponent arithmetic results make
    the monomial OPAQUE (atoms = None)."""

    __slots__ = ("c", "atoms")

    def __init__(self, c=1.0, atoms=None):
        self.c = c
        self.atoms = (
            None if atoms is None else {k: v for k, v in atoms.items() if v != 0}
        )

    @classmethod
    def atom(cls, name, exp=1):
        return cls(1.0, {name: Fraction(exp) if not isinstance(exp, SymExp) else exp})

    @classmethod
    def num(cls, c):
        return cls(float(c), {})

    @classmethod
    def opaque(cls):
        m = cls()
        m.atoms = None
        return m

    @property
    def is_opaque(self):
        return self.atoms is None

    def __mul__(self, o):
        if self.is_opaque or o.is_opaque:
            return Mono.opaque()
        d = dict(self.atoms)
        for k, v in o.atoms.items():
            if k in d:
                s = _addexp(d[k], v)
                if s is None:
                    return Mono.opaque()
                d[k] = s
            else:
                d[k] = v
        return Mono(self.c * o.c, d)

    def __truediv__(self, o):
        return self * (o ** -1)

    def __pow__(self, p):
        if self.is_opaque:
            return Mono.opaque()
        if isinstance(p, SymExp):
            if self.c != 1.0:
                return Mono.opaque()
            d = {}
            for k, v in self.atoms.items():
                e = _mulexp(v, p)
                if e is None:
                    return Mono.opaque()
                d[k] = e
            return Mono(1.0, d)
        p = Fraction(p).limit_denominator(10000) if not isinstance(p, Fraction) else p
        d = {}
        for k, v in self.atoms.items():
            d[k] = _mulexp(v, p)
        c = self.c ** float(p) if self.c != 1.0 else 1.0
        return Mono(c, d)

    def subst(self, atom, m: "Mono"):
        """replace ``atom`` by monomial m"""
        if self.is_opaque:
            return self
        e = self.atoms.get(atom)
        if e is None:
            return self
        rest = Mono(self.c, {k: v for k, v in self.atoms.items() if k != atom})
        return rest * (m ** e)

    def same(self, o, tol=1e-12):
        if self.is_opaque or o.is_opaque:
            return False
        if self.atoms != o.atoms:
            return False
        a, b = self.c, o.c
        return abs(a - b) <= tol * max(abs(a), abs(b), 1e-300)

    def same_atoms(self, o):
        return (not self.is_opaque) and (not o.is_opaque) and self.atoms == o.atoms

    def __repr__(self):
        if self.is_opaque:
            return "<opaque>"
        parts = []
        if self.c != 1.0 or not self.atoms:
            parts.append(repr(self.c))
        for k, v in sorted(self.atoms.items(), key=lambda kv: str(kv[0])):
            parts.append(f"{k}" if v == 1 else f"{k}^({v})")
        return " * ".join(parts)
