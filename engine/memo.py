"""Memo-layer analysis: where does the package keep state that outlives a call, who writes it, and does
the key under which a value is remembered cover everything the value depends on?

Three kinds of layer are recognised from the source:

* functions decorated with functools.lru_cache / cache (key = all arguments, by hash and equality);
* attributes of long-lived objects that hold a container (``registry._unit_object_cache``) - every write,
  in any module, is listed with its kind;
* module-level containers written from inside a function body (call-time writes), e.g. a dict used as a
  hand-rolled memo.

Nothing here is executed; all facts come from the AST.
"""

from __future__ import annotations

import ast
from dataclasses import dataclass, field

from .core import FuncInfo, Mod, Repo, norm

MUTATING_METHODS = {
    "update", "setdefault", "pop", "popitem", "clear", "append", "extend", "insert", "remove", "add", "discard",
    "__setitem__", "__delitem__", "move_to_end", "appendleft", "sort", "reverse",
}
EMPTY_CONTAINERS = {"{}", "dict()", "OrderedDict()", "[]", "list()", "set()", "collections.OrderedDict()"}


@dataclass
class Write:
    mod: Mod
    fn: FuncInfo | None  # enclosing top-level function / method (None: module level)
    node: ast.AST
    kind: str  # init-empty | rebind | store | del | clear | mutcall:<m> | augassign
    target: str  # normalised text of the container expression
    text: str

    @property
    def where(self):
        q = self.fn.qualname if self.fn else "<module>"
        return f"{self.mod.rel}:{getattr(self.node, 'lineno', 0)} in {q}"

    @property
    def qual(self):
        return self.fn.qualname if self.fn else "<module>"


def _nodes_with_fn(mod: Mod):
    """every AST node of the module together with its enclosing top-level function / method (or None)."""
    owner = {}
    for q, fns in mod.funcs.items():
        for f in fns:
            for n in ast.walk(f.node):
                owner[id(n)] = f
    for n in ast.walk(mod.tree):
        yield n, owner.get(id(n))


def _base_name(node):
    while isinstance(node, (ast.Subscript, ast.Attribute)):
        node = node.value
    return node.id if isinstance(node, ast.Name) else None


def container_writes(repo: Repo, match, only_anchor=False):
    """all writes to container expressions for which match(expr_text, expr_node) is true."""
    out = []
    for mod in repo.mods(only_anchor=only_anchor):
        for n, fn in _nodes_with_fn(mod):
            if isinstance(n, ast.Assign):
                for t in n.targets:
                    if isinstance(t, ast.Subscript) and match(norm(t.value), t.value):
                        out.append(Write(mod, fn, n, "store", norm(t.value), norm(n)))
                    elif match(norm(t), t):
                        kind = "init-empty" if norm(n.value) in EMPTY_CONTAINERS else "rebind"
                        out.append(Write(mod, fn, n, kind, norm(t), norm(n)))
            elif isinstance(n, ast.AnnAssign) and n.value is not None:
                if match(norm(n.target), n.target):
                    kind = "init-empty" if norm(n.value) in EMPTY_CONTAINERS else "rebind"
                    out.append(Write(mod, fn, n, kind, norm(n.target), norm(n)))
            elif isinstance(n, ast.AugAssign):
                t = n.target
                if isinstance(t, ast.Subscript) and match(norm(t.value), t.value):
                    out.append(Write(mod, fn, n, "store", norm(t.value), norm(n)))
                elif match(norm(t), t):
                    out.append(Write(mod, fn, n, "augassign", norm(t), norm(n)))
            elif isinstance(n, ast.Delete):
                for t in n.targets:
                    if isinstance(t, ast.Subscript) and match(norm(t.value), t.value):
                        out.append(Write(mod, fn, n, "del", norm(t.value), norm(n)))
            elif isinstance(n, ast.Call) and isinstance(n.func, ast.Attribute) and n.func.attr in MUTATING_METHODS:
                if match(norm(n.func.value), n.func.value):
                    kind = "clear" if n.func.attr == "clear" else f"mutcall:{n.func.attr}"
                    out.append(Write(mod, fn, n, kind, norm(n.func.value), norm(n)))
    return out


def attr_writes(repo: Repo, attr: str):
    return container_writes(repo, lambda txt, node: isinstance(node, ast.Attribute) and node.attr == attr)


def module_containers(mod: Mod):
    """names bound at module level (assignment or import) - candidates for process-global state."""
    return set(mod.assigns) | set(mod.imports)


def global_calltime_writes(repo: Repo, only_anchor=True):
    """writes, made from inside a function body, to an object bound at module level (or declared global)."""
    out = []
    for mod in repo.mods(only_anchor=only_anchor):
        glob = module_containers(mod)
        # locals / params per top-level function (a local of the same name shadows the global)
        shadow = {}
        declared = {}
        for q, fns in mod.funcs.items():
            for f in fns:
                loc, gl = set(), set()
                for n in ast.walk(f.node):
                    if isinstance(n, ast.Name) and isinstance(n.ctx, ast.Store):
                        loc.add(n.id)
                    elif isinstance(n, ast.arg):
                        loc.add(n.arg)
                    elif isinstance(n, ast.Global):
                        gl |= set(n.names)
                    elif isinstance(n, (ast.Import, ast.ImportFrom)):
                        for a in n.names:
                            loc.add((a.asname or a.name).split(".")[0])
                shadow[id(f)] = loc - gl
                declared[id(f)] = gl

        def match_for(fn):
            def match(txt, node):
                b = _base_name(node)
                if b is None or fn is None:
                    return False
                if b in declared[id(fn)]:
                    return True
                return b in glob and b not in shadow[id(fn)]

            return match

        for n, fn in _nodes_with_fn(mod):
            if fn is None:
                continue
            m = match_for(fn)
            if isinstance(n, ast.Assign):
                for t in n.targets:
                    if isinstance(t, (ast.Subscript, ast.Attribute)) and m(norm(t.value), t.value):
                        kind = "store" if isinstance(t, ast.Subscript) else "attr-store"
                        out.append(Write(mod, fn, n, kind, norm(t.value), norm(n)))
                    elif isinstance(t, ast.Name) and t.id in declared[id(fn)]:
                        out.append(Write(mod, fn, n, "rebind", t.id, norm(n)))
            elif isinstance(n, ast.AugAssign):
                t = n.target
                if isinstance(t, (ast.Subscript, ast.Attribute)) and m(norm(t.value), t.value):
                    out.append(Write(mod, fn, n, "store", norm(t.value), norm(n)))
                elif isinstance(t, ast.Name) and t.id in declared[id(fn)]:
                    out.append(Write(mod, fn, n, "rebind", t.id, norm(n)))
            elif isinstance(n, ast.Delete):
                for t in n.targets:
                    if isinstance(t, ast.Subscript) and m(norm(t.value), t.value):
                        out.append(Write(mod, fn, n, "del", norm(t.value), norm(n)))
            elif isinstance(n, ast.Call) and isinstance(n.func, ast.Attribute) and n.func.attr in MUTATING_METHODS:
                if m(norm(n.func.value), n.func.value):
                    out.append(Write(mod, fn, n, f"mutcall:{n.func.attr}", norm(n.func.value), norm(n)))
    return out


# ---------------------------------------------------------------------------
# lru_cache'd functions and the role of their parameters


def is_cache_decorator(d) -> bool:
    t = norm(d)
    head = t.split("(")[0]
    return head.split(".")[-1] in ("lru_cache", "cache", "cached_property") and "property" not in head


def cached_functions(repo: Repo, only_anchor=True):
    out = []
    for mod in repo.mods(only_anchor=only_anchor):
        for q, fns in mod.funcs.items():
            for f in fns:
                if any(is_cache_decorator(d) for d in f.decorators()):
                    out.append(f)
    return out


REGISTRY_ATTRS = {"lut", "unit_system", "unit_system_id", "_unit_object_cache", "_unit_system_id", "keys", "list_same_dimensions"}
UNIT_ATTRS = {"dimensions", "base_value", "base_offset", "expr", "is_atomic", "registry", "is_dimensionless", "same_dimensions_as", "units"}
SYSTEM_ATTRS = {"units_map", "base_units", "has_current_mks"}


def _callee_params(repo: Repo, mod: Mod, call: ast.Call):
    """positional parameter names of the callee when it resolves to a function / class of the package."""
    q = mod.qual(call.func)
    if not q or not q.startswith("unyt."):
        return None
    parts = q.split(".")
    for cut in range(len(parts) - 1, 0, -1):
        rel = "/".join(parts[:cut]) + ".py"
        if rel in repo.sources:
            m2 = repo.mod(rel)
            name = ".".join(parts[cut:])
            if name in m2.classes:
                for ctor in (f"{name}.__new__", f"{name}.__init__"):
                    if ctor in m2.funcs:
                        a = m2.funcs[ctor][0].node.args
                        return [x.arg for x in a.posonlyargs + a.args][1:]
                return None
            if name in m2.funcs:
                a = m2.funcs[name][0].node.args
                ps = [x.arg for x in a.posonlyargs + a.args]
                return ps[1:] if ps and ps[0] in ("self", "cls") else ps
    return None


def param_roles(repo: Repo, fn: FuncInfo) -> dict[str, set[str]]:
    """role(s) of each parameter, inferred from how the body uses it: registry / unit / unit_system."""
    roles = {p: set() for p in fn.params}
    for p in fn.params:
        low = p.lower()
        if low.endswith("registry") or low in ("reg",):
            roles[p].add("registry")
        if low == "unit_system":
            roles[p].add("unit_system")
    for n in ast.walk(fn.node):
        if isinstance(n, ast.Attribute) and isinstance(n.value, ast.Name) and n.value.id in roles:
            p = n.value.id
            if n.attr in REGISTRY_ATTRS - {"keys"}:
                roles[p].add("registry")
            if n.attr in SYSTEM_ATTRS:
                roles[p].add("unit_system")
            if n.attr in UNIT_ATTRS:
                roles[p].add("unit")
        if isinstance(n, ast.Call):
            for k in n.keywords:
                if k.arg == "registry" and isinstance(k.value, ast.Name) and k.value.id in roles:
                    roles[k.value.id].add("registry")
                if k.arg == "unit_system" and isinstance(k.value, ast.Name) and k.value.id in roles:
                    roles[k.value.id].add("unit_system")
            formal = _callee_params(repo, fn.mod, n)
            if formal:
                for i, a in enumerate(n.args):
                    if isinstance(a, ast.Name) and a.id in roles and i < len(formal):
                        if formal[i].endswith("registry"):
                            roles[a.id].add("registry")
                        if formal[i] == "unit_system":
                            roles[a.id].add("unit_system")
    return roles


def class_hashes_by_identity(repo: Repo, rel: str, cls: str) -> bool:
    m = repo.mod(rel)
    return f"{cls}.__hash__" not in m.funcs and f"{cls}.__eq__" not in m.funcs


def call_sites(repo: Repo, fn: FuncInfo, only_anchor=False):
    """(mod, enclosing fn, call) for every call of fn by its simple name."""
    out = []
    for mod in repo.mods(only_anchor=only_anchor):
        for n, f in _nodes_with_fn(mod):
            if isinstance(n, ast.Call) and isinstance(n.func, ast.Name) and n.func.id == fn.name:
                q = mod.qual(n.func)
                if q and q.endswith("." + fn.name):
                    out.append((mod, f, n))
    return out


# ---------------------------------------------------------------------------
# key coverage of a hand-rolled dict memo

LOSSY_PROJECTIONS = {"frozenset", "set", "tuple", "list", "sorted", "len", "id", "iter", "keys", "hash", "type", "bool", "any", "all", "min", "max", "sum"}
LOSSLESS_OF_MAPPING = ("items", "repr", "str", "json.dumps", "dumps")


@dataclass
class KeyVerdict:
    covered: bool
    lossy: list = field(default_factory=list)  # (input, projection text)
    missing: list = field(default_factory=list)  # inputs the value depends on that the key never mentions
    undecided: list = field(default_factory=list)


def local_defs(fn: FuncInfo):
    """(defs, opaque): single-target local definitions, and the names bound by tuple unpacking - those are
    treated as inputs of their own (a component of the unpacked value), never expanded."""
    defs, opaque = {}, set()
    for n in ast.walk(fn.node):
        if isinstance(n, ast.Assign):
            for t in n.targets:
                if isinstance(t, ast.Name):
                    defs.setdefault(t.id, []).append(n.value)
                elif isinstance(t, (ast.Tuple, ast.List)):
                    for e in t.elts:
                        if isinstance(e, ast.Name):
                            opaque.add(e.id)
    for o in opaque:
        defs.pop(o, None)
    return defs, opaque


def roots(expr, defs, params, seen=None, skip_defs_of=(), opaque=frozenset()):
    """names of parameters / attributes of self that an expression is computed from (through local assignments)."""
    seen = seen if seen is not None else set()
    out = set()
    for n in ast.walk(expr):
        if isinstance(n, ast.Name) and isinstance(n.ctx, ast.Load):
            if n.id in opaque:
                out.add(n.id)
            elif n.id in defs and n.id not in seen and n.id not in skip_defs_of:
                seen.add(n.id)
                for d in defs[n.id]:
                    out |= roots(d, defs, params, seen, skip_defs_of, opaque)
                if n.id in params:
                    out.add(n.id)
            elif n.id in params or n.id in defs:
                out.add(n.id)
    return out


def key_coverage(fn: FuncInfo, key_expr, value_expr, mapping_like=()) -> KeyVerdict:
    """Does key_expr determine everything value_expr depends on?

    An input reaches the key *losslessly* when it appears as itself (hashable immutable inputs), or - for inputs
    that are mappings - through .items() / repr / str.  frozenset(d), tuple(d), sorted(d), len(d), d.keys(), id(d)
    keep only part of a mapping: two different tables get the same key, so the remembered value is served for the
    wrong input."""
    defs, opaque = local_defs(fn)
    params = set(fn.params)
    vroots = roots(value_expr, defs, params, opaque=opaque)
    # expand the key through local definitions but remember how each root is used
    lossy, present = [], set()

    def visit(e, depth=0):
        if depth > 6:
            return
        if isinstance(e, ast.Call):
            fname = norm(e.func)
            short = fname.split(".")[-1]
            if short in LOSSY_PROJECTIONS and e.args:
                for r in roots(e.args[0], defs, params, opaque=opaque):
                    lossy.append((r, norm(e)))
                return
            if isinstance(e.func, ast.Attribute) and short in ("keys",):
                for r in roots(e.func.value, defs, params, opaque=opaque):
                    lossy.append((r, norm(e)))
                return
        if isinstance(e, ast.Name) and isinstance(e.ctx, ast.Load):
            if e.id in defs and e.id not in params and e.id not in opaque:
                for d in defs[e.id]:
                    visit(d, depth + 1)
                return
            present.add(e.id)
            return
        for ch in ast.iter_child_nodes(e):
            visit(ch, depth)

    visit(key_expr)
    v = KeyVerdict(True)
    for r in sorted(vroots):
        if r in present:
            if r in mapping_like:
                v.undecided.append(r)  # a mutable mapping used directly as (part of) a key cannot be hashed
            continue
        proj = [p for (x, p) in lossy if x == r]
        if proj:
            v.lossy.append((r, proj[0]))
            v.covered = False
        else:
            v.missing.append(r)
            v.covered = False
    return v
