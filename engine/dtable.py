"""Decision-table analysis of small branch-only functions.

A unit rule such as ``_preserve_units(unit1, unit2)`` is a nest of tests on a handful of attributes of its
arguments and ends in ``return (mul, <label>)`` or ``raise``.  For an abstract argument - a *record* holding just
the attribute values the tests look at (taken from the constant-folded unit table, never from an imported unyt) -
every test folds to a truth value, so exactly one leaf of the nest is selected.  Doing this for every record of a
finite universe gives the function's complete decision table, which is compared with a reference table.

The folder understands only what these functions use: attribute reads on records, ``is (not) None``,
``is (not)``/``==``/``!=`` against dimension tokens, numbers and strings, ``in`` / ``.startswith`` on strings,
``repr(x)`` / ``str(x)`` of a record (its spelling), and/or/not, local single assignments, and calls of sibling
rule functions (followed).  Anything else stops the analysis (AnalysisError -> exit 2), it is never guessed.
"""

from __future__ import annotations

import ast

from .core import AnalysisError, FuncInfo, norm


class Rec:
    """abstract unit: the attribute values a rule function can observe"""

    def __init__(self, name, **attrs):
        self.name = name
        self.attrs = attrs

    def __repr__(self):
        return f"<{self.name}>"

    def __eq__(self, o):
        # Unit.__eq__: scale, offset, dimension (C05-R2)
        if not isinstance(o, Rec):
            return NotImplemented
        return all(self.attrs.get(k) == o.attrs.get(k) for k in ("base_value", "base_offset", "dimensions"))

    def __hash__(self):
        return hash(self.name)


class Tok:
    """an opaque singleton such as the dimension `temperature`"""

    def __init__(self, name):
        self.name = name

    def __repr__(self):
        return self.name


class Opaque:
    """a value the folder does not model (a newly built object, arithmetic on expressions): fine as something that
    is stored or returned, an error as soon as a branch condition depends on it"""

    def __repr__(self):
        return "<opaque>"


OPAQUE = Opaque()


class Outcome:
    def __init__(self, kind, value=None, node=None):
        self.kind = kind  # "return" | "raise"
        self.value = value  # for return: tuple of folded elements; for raise: exception name
        self.node = node

    def __repr__(self):
        return f"{self.kind}:{self.value}"


class Folder:
    def __init__(self, mod, fn: FuncInfo, env: dict, globals_: dict, depth=0):
        self.mod, self.fn = mod, fn
        self.env = dict(env)
        self.globals = globals_
        self.depth = depth

    def fail(self, node, why):
        raise AnalysisError(f"{self.fn.where(node)}: decision table: {why}: {norm(node)[:70]}")

    def ev(self, n):
        if isinstance(n, ast.Constant):
            return n.value
        if isinstance(n, ast.BinOp) and isinstance(n.op, (ast.Mult, ast.Div, ast.Add, ast.Sub)):
            a, b = self.ev(n.left), self.ev(n.right)
            if all(isinstance(x, (int, float)) and not isinstance(x, bool) for x in (a, b)):
                if isinstance(n.op, ast.Div):
                    if b == 0:
                        raise _Raised(Outcome("raise", "ZeroDivisionError", n))
                    return a / b
                return {ast.Mult: a * b, ast.Add: a + b, ast.Sub: a - b}[type(n.op)]
            self.fail(n, "arithmetic on non-numbers")
        if isinstance(n, ast.UnaryOp) and isinstance(n.op, ast.USub):
            v = self.ev(n.operand)
            if isinstance(v, (int, float)) and not isinstance(v, bool):
                return -v
            self.fail(n, "negation of a non-number")
        if isinstance(n, ast.Name):
            if n.id in self.env:
                return self.env[n.id]
            if n.id in self.globals:
                return self.globals[n.id]
            # a module-level literal (mapping / tuple / constant) whose elements fold
            vals = self.mod.assigns.get(n.id)
            if vals and len(vals) == 1 and isinstance(vals[0], (ast.Dict, ast.Tuple, ast.List, ast.Constant, ast.Set)):
                return self.ev(vals[0])
            self.fail(n, "unknown name")
        if isinstance(n, ast.Attribute):
            base = self.ev(n.value)
            if isinstance(base, Rec):
                if n.attr not in base.attrs:
                    if base.attrs.get("__closed__"):
                        # the record lists every attribute its class defines: the read raises
                        raise _Raised(Outcome("raise", "AttributeError", n))
                    self.fail(n, f"attribute {n.attr} is not modelled")
                return base.attrs[n.attr]
            if base is None:
                raise _Raised(Outcome("raise", "AttributeError", n))
            self.fail(n, "attribute of a non-record")
        if isinstance(n, ast.UnaryOp) and isinstance(n.op, ast.Not):
            return not self.truth(n.operand)
        if isinstance(n, ast.BoolOp):
            if isinstance(n.op, ast.And):
                v = True
                for x in n.values:
                    v = self.ev(x)
                    if not self._t(v):
                        return v
                return v
            v = False
            for x in n.values:
                v = self.ev(x)
                if self._t(v):
                    return v
            return v
        if isinstance(n, ast.IfExp):
            return self.ev(n.body) if self.truth(n.test) else self.ev(n.orelse)
        if isinstance(n, ast.Compare):
            left = self.ev(n.left)
            for op, c in zip(n.ops, n.comparators):
                right = self.ev(c)
                if isinstance(left, Opaque) or isinstance(right, Opaque):
                    # a comparison with a value the analysis does not model is itself unknown (never silently False / True)
                    return OPAQUE
                if isinstance(op, ast.Is):
                    r = left is right
                elif isinstance(op, ast.IsNot):
                    r = left is not right
                elif isinstance(op, ast.Eq):
                    r = left == right
                elif isinstance(op, ast.NotEq):
                    r = left != right
                elif isinstance(op, ast.In):
                    r = left in right
                elif isinstance(op, ast.NotIn):
                    r = left not in right
                elif isinstance(op, (ast.Lt, ast.LtE, ast.Gt, ast.GtE)) and all(isinstance(x, (int, float)) for x in (left, right)):
                    r = {ast.Lt: left < right, ast.LtE: left <= right, ast.Gt: left > right, ast.GtE: left >= right}[type(op)]
                else:
                    self.fail(n, "comparison not modelled")
                if not r:
                    return False
                left = right
            return True
        if isinstance(n, ast.Subscript):
            base = self.ev(n.value)
            if isinstance(n.slice, ast.Slice):
                lo = self.ev(n.slice.lower) if n.slice.lower is not None else None
                hi = self.ev(n.slice.upper) if n.slice.upper is not None else None
                if isinstance(base, (str, tuple, list)) and all(x is None or isinstance(x, int) for x in (lo, hi)) and n.slice.step is None:
                    return base[lo:hi]
                self.fail(n, "slice not modelled")
            k = self.ev(n.slice)
            if isinstance(base, (str, tuple, list)) and isinstance(k, int):
                try:
                    return base[k]
                except IndexError:
                    raise _Raised(Outcome("raise", "IndexError", n))
            if isinstance(base, dict):
                if k in base:
                    return base[k]
                raise _Raised(Outcome("raise", "KeyError", n))
            self.fail(n, "subscript not modelled")
        if isinstance(n, ast.Dict):
            return {self.ev(k): self.ev(v) for k, v in zip(n.keys, n.values)}
        if isinstance(n, ast.Tuple):
            return tuple(self.ev(e) for e in n.elts)
        if isinstance(n, ast.List):
            return [self.ev(e) for e in n.elts]
        if isinstance(n, ast.Call):
            f = norm(n.func)
            if f == "getattr" and len(n.args) in (2, 3) and isinstance(n.args[1], ast.Constant):
                base = self.ev(n.args[0])
                if isinstance(base, Rec):
                    if n.args[1].value in base.attrs:
                        return base.attrs[n.args[1].value]
                    if len(n.args) == 3:
                        return self.ev(n.args[2])
                    if base.attrs.get("__closed__"):
                        raise _Raised(Outcome("raise", "AttributeError", n))
                    self.fail(n, f"attribute {n.args[1].value} is not modelled")
                if len(n.args) == 3:
                    return self.ev(n.args[2])
                if base is None:
                    raise _Raised(Outcome("raise", "AttributeError", n))
                self.fail(n, "getattr of a non-record")
            if f == "hasattr" and len(n.args) == 2 and isinstance(n.args[1], ast.Constant):
                base = self.ev(n.args[0])
                if isinstance(base, Rec) and base.attrs.get("__closed__"):
                    return n.args[1].value in base.attrs
                if base is None or isinstance(base, (str, int, float)):
                    return False
                self.fail(n, "hasattr of a value whose attributes are not modelled")
            if f == "isinstance" and len(n.args) == 2:
                base = self.ev(n.args[0])
                cls = norm(n.args[1])
                if isinstance(base, Rec):
                    return cls in base.attrs.get("__classes__", ())
                return False if cls in ("Unit",) else self.fail(n, "isinstance not modelled")
            if f == "len" and len(n.args) == 1:
                v = self.ev(n.args[0])
                if isinstance(v, (str, tuple, list, dict)):
                    return len(v)
                self.fail(n, "len of a non-sequence")
            if f in ("repr", "str") and len(n.args) == 1:
                v = self.ev(n.args[0])
                if isinstance(v, Rec):
                    return v.name
                if isinstance(v, str):
                    return v if f == "str" else repr(v)
                self.fail(n, "repr of a non-record")
            if isinstance(n.func, ast.Attribute) and n.func.attr == "get" and 1 <= len(n.args) <= 2:
                d = self.ev(n.func.value)
                if isinstance(d, dict):
                    k = self.ev(n.args[0])
                    return d.get(k, self.ev(n.args[1]) if len(n.args) == 2 else None)
                self.fail(n, ".get on a non-mapping")
            if isinstance(n.func, ast.Attribute) and n.func.attr in ("startswith", "endswith") and len(n.args) == 1:
                s, a = self.ev(n.func.value), self.ev(n.args[0])
                if isinstance(s, str) and isinstance(a, (str, tuple)):
                    return getattr(s, n.func.attr)(a)
                self.fail(n, "string test on a non-string")
            if isinstance(n.func, ast.Name) and callable(self.globals.get(n.func.id)):
                # a constructor the rule models (e.g. Unit(...)): its arguments are values, not conditions
                args = [self.ev_or_opaque(a) for a in n.args]
                kws = {k.arg: self.ev_or_opaque(k.value) for k in n.keywords if k.arg is not None}
                if any(k.arg is None for k in n.keywords):
                    self.fail(n, "**kwargs in a modelled constructor call")
                return self.globals[n.func.id](*args, **kws)
            if isinstance(n.func, ast.Attribute) and n.func.attr == "copy" and not n.args and not n.keywords:
                base = self.ev(n.func.value)
                if isinstance(base, Rec):
                    return base
                self.fail(n, ".copy() of a non-record")
            if isinstance(n.func, ast.Name) and n.func.id in self.mod.funcs and self.depth < 3:
                callee = self.mod.funcs[n.func.id][0]
                args = [self.ev(a) for a in n.args]
                out = decide(self.mod, callee, args, self.globals, self.depth + 1)
                if out.kind == "raise":
                    raise _Raised(out)
                return out.value
            self.fail(n, "call not modelled")
        self.fail(n, "expression not modelled")

    def ev_or_opaque(self, n):
        """value positions (right-hand sides, returned values): what cannot be folded is opaque, not an error;
        a refusal inside a followed helper still propagates"""
        if isinstance(n, ast.Tuple):
            return tuple(self.ev_or_opaque(e) for e in n.elts)
        try:
            return self.ev(n)
        except AnalysisError:
            return OPAQUE

    @staticmethod
    def _t(v):
        if isinstance(v, (Rec, Tok)):
            return True
        return bool(v)

    def truth(self, n):
        v = self.ev(n)
        if isinstance(v, Opaque):
            self.fail(n, "a branch condition depends on a value the analysis does not model")
        return self._t(v)

    def run(self, body):
        for st in body:
            if isinstance(st, ast.Expr) and isinstance(st.value, ast.Constant):
                continue
            if isinstance(st, ast.If):
                r = self.run(st.body if self.truth(st.test) else st.orelse)
                if r is not None:
                    return r
                continue
            if isinstance(st, ast.Assign) and len(st.targets) == 1 and isinstance(st.targets[0], ast.Name):
                self.env[st.targets[0].id] = self.ev_or_opaque(st.value)
                continue
            if isinstance(st, (ast.Import, ast.ImportFrom)):
                continue
            if isinstance(st, ast.Return):
                return Outcome("return", self.ev_or_opaque(st.value) if st.value is not None else None, st)
            if isinstance(st, ast.Raise):
                e = st.exc.func if isinstance(st.exc, ast.Call) else st.exc
                return Outcome("raise", norm(e) if e is not None else "?", st)
            if isinstance(st, ast.Expr) and isinstance(st.value, ast.Call):
                # a guard helper that only refuses: follow it
                try:
                    self.ev(st.value)
                except _Raised as r:
                    return r.outcome
                continue
            if isinstance(st, ast.Pass):
                continue
            if isinstance(st, ast.Try) and not st.finalbody:
                try:
                    r = self.run(st.body)
                    if r is None and st.orelse:
                        r = self.run(st.orelse)
                except _Raised as ex:
                    r = ex.outcome
                if r is not None and r.kind == "raise":
                    for h in st.handlers:
                        names = [] if h.type is None else ([norm(e) for e in h.type.elts] if isinstance(h.type, ast.Tuple) else [norm(h.type)])
                        if h.type is None or r.value in names or "Exception" in names:
                            r = self.run(h.body)
                            break
                if r is not None:
                    return r
                continue
            self.fail(st, "statement not modelled")
        return None


class _Raised(Exception):
    def __init__(self, outcome):
        self.outcome = outcome


def decide(mod, fn: FuncInfo, args: list, globals_: dict, depth=0) -> Outcome:
    """select the leaf of fn's branch nest for the given abstract arguments"""
    a = fn.node.args
    names = [x.arg for x in a.posonlyargs + a.args]
    defaults = dict(zip(names[::-1], a.defaults[::-1]))
    env = {}
    for i, p in enumerate(names):
        if i < len(args):
            env[p] = args[i]
        elif p in defaults:
            d = defaults[p]
            if not isinstance(d, ast.Constant):
                raise AnalysisError(f"{fn.where()}: default of {p} is not a literal")
            env[p] = d.value
        else:
            raise AnalysisError(f"{fn.where()}: parameter {p} has no abstract argument")
    f = Folder(mod, fn, env, globals_, depth)
    try:
        out = f.run(fn.body)
    except _Raised as r:
        return r.outcome
    if out is None:
        return Outcome("return", None, fn.node)
    return out
