"""Alias / effect analysis: which statements of a function may write into an
object that aliases `self` or a parameter.

Flow-insensitive may-alias over local names (fixpoint over the assignments of
the function), with the freshness classification of DESIGN section 1.4:

    alias   np.asarray(x), np.asanyarray(x), x.view(..), x.d, x.ndview, x.T,
            x.reshape/ravel/squeeze/transpose/swapaxes(..), x[...], plain names
    fresh   np.array(x), np.copy(x), x.copy(), x.astype(..), any arithmetic,
            .in_units/.to/.value/.v/.to_value, results of other calls,
            elements obtained by tuple unpacking / iteration
"""

from __future__ import annotations

import ast

from .core import norm, walk_no_nested

ALIAS_CALLS = {"np.asarray", "np.asanyarray", "numpy.asarray"}
ALIAS_METHODS = {"view", "reshape", "ravel", "squeeze", "transpose", "swapaxes"}
ALIAS_ATTRS = {"d", "ndview", "T", "real", "imag", "base"}
INPLACE_METHODS = {"sort", "fill", "resize", "itemset", "put", "partition", "setfield", "byteswap"}
OUT_POSITIONAL = {"np.subtract", "np.add", "np.multiply", "np.true_divide", "np.divide", "np.power", "np.sqrt"}
SELF_MUTATORS = {"convert_to_units", "convert_to_base", "convert_to_cgs", "convert_to_mks", "convert_to_equivalent"}


_MUTATOR_CACHE = {}
SYNTAX_INVOKED = {"__new__", "__init__", "__setstate__", "__array_finalize__", "__setitem__", "__delitem__", "__iadd__", "__isub__", "__imul__", "__itruediv__", "__ifloordiv__", "__ipow__", "__imod__", "__iand__", "__ior__", "__ixor__", "__reduce__"}
MUTATOR_CLASSES = ("Unit", "unyt_array", "unyt_quantity")


def discovered_mutators(repo):
    """names of the methods of Unit / unyt_array that write their receiver (an attribute store on self, an in-place
    NumPy call on self's data, or a call of another such method on self): derived from the source by fixpoint, so a
    new or renamed mutator is known without a table.  Properties and syntax-invoked dunders are not callable by name
    and are left out."""
    if repo is None:
        return set()
    key = id(repo)
    if key in _MUTATOR_CACHE:
        return _MUTATOR_CACHE[key]
    _MUTATOR_CACHE[key] = set()  # recursion guard: discovery runs with the seed set
    found = set()
    cands = []
    for mod in repo.mods(only_anchor=True):
        for q, fns in mod.funcs.items():
            if "." not in q or q.split(".")[0] not in MUTATOR_CLASSES:
                continue
            for f in fns:
                name = q.split(".")[1]
                if name in SYNTAX_INVOKED or any(norm(d) in ("property", "cached_property") or norm(d).endswith(".setter") for d in f.node.decorator_list):
                    continue
                cands.append((name, f))
    changed = True
    while changed:
        changed = False
        for name, f in cands:
            if name in found:
                continue
            eff = Effects(f, mutators=SELF_MUTATORS | found)
            for aliases, text, node in eff.writes(f.node):
                # a write to the receiver itself or to its data; stores of private memo attributes are not mutation
                if any(a == "self" or (a.startswith("self.") and not a.split(".")[1].startswith("_")) for a in aliases):
                    found.add(name)
                    changed = True
                    break
    _MUTATOR_CACHE[key] = found
    return found


class Effects:
    """alias_of returns root names; self.same[name] tells whether a local name
    may be the *same object* as a root (plain name copies) - only then does an
    attribute store through it change the root object's attributes (views made
    by np.asarray/.view/slicing are distinct objects sharing data only)."""

    augassign_names = True  # `x *= ..` on a name aliasing an array is an in-place write

    def __init__(self, fn, roots=None, mutators=None):
        self.fn = fn
        self.mutators = mutators if mutators is not None else SELF_MUTATORS | discovered_mutators(getattr(getattr(fn, "mod", None), "repo", None))
        self.same = {}
        self.roots = set(roots if roots is not None else fn.params) | ({fn.vararg} if fn.vararg else set())
        self.origins = {}
        self._fix()

    def alias_of(self, e) -> set:
        if isinstance(e, ast.Name):
            out = set(self.origins.get(e.id, ()))
            if e.id in self.roots:
                out.add(e.id)
            return out
        if isinstance(e, ast.Attribute):
            if e.attr in ALIAS_ATTRS:
                return self.alias_of(e.value)
            if e.attr == "units":
                return {f"{r}.units" for r in self.alias_of(e.value)}
            if e.attr in ("registry", "lut", "_unit_object_cache"):
                return {f"{r}.{e.attr}" for r in self.alias_of(e.value)}
            return set()
        if isinstance(e, ast.Subscript):
            return self.alias_of(e.value)
        if isinstance(e, ast.Call):
            f = norm(e.func)
            if f in ALIAS_CALLS and e.args:
                return self.alias_of(e.args[0])
            if isinstance(e.func, ast.Attribute) and e.func.attr in ALIAS_METHODS:
                return self.alias_of(e.func.value)
            if f == "super().__getitem__":
                return {"self"} if "self" in self.roots else set()
            if f in ("unyt_array", "unyt_quantity", "type(self)", "cls") and e.args:
                # the constructors wrap ndarray / unyt_array input as a view (C16-R2)
                return self.alias_of(e.args[0])
            return set()
        if isinstance(e, ast.IfExp):
            return self.alias_of(e.body) | self.alias_of(e.orelse)
        if isinstance(e, ast.NamedExpr):
            return self.alias_of(e.value)
        return set()

    def _same_object(self, e) -> set:
        """roots that `e` may be identical to (not merely share data with)"""
        if isinstance(e, ast.Name):
            out = set(self.same.get(e.id, ()))
            if e.id in self.roots:
                out.add(e.id)
            return out
        if isinstance(e, ast.Attribute) and e.attr in ("units", "registry", "lut", "_unit_object_cache"):
            return {f"{r}.{e.attr}" for r in self._same_object(e.value)}
        return set()

    def _immutable_param(self, name):
        a = self.fn.node.args
        pos = a.posonlyargs + a.args
        defaults = dict(zip([x.arg for x in pos][::-1], a.defaults[::-1]))
        for k, d in zip(a.kwonlyargs, a.kw_defaults):
            if d is not None:
                defaults[k.arg] = d
        d = defaults.get(name)
        return isinstance(d, ast.Constant) and isinstance(d.value, (str, int, float, bool, bytes))

    def _fix(self):
        changed = True
        it = 0
        while changed and it < 20:
            changed = False
            it += 1
            for n in walk_no_nested(self.fn.node):
                if isinstance(n, ast.Assign):
                    for t in n.targets:
                        if isinstance(t, ast.Name):
                            a = self.alias_of(n.value)
                            cur = self.origins.setdefault(t.id, set())
                            if not a <= cur:
                                cur |= a
                                changed = True
                            if isinstance(n.value, ast.Name):
                                sm = self.same.setdefault(t.id, set())
                                src = set(self.same.get(n.value.id, ())) | ({n.value.id} if n.value.id in self.roots else set())
                                if not src <= sm:
                                    sm |= src
                                    changed = True
                elif isinstance(n, ast.NamedExpr) and isinstance(n.target, ast.Name):
                    a = self.alias_of(n.value)
                    cur = self.origins.setdefault(n.target.id, set())
                    if not a <= cur:
                        cur |= a
                        changed = True

    def writes(self, node):
        """yield (target aliases, description, node) for each write construct in `node`"""
        for n in walk_no_nested(node):
            if isinstance(n, ast.AugAssign):
                t = n.target
                if isinstance(t, ast.Name):
                    a = self.alias_of(t)
                    if a and self.augassign_names and not self._immutable_param(t.id):
                        yield a, norm(n), n
                elif isinstance(t, ast.Subscript):
                    a = self.alias_of(t.value)
                    if a:
                        yield a, norm(n), n
                elif isinstance(t, ast.Attribute):
                    a = self._same_object(t.value)
                    if a:
                        yield {f"{x}.{t.attr}" for x in a}, norm(n), n
            elif isinstance(n, ast.Assign):
                for t in n.targets:
                    for el in ([t] if not isinstance(t, (ast.Tuple, ast.List)) else t.elts):
                        if isinstance(el, ast.Subscript):
                            a = self.alias_of(el.value)
                            if a:
                                yield a, norm(n), n
                        elif isinstance(el, ast.Attribute):
                            a = self._same_object(el.value)
                            if a:
                                yield {f"{x}.{el.attr}" for x in a}, norm(n), n
            elif isinstance(n, ast.Delete):
                for t in n.targets:
                    if isinstance(t, (ast.Subscript, ast.Attribute)):
                        a = self.alias_of(t.value)
                        if a:
                            yield a, norm(n), n
            elif isinstance(n, ast.Call):
                f = norm(n.func)
                for k in n.keywords:
                    if k.arg == "out":
                        a = self.alias_of(k.value)
                        if a:
                            yield a, norm(n)[:80], n
                if f in OUT_POSITIONAL and len(n.args) >= 3:
                    a = self.alias_of(n.args[2])
                    if a:
                        yield a, norm(n)[:80], n
                if f in ("np.copyto", "np.put", "np.place", "np.putmask", "np.fill_diagonal") and n.args:
                    a = self.alias_of(n.args[0])
                    if a:
                        yield a, norm(n)[:80], n
                if f in ("super().__setitem__", "super().__setstate__", "super().__iadd__") and "self" in self.roots:
                    yield {"self"}, norm(n)[:80], n
                if isinstance(n.func, ast.Attribute):
                    if n.func.attr in INPLACE_METHODS or n.func.attr in self.mutators:
                        a = self.alias_of(n.func.value)
                        if a:
                            yield a, norm(n)[:80], n
                    if n.func.attr in ("update", "pop", "setdefault", "clear", "append", "extend", "add", "remove", "modify") and isinstance(n.func.value, (ast.Attribute, ast.Name)):
                        a = self.alias_of(n.func.value)
                        # only container objects reached through attributes (.lut, ._unit_object_cache, .registry)
                        a = {x for x in a if "." in x}
                        if a:
                            yield a, norm(n)[:80], n
