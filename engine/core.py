"""Loader / resolver for the static checks.

Everything here works on *source text*: modules of /repo/unyt are parsed with
``ast`` and never imported or executed.
"""

from __future__ import annotations

import ast
import hashlib
import os
from dataclasses import dataclass, field

PKG = "unyt"

# modules that are parsed (rule anchors live in the first group)
ANCHOR_MODULES = [
    "unyt/__init__.py",
    "unyt/_array_functions.py",
    "unyt/_parsing.py",
    "unyt/_physical_ratios.py",
    "unyt/_unit_lookup_table.py",
    "unyt/array.py",
    "unyt/dimensions.py",
    "unyt/equivalencies.py",
    "unyt/exceptions.py",
    "unyt/physical_constants.py",
    "unyt/testing.py",
    "unyt/unit_object.py",
    "unyt/unit_registry.py",
    "unyt/unit_symbols.py",
    "unyt/unit_systems.py",
]
OTHER_MODULES = [
    "unyt/_deprecation.py",
    "unyt/_on_demand_imports.py",
    "unyt/_pint_conversions.py",
    "unyt/dask_array.py",
    "unyt/mpl_interface.py",
]


class AnalysisError(Exception):
    """The analysis cannot be carried out (vanished anchor, unfoldable table,
    construct the engine does not model).  Exit code 2, never a VIOLATION."""


def norm(node) -> str:
    """Normalised text of a node (position independent)."""
    if isinstance(node, str):
        return node
    return ast.unparse(node)


def sha(text: str) -> str:
    return hashlib.sha1(text.encode()).hexdigest()[:10]


@dataclass
class FuncInfo:
    mod: "Mod"
    qualname: str  # "unyt_array.in_units" or "hstack"
    node: ast.FunctionDef
    gate: str = ""  # text of enclosing module-level if-tests ("" if none)
    cls: str | None = None

    @property
    def name(self):
        return self.node.name

    @property
    def params(self):
        a = self.node.args
        return [x.arg for x in a.posonlyargs + a.args + a.kwonlyargs]

    @property
    def vararg(self):
        return self.node.args.vararg.arg if self.node.args.vararg else None

    @property
    def kwarg(self):
        return self.node.args.kwarg.arg if self.node.args.kwarg else None

    @property
    def body(self):
        b = self.node.body
        if (
            b
            and isinstance(b[0], ast.Expr)
            and isinstance(b[0].value, ast.Constant)
            and isinstance(b[0].value.value, str)
        ):
            return b[1:]
        return b

    def where(self, node=None) -> str:
        line = getattr(node, "lineno", self.node.lineno)
        return f"{self.mod.rel}:{line} in {self.qualname}"

    def decorators(self):
        return list(self.node.decorator_list)


class Mod:
    def __init__(self, rel: str, src: str):
        self.rel = rel
        self.src = src
        try:
            self.tree = ast.parse(src)
        except SyntaxError as e:  # pragma: no cover
            raise AnalysisError(f"cannot parse {rel}: {e}")
        # local names carry no meaning: rename them to the names the rules were written against wherever a local's
        # defining statements are unchanged (engine/roles.py)
        from . import normal, roles

        normal.normalise(self.tree, rel)
        roles.normalise(self.tree, rel)
        self.modname = rel[:-3].replace("/", ".")
        if self.modname.endswith(".__init__"):
            self.modname = self.modname[: -len(".__init__")]
        self.imports: dict[str, str] = {}
        self.assigns: dict[str, list[ast.AST]] = {}
        self.funcs: dict[str, list[FuncInfo]] = {}
        self.classes: dict[str, ast.ClassDef] = {}
        self._scan(self.tree.body, gate="", cls=None)

    # -- scanning ---------------------------------------------------------
    def _scan(self, body, gate, cls):
        for st in body:
            if isinstance(st, (ast.Import, ast.ImportFrom)):
                self._imp(st)
            elif isinstance(st, ast.FunctionDef):
                q = f"{cls}.{st.name}" if cls else st.name
                self.funcs.setdefault(q, []).append(FuncInfo(self, q, st, gate, cls))
                # nested imports inside functions are resolved lazily
            elif isinstance(st, ast.ClassDef):
                self.classes[st.name] = st
                self._scan(st.body, gate, st.name)
            elif isinstance(st, ast.Assign):
                for t in st.targets:
                    for nm in _target_names(t):
                        key = f"{cls}.{nm}" if cls else nm
                        self.assigns.setdefault(key, []).append(st.value)
            elif isinstance(st, ast.AnnAssign) and st.value is not None:
                for nm in _target_names(st.target):
                    key = f"{cls}.{nm}" if cls else nm
                    self.assigns.setdefault(key, []).append(st.value)
            elif isinstance(st, ast.If):
                t = norm(st.test)
                g1 = (gate + " & " if gate else "") + t
                g2 = (gate + " & " if gate else "") + f"not ({t})"
                self._scan(st.body, g1, cls)
                self._scan(st.orelse, g2, cls)
            elif isinstance(st, ast.Try):
                self._scan(st.body, gate, cls)
                for h in st.handlers:
                    self._scan(h.body, gate, cls)
                self._scan(st.orelse, gate, cls)
            elif isinstance(st, (ast.For, ast.While, ast.With)):
                self._scan(st.body, gate, cls)

    def _imp(self, st):
        if isinstance(st, ast.Import):
            for a in st.names:
                self.imports[a.asname or a.name.split(".")[0]] = (
                    a.name if a.asname else a.name.split(".")[0]
                )
        else:
            base = st.module or ""
            if st.level:
                parts = self.modname.split(".")
                if not self.rel.endswith("__init__.py"):
                    parts = parts[:-1]
                parts = parts[: len(parts) - (st.level - 1)]
                base = ".".join(parts + ([st.module] if st.module else []))
            for a in st.names:
                self.imports[a.asname or a.name] = f"{base}.{a.name}"

    # -- lookups ----------------------------------------------------------
    def _imported_func(self, qualname: str):
        """a module-level function that this module imports from another module of the package (a helper that was
        moved and imported back is still the same anchor)"""
        repo = getattr(self, "repo", None)
        if repo is None or "." in qualname:
            return None
        q = self.imports.get(qualname)
        if not q or not q.startswith(PKG + "."):
            return None
        modname, _, name = q.rpartition(".")
        rel = modname.replace(".", "/") + ".py"
        if rel in repo.sources and rel != self.rel:
            other = repo.mod(rel)
            return other.funcs.get(name)
        return None

    def func(self, qualname: str) -> FuncInfo:
        fs = self.funcs.get(qualname) or self._imported_func(qualname)
        if not fs:
            raise AnalysisError(f"anchor-missing function {self.rel}:{qualname}")
        return fs[0]

    def all_funcs(self, qualname: str) -> list[FuncInfo]:
        fs = self.funcs.get(qualname) or self._imported_func(qualname)
        if not fs:
            raise AnalysisError(f"anchor-missing function {self.rel}:{qualname}")
        return fs

    def has_func(self, qualname):
        return qualname in self.funcs or bool(self._imported_func(qualname))

    def assign(self, name: str) -> ast.AST:
        v = self.assigns.get(name)
        if not v:
            raise AnalysisError(f"anchor-missing assignment {self.rel}:{name}")
        return v[-1]

    def local_imports(self, fn: FuncInfo) -> dict[str, str]:
        """imports made inside a function body"""
        saved = self.imports
        self.imports = {}
        try:
            for n in ast.walk(fn.node):
                if isinstance(n, (ast.Import, ast.ImportFrom)):
                    self._imp(n)
            out = self.imports
        finally:
            self.imports = saved
        return out

    def qual(self, expr, local: dict[str, str] | None = None) -> str | None:
        """dotted qualified name of a Name/Attribute chain, through imports
        and single module-level aliases (``_trapezoid_func = np.trapezoid``)."""
        parts = []
        e = expr
        while isinstance(e, ast.Attribute):
            parts.append(e.attr)
            e = e.value
        if not isinstance(e, ast.Name):
            return None
        head = e.id
        tail = list(reversed(parts))
        if local and head in local:
            return ".".join([local[head]] + tail)
        if head in self.imports:
            return ".".join([self.imports[head]] + tail)
        if head in self.funcs or head in self.classes:
            return ".".join([f"{self.modname}.{head}"] + tail)
        if head in self.assigns:
            vals = self.assigns[head]
            qs = {self.qual(v) for v in vals if isinstance(v, (ast.Name, ast.Attribute))}
            qs.discard(None)
            if len(qs) == 1 and len(vals) == len(
                [v for v in vals if isinstance(v, (ast.Name, ast.Attribute))]
            ):
                return ".".join([qs.pop()] + tail)
            return ".".join([f"{self.modname}.{head}"] + tail)
        return ".".join([head] + tail)

    def qual_all(self, expr) -> set[str]:
        """like qual, but a name with several module-level alias assignments
        (version gates) yields every target."""
        if isinstance(expr, ast.Name) and expr.id in self.assigns and expr.id not in self.imports:
            vals = self.assigns[expr.id]
            out = set()
            for v in vals:
                if isinstance(v, (ast.Name, ast.Attribute)):
                    q = self.qual(v)
                    if q:
                        out.add(q)
            if out and len(out) <= len(vals):
                return out
        q = self.qual(expr)
        return {q} if q else set()


def _target_names(t):
    if isinstance(t, ast.Name):
        yield t.id
    elif isinstance(t, (ast.Tuple, ast.List)):
        for e in t.elts:
            yield from _target_names(e)


class Repo:
    def __init__(self, sources: dict[str, str], root: str = "<memory>"):
        self.sources = sources
        self.root = root
        self._mods: dict[str, Mod] = {}
        try:
            from . import sem

            sem.register_signatures(self)
        except AnalysisError:
            pass

    @classmethod
    def from_disk(cls, root: str | None = None) -> "Repo":
        root = root or os.environ.get("VERIF_REPO", "/repo")
        src = {}
        for rel in ANCHOR_MODULES + OTHER_MODULES:
            p = os.path.join(root, rel)
            if os.path.exists(p):
                with open(p, encoding="utf-8") as f:
                    src[rel] = f.read()
            elif rel in ANCHOR_MODULES:
                raise AnalysisError(f"anchor-missing module {rel}")
        return cls(src, root)

    def mod(self, rel: str) -> Mod:
        if not rel.startswith("unyt/"):
            rel = f"unyt/{rel}"
        if rel not in self._mods:
            if rel not in self.sources:
                raise AnalysisError(f"anchor-missing module {rel}")
            self._mods[rel] = Mod(rel, self.sources[rel])
            self._mods[rel].repo = self
        return self._mods[rel]

    def mods(self, only_anchor=True):
        for rel in ANCHOR_MODULES + ([] if only_anchor else OTHER_MODULES):
            if rel in self.sources:
                yield self.mod(rel)

    def with_sources(self, changes: dict[str, str]) -> "Repo":
        s = dict(self.sources)
        s.update(changes)
        return Repo(s, self.root)

    def digest(self) -> str:
        h = hashlib.sha1()
        for k in sorted(self.sources):
            h.update(k.encode())
            h.update(self.sources[k].encode())
        return h.hexdigest()[:12]


# ---------------------------------------------------------------------------
# small AST helpers used by many rules


def calls_in(node):
    for n in ast.walk(node):
        if isinstance(n, ast.Call):
            yield n


def call_name(call: ast.Call) -> str:
    return norm(call.func)


def is_name(node, *names) -> bool:
    return isinstance(node, ast.Name) and node.id in names


def attr_chain(node) -> list[str] | None:
    parts = []
    while isinstance(node, ast.Attribute):
        parts.append(node.attr)
        node = node.value
    if isinstance(node, ast.Name):
        parts.append(node.id)
        return list(reversed(parts))
    return None


def names_in(node) -> set[str]:
    return {n.id for n in ast.walk(node) if isinstance(n, ast.Name)}


def const(node):
    """value of a literal constant node, or raise KeyError"""
    if isinstance(node, ast.Constant):
        return node.value
    if isinstance(node, ast.UnaryOp) and isinstance(node.op, ast.USub):
        return -const(node.operand)
    raise KeyError(norm(node))


def is_raise_of(stmt, *excnames) -> bool:
    if not isinstance(stmt, ast.Raise) or stmt.exc is None:
        return False
    e = stmt.exc
    if isinstance(e, ast.Call):
        e = e.func
    return isinstance(e, ast.Name) and (not excnames or e.id in excnames)


def kwarg_of(call: ast.Call, name: str):
    for k in call.keywords:
        if k.arg == name:
            return k.value
    return None


def walk_no_nested(node):
    """ast.walk that does not descend into nested function/class definitions
    or lambdas (the node itself is yielded and descended)."""
    stack = [node]
    first = True
    while stack:
        n = stack.pop()
        if not first and isinstance(n, (ast.FunctionDef, ast.ClassDef, ast.Lambda)):
            yield n
            continue
        first = False
        yield n
        stack.extend(ast.iter_child_nodes(n))
